"""Behaviour check for the genrv/tools/generate.py tidy-up
(enumname, resolve_object_name, main).

Run from the repository root:
    PYTHONPATH=<root>/src/python python check.py
Passes on the unchanged tree and with patch.diff applied.
"""
import contextlib
import io
import itertools
import logging
import os
import random
import sys
import tempfile
from pathlib import Path

FAILURES = []
CHECKS = 0


def check(cond, msg):
    global CHECKS
    CHECKS += 1
    if not cond:
        FAILURES.append(msg)


# ---------------------------------------------------------------------------
# Property C13: registered module metadata == specs/fileformat.yaml
# ---------------------------------------------------------------------------
def reference_enumname(ekey):
    """Verbatim copy of the original genrv.tools.generate.enumname (oracle)."""
    ekey = ekey.replace("/", "_div_")
    ekey = ekey.replace("*", "_mul_")
    ekey = ekey.replace(".", "_")
    ekey = ekey.replace("+", "_plus_")
    ekey = ekey.replace("-", "_neg_")
    ekey = ekey.replace("^", "_pow_")
    if ekey[0].isdigit():
        ekey = f"_{ekey}"
    elif ekey[0] == "_":
        ekey = ekey[1:]
    while "__" in ekey:
        ekey = ekey.replace("__", "_")
    ekey = ekey.lower()
    return ekey


def compare_registry_with_spec(spec_path="specs/fileformat.yaml"):
    import yaml
    import rv.modules
    from rv.controller import (
        CompactRange,
        Controller,
        DependentRange,
        NoOffsetRange,
        Range,
        WarnOnlyRange,
    )
    from rv.option import Option

    with open(spec_path) as f:
        spec = yaml.safe_load(f)
    module_types = spec["module_types"]
    classes = rv.modules.MODULE_CLASSES
    expected_mtypes = [m.get("type") or name for name, m in module_types.items()]
    check(len(module_types) == 43, "spec has 43 module types")
    check(
        sorted(classes) == sorted(expected_mtypes),
        "registered mtypes == spec types",
    )
    n_ctl = n_opt = 0
    for type_name, m in module_types.items():
        mtype = m.get("type") or type_name
        cls = classes[mtype]
        where = f"[{type_name}]"
        bases = [b for b in cls.__mro__ if b.__name__ == "Base" + type_name]
        check(len(bases) == 1, where + " has exactly one generated base class")
        base = bases[0]
        check(base.__module__ == "rv.modules.base." + type_name.lower(), where + " base module")
        check(base.name == type_name, where + " name")
        check(base.mtype == mtype and cls.mtype == mtype, where + " mtype")
        check(base.mgroup == m.get("group") == cls.mgroup, where + " group")
        check(base.default_flags == (m.get("defaultFlags") or 0), where + " flags")
        check(base.flags == base.default_flags, where + " flags alias")
        # enums
        for ename, members in (m.get("enums") or {}).items():
            e = getattr(cls, ename)
            got = [(x.name, x.value) for x in e]
            want = [(reference_enumname(k), v) for k, v in members.items()]
            check(got == want, f"{where} enum {ename}")
        # controllers
        want_ctls = []
        for entry in m.get("controllers") or []:
            want_ctls.extend(entry.items())
        ctlmap = dict(want_ctls)
        # hand-written subclasses may append controllers (MetaModule, Sampler)
        # after the generated ones, never before or in between
        got_ctls = list(cls.controllers.items())
        extra = [k for k, _ in got_ctls[len(want_ctls):]]
        check(
            bool(extra) == (type_name in ("MetaModule", "Sampler")),
            where + " unexpected extra controllers %r" % extra,
        )
        check(all(not hasattr(base, k) for k in extra), where + " extras not on base")
        got_ctls = got_ctls[: len(want_ctls)]
        check(
            all(getattr(base, k) is c for k, c in got_ctls),
            where + " controllers live on the generated base",
        )
        check(
            [k for k, _ in got_ctls]
            == [("in_" if k == "in" else k) for k, _ in want_ctls],
            where + " controller order",
        )
        for number, ((gname, ctl), (sname, cdef)) in enumerate(
            zip(got_ctls, want_ctls), 1
        ):
            n_ctl += 1
            w = f"{where}.{gname}"
            check(isinstance(ctl, Controller), w + " type")
            check(getattr(cls, gname) is ctl, w + " attr identity")
            check(ctl.number == number, w + " number")
            check(ctl.name == gname, w + " name")
            check(ctl.label == gname.replace("_", " ").title(), w + " label")
            check(ctl._attached is bool(cdef.get("attached", True)), w + " attached")
            vt = ctl.value_type
            if "min" in cdef and "max" in cdef:
                kind = Range
                if cdef.get("compact"):
                    kind = CompactRange
                if cdef.get("no_offset"):
                    kind = NoOffsetRange
                check(type(vt) is kind, w + " range kind")
                check((vt.min, vt.max) == (cdef["min"], cdef["max"]), w + " bounds")
                check(ctl.default == cdef["default"], w + " default")
            elif "enum" in cdef and "default" in cdef:
                check(vt is getattr(cls, cdef["enum"]), w + " enum type")
                check(
                    ctl.default is vt[reference_enumname(cdef["default"])],
                    w + " enum default",
                )
            elif "bool" in cdef:
                check(vt is bool, w + " bool")
                check(ctl.default is cdef["default"], w + " bool default")
            elif "depends_on" in cdef:
                check(type(vt) is DependentRange, w + " dependent")
                check(vt.ctl_name == cdef["depends_on"], w + " depends_on")
                parent_enum = getattr(cls, ctlmap[cdef["depends_on"]]["enum"])
                want_map = [
                    (parent_enum[reference_enumname(k)], (r["min"], r["max"]))
                    for k, r in cdef["ranges"].items()
                ]
                got_map = [(k, (r.min, r.max)) for k, r in vt.range_map.items()]
                check(got_map == want_map, w + " range table")
                check(
                    all(type(r) is WarnOnlyRange for r in vt.range_map.values()),
                    w + " range table kinds",
                )
                check(type(vt.default) is WarnOnlyRange, w + " fallback kind")
                check(
                    (vt.default.min, vt.default.max) == want_map[0][1],
                    w + " fallback range",
                )
                check(ctl.default == cdef["default"], w + " default")
            else:
                check(False, w + " unknown controller kind in spec")
        # options
        want_opts = []
        for entry in m.get("options") or []:
            want_opts.extend(entry.items())
        check(
            sorted(cls.options) == sorted(k for k, _ in want_opts),
            where + " option names",
        )
        for oname, ospec in want_opts:
            n_opt += 1
            w = f"{where}.{oname}"
            opt = cls.options[oname]
            check(isinstance(opt, Option), w + " type")
            check(getattr(cls, oname) is opt, w + " attr identity")
            check(opt.name == oname, w + " name")
            check(opt.number == (ospec.get("number") or None), w + " number")
            check(
                (opt.byte, opt.bit, opt.size)
                == (ospec["byte"], ospec["bit"], ospec["size"]),
                w + " byte/bit/size",
            )
            if "min" in ospec and "max" in ospec:
                check((opt.min, opt.max) == (ospec["min"], ospec["max"]), w + " bounds")
                check(opt.inverted is False, w + " inverted")
            else:
                check((opt.min, opt.max) == (None, None), w + " no bounds")
                check(opt.inverted is bool(ospec.get("inverted")), w + " inverted")
            check(
                opt.exclusive_of == (ospec.get("exclusive_of") or []),
                w + " exclusive_of",
            )
            if ospec.get("enum"):
                check(
                    opt.default is getattr(cls, ospec["enum"])[ospec["default"]],
                    w + " enum default",
                )
            else:
                check(opt.default == ospec["default"], w + " default")
                check(type(opt.default) is type(ospec["default"]), w + " default type")
        # options chunk number
        if want_opts:
            check(cls.options_chnm == m.get("options_chnm", 0), where + " options_chnm")
    check(n_ctl == 502, f"502 controllers compared (got {n_ctl})")
    check(n_opt == 49, f"49 options compared (got {n_opt})")
    return n_ctl, n_opt


def outcome(fn, *args):
    """('ok', value) or ('err', exception type) - to compare error behaviour too."""
    try:
        return ("ok", fn(*args))
    except Exception as e:  # noqa
        return ("err", type(e))


def check_enumname():
    import yaml
    from genrv.tools.generate import enumname

    # 1. every enum key / enum default / range key that occurs in the spec
    with open("specs/fileformat.yaml") as f:
        spec = yaml.safe_load(f)
    keys = set()
    for m in spec["module_types"].values():
        for members in (m.get("enums") or {}).values():
            keys.update(members)
        for entry in m.get("controllers") or []:
            for cdef in entry.values():
                if "enum" in cdef:
                    keys.add(cdef["default"])
                keys.update(cdef.get("ranges") or {})
    check(len(keys) > 200, "collected spec enum keys (%d)" % len(keys))
    for k in sorted(keys):
        check(enumname(k) == reference_enumname(k), "spec key %r" % k)
        check(enumname(k).isidentifier(), "spec key %r gives identifier" % k)

    # 2. hand-picked values with known results
    known = {
        "sec/16384": "sec_div_16384",
        "line/2": "line_div_2",
        "Hz": "hz",
        "Hz/64": "hz_div_64",
        "2x": "_2x",
        "-12dB": "neg_12db",
        "x*y": "x_mul_y",
        "a.b": "a_b",
        "a+b": "a_plus_b",
        "a^b": "a_pow_b",
        "_lead": "lead",
        "__lead": "_lead",
        "___": "_",
        "_": "",
        "a__b___c": "a_b_c",
        "a_/_b": "a_div_b",
        "/": "div_",
        "//": "div_div_",
        "1/2": "_1_div_2",
        "-": "neg_",
        ".5": "5",
        "..5": "_5",
        "+-": "plus_neg_",
        "ABC": "abc",
        "4.4.1": "_4_4_1",
        "_9": "9",
        "٣x": "_٣x",  # ARABIC-INDIC DIGIT THREE is .isdigit()
        "Été": "été",
        "a b": "a b",
    }
    for k, v in known.items():
        check(enumname(k) == v, "known %r -> %r (got %r)" % (k, v, enumname(k)))
        check(reference_enumname(k) == v, "oracle sanity %r" % k)

    # 3. exhaustive over a small alphabet up to length 4, random beyond that
    alphabet = "/*.+-^_aZ7 "
    n = 0
    for length in range(1, 5):
        for tup in itertools.product(alphabet, repeat=length):
            k = "".join(tup)
            n += 1
            if enumname(k) != reference_enumname(k):
                check(False, "exhaustive %r" % k)
    check(n == sum(len(alphabet) ** i for i in range(1, 5)), "exhaustive count")
    rng = random.Random(13)
    alphabet2 = alphabet + "_/_-.bQ09ßİ"
    for _ in range(20000):
        k = "".join(rng.choice(alphabet2) for _ in range(rng.randint(1, 24)))
        if enumname(k) != reference_enumname(k):
            check(False, "random %r" % k)
    check(True, "fuzz done")

    # 4. error behaviour
    for bad in ("", None, 5, b"a/b", ["a"]):
        got, want = outcome(enumname, bad), outcome(reference_enumname, bad)
        check(got == want, "error behaviour for %r: %r vs %r" % (bad, got, want))
    check(outcome(enumname, "") == ("err", IndexError), "empty key -> IndexError")
    check(outcome(enumname, 5) == ("err", AttributeError), "int key -> AttributeError")
    check(type(enumname("A/b")) is str, "returns str")


def check_resolve_object_name():
    import collections
    import os.path

    from genrv.codegen.python.gen import PythonGenerator
    from genrv.tools import generate as g

    r = g.resolve_object_name
    check(r("genrv.codegen.python.gen:PythonGenerator") is PythonGenerator, "gen class")
    check(r("os:path.join") is os.path.join, "dotted attribute")
    check(r("os.path:join") is os.path.join, "dotted module")
    check(
        r("collections:OrderedDict.fromkeys") == collections.OrderedDict.fromkeys,
        "nested attribute",
    )
    check(r("genrv.tools.generate:enumname") is g.enumname, "self reference")
    check(outcome(r, "os") == ("err", ValueError), "no colon")
    check(outcome(r, "os:path:join") == ("err", ValueError), "two colons")
    check(outcome(r, "os:nope") == ("err", AttributeError), "missing attribute")
    check(outcome(r, "os:path.nope.x") == ("err", AttributeError), "missing nested")
    check(outcome(r, "os:") == ("err", AttributeError), "empty attribute")
    check(outcome(r, "no_such_module_xyz:a") == ("err", ModuleNotFoundError), "module")
    check(outcome(r, ":a")[0] == "err", "empty module")


def run_main(argv):
    from genrv.tools import generate as g

    old_argv = sys.argv
    sys.argv = ["generate"] + argv
    err = io.StringIO()
    out = io.StringIO()
    try:
        with contextlib.redirect_stderr(err), contextlib.redirect_stdout(out):
            try:
                rc = g.main()
            except SystemExit as e:
                rc = ("exit", e.code)
    finally:
        sys.argv = old_argv
    return rc, out.getvalue(), err.getvalue()


def check_main_and_generate():
    """Drive the real entry point; output must equal the checked-in base classes."""
    from genrv.tools import generate as g

    check(g.DESCRIPTION == "Radiant Voices code generator tool", "DESCRIPTION")
    parser = g.arg_parser()
    check(parser.parse_args(["--config", "x.yaml"]).config == "x.yaml", "arg parser")

    rc, _, err = run_main([])
    check(rc == ("exit", 2), "missing --config exits with 2")
    check("--config" in err, "usage mentions --config")

    root = Path.cwd()
    base_dir = root / "src" / "python" / "rv" / "modules" / "base"
    with tempfile.TemporaryDirectory() as tmp:
        tmp = Path(tmp)
        dest = tmp / "dest"
        cfg = tmp / "genrv-config.yaml"
        cfg.write_text(
            "- generator: genrv.codegen.python.gen:PythonGenerator\n"
            "  spec_base: %s\n"
            "  dest_base: %s\n" % (root / "specs", dest)
        )
        records = []

        class Grab(logging.Handler):
            def emit(self, record):
                records.append(record.getMessage())

        h = Grab()
        logging.getLogger("genrv").addHandler(h)
        try:
            rc, _, _ = run_main(["--config", str(cfg)])
        finally:
            logging.getLogger("genrv").removeHandler(h)
        check(rc == 0, "main() returns 0")
        check(
            "Generating code with genrv.codegen.python.gen:PythonGenerator..." in records,
            "main log message",
        )
        check(any(m.startswith("Running codegen PythonGenerator(") for m in records), "generate log")
        made = sorted(os.listdir(dest / "modules" / "base"))
        want = sorted(f for f in os.listdir(base_dir) if f.endswith(".py") and f != "__init__.py")
        check(made == want, "generated file set == checked-in base classes")
        check(len(made) == 43, "43 generated files")
        for f in made:
            check(
                (dest / "modules" / "base" / f).read_text() == (base_dir / f).read_text(),
                "generated %s identical to checked-in file" % f,
            )

        # empty config list: nothing to do, still 0
        cfg2 = tmp / "empty.yaml"
        cfg2.write_text("[]\n")
        rc, _, _ = run_main(["--config", str(cfg2)])
        check(rc == 0, "empty config -> 0")
        # missing config file
        old_argv = sys.argv
        sys.argv = ["generate", "--config", str(tmp / "missing.yaml")]
        try:
            check(outcome(g.main) == ("err", FileNotFoundError), "missing config file")
        finally:
            sys.argv = old_argv

        # generate() directly, with a generator referenced through a dotted attr
        from jinja2 import DictLoader, Environment

        calls = []

        class FakeGen:
            def __init__(self, **options):
                calls.append(("init", options))

            def run(self, env):
                calls.append(("run", env))

        class Holder:
            Gen = FakeGen

        g._check_holder = Holder
        try:
            env = Environment(loader=DictLoader({}))
            result = g.generate(env, "genrv.tools.generate:_check_holder.Gen", a=1, b="x")
        finally:
            del g._check_holder
        check(result is None, "generate returns None")
        check(calls == [("init", {"a": 1, "b": "x"}), ("run", env)], "generate call order")


def main():
    check_enumname()
    check_resolve_object_name()
    check_main_and_generate()
    compare_registry_with_spec()
    if FAILURES:
        print("FAIL (%d of %d checks)" % (len(FAILURES), CHECKS))
        for f in FAILURES[:40]:
            print("  -", f)
        return 1
    print("PASS (%d checks)" % CHECKS)
    return 0


if __name__ == "__main__":
    sys.exit(main())
