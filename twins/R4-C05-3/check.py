"""Behaviour check for C05 refactoring 3.

Touched code: Project.chunks (link chunks and per-module value chunks moved to
helpers), Synth.chunks (uses the same helper, via rv/container.py) and
SunVoxReader.process_end_of_file (link-slot reconstruction, out-link padding,
legacy module-byte masking).

Run from the repository root:
    PYTHONPATH=<root>/src/python python check.py
"""
import hashlib
import io
import logging
import struct
import sys
from enum import Enum
from pathlib import Path

import rv.errors
from rv.controller import Range
from rv.errors import EmptySynthError
from rv.lib.iff import write_chunk
from rv.modules import MODULE_CLASSES
from rv.modules.amplifier import Amplifier
from rv.modules.analoggenerator import AnalogGenerator
from rv.modules.metamodule import MetaModule
from rv.modules.output import Output
from rv.pattern import Pattern, PatternClone
from rv.project import Project
from rv.readers.reader import read_sunvox_file
from rv.synth import Synth

ROOT = Path(rv.errors.__file__).resolve().parents[3]
FILES = ROOT / "tests" / "files"

FAILURES = []


def check(cond, what):
    if not cond:
        FAILURES.append(what)
        print("FAIL:", what)


class Capture(logging.Handler):
    def __init__(self):
        super().__init__(level=logging.DEBUG)
        self.records = []

    def emit(self, record):
        self.records.append(record)

    def messages(self, level=logging.WARNING):
        return [r.getMessage() for r in self.records if r.levelno >= level]


CAPTURE = Capture()
rv_logger = logging.getLogger("rv")
rv_logger.addHandler(CAPTURE)
rv_logger.setLevel(logging.WARNING)
rv_logger.propagate = False


def save(obj):
    f = io.BytesIO()
    obj.write_to(f)
    return f.getvalue()


def load(data):
    return read_sunvox_file(io.BytesIO(data))


def snap(o, seen=None):
    """Structural snapshot of the observable state of an object graph."""
    seen = seen if seen is not None else set()
    if o is None or isinstance(o, (bool, int, float, str, bytes)):
        return o
    if isinstance(o, Enum):
        return ("enum", type(o).__name__, o.name)
    if isinstance(o, bytearray):
        return ("bytearray", bytes(o))
    if id(o) in seen:
        return ("cycle", type(o).__name__)
    seen = seen | {id(o)}
    if isinstance(o, (list, tuple)):
        return (type(o).__name__, [snap(x, seen) for x in o])
    if isinstance(o, (set, frozenset)):
        return ("set", sorted(repr(snap(x, seen)) for x in o))
    if isinstance(o, dict):
        items = [(repr(snap(k, seen)), snap(v, seen)) for k, v in o.items()]
        factory = getattr(o, "default_factory", None)
        if factory is not None:
            # Entries a defaultdict creates on first access are not state.
            blank = snap(factory())
            items = sorted(item for item in items if item[1] != blank)
        return ("dict", items)
    state = {}
    if hasattr(o, "__dict__"):
        state.update(vars(o))
    for klass in type(o).__mro__:
        for slot in getattr(klass, "__slots__", ()):
            if hasattr(o, slot):
                state[slot] = getattr(o, slot)
    if state:
        return (
            type(o).__name__,
            [(k, snap(v, seen)) for k, v in sorted(state.items())],
        )
    if hasattr(o, "tobytes"):
        return (type(o).__name__, o.tobytes())
    return (type(o).__name__, "opaque")


def iter_iff(data):
    pos = 0
    while pos + 8 <= len(data):
        name = data[pos : pos + 4]
        (size,) = struct.unpack("<I", data[pos + 4 : pos + 8])
        yield name, pos + 8, size
        pos += 8 + size


OUT_OF_RANGE = [300, -1, 40000, 0, -129, 255, 1, 70000, -32769, 2, 1000, -2, 129]


def mutate_cvals(data, variant):
    """Replace top-level CVALs by (mostly out-of-range) values.

    Variants 1 and 2 only touch controllers with a plain numeric range (so the
    file stays loadable); variant 3 overwrites every CVAL, enums included.
    """
    out = bytearray(data)
    numeric = []
    cnum = 0
    for n, (name, start, size) in enumerate(iter_iff(data)):
        if name == b"STYP":
            mtype = data[start : start + size].split(b"\0")[0].decode("utf8")
            ctls = list(MODULE_CLASSES[mtype].controllers.values())
            numeric = [isinstance(c.value_type, Range) for c in ctls]
            cnum = 0
        elif name == b"SEND":
            numeric = []
        elif name == b"CVAL" and size == 4:
            is_numeric = cnum < len(numeric) and numeric[cnum]
            cnum += 1
            if variant == 3 or is_numeric:
                value = OUT_OF_RANGE[(n * 7 + variant * 3) % len(OUT_OF_RANGE)]
                out[start : start + 4] = struct.pack("<i", value)
    return bytes(out)


def cycle(data, n=3):
    """Load/save n times; return the outcome as a list of digest parts."""
    parts = []
    try:
        obj = load(data)
    except Exception as e:  # noqa
        return [b"load-error:" + type(e).__name__.encode()], None
    try:
        before = snap(obj)
        y1 = save(obj)
        after = snap(obj)
        y1b = save(obj)
    except Exception as e:  # noqa
        return [b"save-error:" + type(e).__name__.encode()], None
    check(before == after, "saving changed the observable state")
    listed = [c for c in obj.chunks() if c[0] is not None]
    check(
        b"".join(n.ljust(4) + struct.pack("<I", len(d)) + d for n, d in listed) == y1,
        "chunks() and write_to() disagree",
    )
    check(y1 == y1b, "saving twice gave different bytes")
    parts.append(y1)
    current = y1
    for i in range(n):
        nxt = save(load(current))
        check(nxt == y1, f"drift at cycle {i + 2}")
        current = nxt
    return parts, y1


def corpus_digest():
    h = hashlib.sha256()
    count = 0
    for path in sorted(FILES.rglob("*.sun*")):
        if not path.is_file():
            continue
        data = path.read_bytes()
        for variant in range(4):
            CAPTURE.records.clear()
            payload = data if variant == 0 else mutate_cvals(data, variant)
            parts, _ = cycle(payload)
            h.update(path.name.encode() + b"#%d" % variant)
            for part in parts:
                h.update(hashlib.sha256(part).digest())
            for msg in CAPTURE.messages():
                h.update(msg.encode("utf8", "replace"))
            count += 1
    return h.hexdigest(), count


EXPECTED_CORPUS_DIGEST = "6d3f55a57842340930d49de5a80d6b1938fe57ec8761ae5220a7f07569187433"


# ---------------------------------------------------------------- unit checks


def i32(*values):
    return struct.pack("<%di" % len(values), *values)


def chunk_list(data):
    return [(n, data[s : s + size]) for n, s, size in iter_iff(data)]


def join_chunks(chunks):
    f = io.BytesIO()
    for name, data in chunks:
        write_chunk(f, name, data)
    return f.getvalue()


def names_of(chunks):
    return [n for n, _ in chunks]


def module_sections(data):
    """Split a project's chunks into (head, [module chunk lists])."""
    chunks = chunk_list(data)
    names = names_of(chunks)
    first = names.index(b"SFFF") if b"SFFF" in names else len(names)
    # modules start after the last PEND (or the header when there is no pattern)
    head, rest = chunks[:first], chunks[first:]
    sections, current = [], []
    for c in rest:
        current.append(c)
        if c[0] == b"SEND":
            sections.append(current)
            current = []
    return head, sections


def rebuild(head, sections):
    return join_chunks(head + [c for s in sections for c in s])


def set_chunk(section, name, data, after=b"SLNK"):
    """Replace chunk `name` in a module section, or insert it after `after`."""
    if name in names_of(section):
        return [(n, data if n == name else d) for n, d in section]
    at = names_of(section).index(after) + 1
    return section[:at] + [(name, data)] + section[at:]


def outcome(fn):
    try:
        return fn()
    except Exception as e:  # noqa
        return type(e).__name__


def links_of(project):
    return [
        None
        if m is None
        else (m.in_links, m.in_link_slots, m.out_links, m.out_link_slots)
        for m in project.modules
    ]


def build_project():
    p = Project()
    a = p.new_module(AnalogGenerator, name="a")
    b = p.new_module(Amplifier, name="b")
    c = p.new_module(Amplifier, name="c")
    d = p.new_module(Amplifier, name="d")
    a >> b >> p.output
    a >> c >> p.output
    a >> d
    d >> b
    c >> d
    return p, (a, b, c, d)


def check_write_side():
    p, (a, b, c, d) = build_project()
    data = save(p)
    head, sections = module_sections(data)
    check(len(sections) == 5, "five module sections")
    # Output: links but no controllers -> SLNK (+SLnK), no CVAL/CMID/CHNK
    out_names = names_of(sections[0])
    check(b"CVAL" not in out_names and b"CMID" not in out_names, "output no CVAL")
    check(out_names[-1] == b"SEND", "section ends with SEND")
    for section, mod in zip(sections, p.modules):
        names = names_of(section)
        stored = dict(section)
        check(names.count(b"SLNK") == 1, "one SLNK per module")
        check(stored[b"SLNK"] == i32(*mod.in_links), f"SLNK of {mod.name}")
        wants_slots = any(s not in (-1, 0) for s in mod.in_link_slots)
        check((b"SLnK" in names) == wants_slots, f"SLnK elision for {mod.name}")
        if wants_slots:
            check(stored[b"SLnK"] == i32(*mod.in_link_slots), "SLnK content")
            check(names.index(b"SLnK") == names.index(b"SLNK") + 1, "SLnK follows")
        attached = [k for k, ctl in mod.controllers.items() if ctl.attached(mod)]
        cvals = [d_ for n, d_ in section if n == b"CVAL"]
        check(cvals == [i32(mod.get_raw(k)) for k in attached], "CVAL values")
        if attached:
            check(names.count(b"CMID") == 1, "one CMID")
            check(len(stored[b"CMID"]) == 8 * len(attached), "CMID size")
            last_cval = len(names) - 1 - names[::-1].index(b"CVAL")
            check(names[last_cval + 1] == b"CMID", "CMID right after the CVALs")
            first_cval = names.index(b"CVAL")
            before = names[first_cval - 1]
            check(before in (b"SLNK", b"SLnK"), "CVALs right after link chunks")
        if mod.chnk:
            check(stored[b"CHNK"] == struct.pack("<I", mod.chnk), "CHNK count")
        else:
            check(b"CHNK" not in names and b"CHNM" not in names, "no CHNK")
    check(any(b"SLnK" in names_of(s) for s in sections), "some SLnK written")
    check(any(b"SLnK" not in names_of(s) for s in sections[1:]), "some SLnK elided")

    # a module without links gets an empty SLNK
    q = Project()
    lonely = q.new_module(Amplifier)
    _, qs = module_sections(save(q))
    check(dict(qs[1])[b"SLNK"] == b"" and b"SLnK" not in names_of(qs[1]), "empty SLNK")
    check(dict(qs[0])[b"SLNK"] == b"", "output empty SLNK")
    # only -1/0 slots: elided
    lonely.in_links[:] = [0, -1, 0]
    lonely.in_link_slots[:] = [0, -1, -1]
    _, qs = module_sections(save(q))
    check(b"SLnK" not in names_of(qs[1]), "0/-1 slots elided")
    check(dict(qs[1])[b"SLNK"] == i32(0, -1, 0), "SLNK with interior -1")
    lonely.in_link_slots[:] = [0, -1, 2]
    _, qs = module_sections(save(q))
    check(dict(qs[1]).get(b"SLnK") == i32(0, -1, 2), "non-zero slot written")
    # slot list of a different length is an error raised before SLNK is produced
    lonely.in_link_slots[:] = [0, -1]
    produced = []
    try:
        for chunk in q.chunks():
            produced.append(chunk[0])
    except struct.error as e:
        check(str(e) == "pack expected 3 items for packing (got 2)", f"msg {e}")
    else:
        check(False, "mismatched slot list should fail")
    check(produced.count(b"SLNK") == 1, "failed before second SLNK")
    check(produced[-1] == b"SMIP", f"last chunk before failure {produced[-1]}")
    lonely.in_link_slots[:] = [0, -1, 5, 7]
    check(outcome(lambda: save(q)) == "error", "longer slot list fails too")
    lonely.in_links[:] = []
    _, qs = module_sections(save(q))
    check(dict(qs[1])[b"SLNK"] == b"", "slots ignored without links")

    # gaps (None modules) are written as a bare SEND
    r, (ra, rb, rc, rd) = build_project()
    r.modules[2] = None
    for m in (ra, rc, rd, r.output):
        m.in_links[:] = [x for x in m.in_links if x != 2]
        m.in_link_slots[:] = [0] * len(m.in_links)
    _, rs = module_sections(save(r))
    check(names_of(rs[2]) == [b"SEND"], "gap is a bare SEND")
    check(len(rs) == 5, "gap keeps its position")

    # patterns: None -> bare PEND
    r.attach_pattern(Pattern(tracks=2, lines=4))
    r.attach_pattern(None)
    r.attach_pattern(PatternClone(source=0))
    names = names_of(chunk_list(save(r)))
    check(names.count(b"PEND") == 3 and names.count(b"PDTA") == 1, "patterns")
    check(names.count(b"PPAR") == 1, "pattern clone")


def check_synth_side():
    try:
        list(Synth().chunks())
    except EmptySynthError as e:
        check(e.args == ("Cannot serialize a synth with no module",), "empty synth")
    else:
        check(False, "empty synth should fail")
    amp = Amplifier(volume=3, balance=-100)
    chunks = [c for c in Synth(amp).chunks()]
    names = names_of(chunks)
    check(names[:3] == [b"SSYN", b"VERS", b"SFFF"], "synth header")
    check(b"SXXX" not in names and b"SVPR" not in names, "no project-only chunks")
    check(b"SLNK" not in names, "synth has no link chunks")
    n = len(Amplifier.controllers)
    check(names.count(b"CVAL") == n and names.count(b"CMID") == 1, "synth CVAL/CMID")
    check(names[-1] == b"SEND" and names[-2] == b"CMID", "amplifier tail")
    cvals = [struct.unpack("<i", d)[0] for nm, d in chunks if nm == b"CVAL"]
    check(cvals[:2] == [3, 28], f"raw values {cvals[:2]}")
    # Output: no controllers -> no CVAL, no CMID
    names = names_of(list(Synth(Output()).chunks()))
    check(b"CVAL" not in names and b"CMID" not in names, "synth of Output")
    check(names[-1] == b"SEND", "ends with SEND")

    # MetaModule: attachment is recomputed from user_defined_controllers on save
    mm = read_sunvox_file(FILES / "metamodule.sunsynth").module
    fixed = sum(1 for k in mm.controllers if not k.startswith("user_defined_"))
    for count in (0, 3, 27):
        mm.option_values["user_defined_controllers"] = count  # no callback
        chunks = [c for c in Synth(mm).chunks() if c[0] is not None]
        names = names_of(chunks)
        check(names.count(b"CVAL") == fixed + count, f"metamodule CVALs {count}")
        check(len(dict(chunks)[b"CMID"]) == 8 * (fixed + count), "metamodule CMID")
        check(b"CHNK" in names and names.index(b"CHNK") > names.index(b"CMID"), "CHNK")
        data = save(Synth(mm))
        check(save(load(data)) == data, f"metamodule stable with {count}")
    # inside a project the attachment is NOT recomputed while saving
    p = Project()
    inner = p.new_module(MetaModule)
    inner.option_values["user_defined_controllers"] = 5  # no callback
    _, sections = module_sections(save(p))
    check(names_of(sections[1]).count(b"CVAL") == fixed, "project: as attached")
    inner.user_defined_controllers = 5
    _, sections = module_sections(save(p))
    check(names_of(sections[1]).count(b"CVAL") == fixed + 5, "project: after attach")


EXPECTED_LINKS_AFTER_LOAD = "8ab899ca54cb5971c7f0169ba40b66b2d9e191ddc12ae357212e9c5f2a4c2ad5"


def check_read_side():
    p, mods = build_project()
    data = save(p)
    q = load(data)
    check(links_of(q) == links_of(p), "links survive a round trip")
    check(save(q) == data, "round trip bytes")

    head, sections = module_sections(data)
    stripped = [[c for c in s if c[0] != b"SLnK"] for s in sections]
    # Without any SLnK the slots are rebuilt (first non-output modules, then output)
    rebuilt = load(rebuild(head, stripped))
    results = {"rebuilt": links_of(rebuilt)}
    once = save(rebuilt)
    check(save(load(once)) == once, "rebuilt slots are stable")

    # trailing empty modules are dropped, interior ones kept
    padded = rebuild(head, sections + [[(b"SEND", b"")]] * 3)
    check(len(load(padded).modules) == 5, "trailing gaps dropped")
    check(save(load(padded)) == data, "trailing gaps do not reach the output")
    gap, (ga, gb, gc, gd) = build_project()
    gap.modules[4] = None
    for m in gap.modules:
        if m:
            m.in_links[:] = [x for x in m.in_links if x != 4]
            m.in_link_slots[:] = [0] * len(m.in_links)
    gap.new_module(Amplifier, name="tail") >> gap.output
    g = load(save(gap))
    check(g.modules[4].name == "tail" and len(g.modules) == 5, "reused gap is filled")
    gap.modules[3] = None
    for m in gap.modules:
        if m:
            m.in_links[:] = [x for x in m.in_links if x != 3]
            m.in_link_slots[:] = [0] * len(m.in_links)
    g = load(save(gap))
    check(g.modules[3] is None and len(g.modules) == 5, "interior gap kept")
    gdata = save(g)
    check(save(load(gdata)) == gdata, "project with gap stable")
    results["gap"] = links_of(g)
    empty = load(rebuild(head, [[(b"SEND", b"")]] * 2))
    check(empty.modules == [], "only gaps -> no modules")

    # explicit slots beyond the source's list pad out_links/out_link_slots with -1
    s2 = [list(s) for s in stripped]
    s2[2] = set_chunk(s2[2], b"SLNK", i32(1))
    s2[2] = set_chunk(s2[2], b"SLnK", i32(6))
    results["padded"] = outcome(lambda: links_of(load(rebuild(head, s2))))
    s2[2] = set_chunk(s2[2], b"SLnK", i32(-1))
    # (an all -1 SLnK is trimmed to nothing, so the slot is rebuilt instead)
    results["slot -1"] = outcome(lambda: links_of(load(rebuild(head, s2))))
    s2[2] = set_chunk(s2[2], b"SLNK", i32(1, 3))
    s2[2] = set_chunk(s2[2], b"SLnK", i32(-1, 2))
    results["slot -1, 2"] = outcome(lambda: links_of(load(rebuild(head, s2))))
    s2[2] = set_chunk(s2[2], b"SLnK", i32(4))
    results["short slots"] = outcome(lambda: links_of(load(rebuild(head, s2))))

    # links to modules that do not exist
    CAPTURE.records.clear()
    s3 = [list(s) for s in stripped]
    s3[3] = set_chunk(s3[3], b"SLNK", i32(1, 9))
    results["dangling, no slots"] = outcome(lambda: links_of(load(rebuild(head, s3))))
    results["dangling log"] = CAPTURE.messages()
    s3[3] = set_chunk(s3[3], b"SLnK", i32(0, 1))
    results["dangling, slots"] = outcome(lambda: links_of(load(rebuild(head, s3))))
    s3[3] = set_chunk(s3[3], b"SLNK", i32(1, -7))
    results["negative link"] = outcome(lambda: links_of(load(rebuild(head, s3))))
    # interior -1 link without slots
    s4 = [list(s) for s in stripped]
    s4[0] = set_chunk(s4[0], b"SLNK", i32(-1, 2, -1, 3, -1))
    results["interior -1"] = outcome(lambda: links_of(load(rebuild(head, s4))))
    # link to a gap
    s5 = [list(s) for s in stripped]
    s5[1] = [(b"SEND", b"")]
    results["link to gap"] = outcome(lambda: links_of(load(rebuild(head, s5))))
    s5 = [list(s) for s in sections]
    s5[1] = [(b"SEND", b"")]
    results["link to gap, slots"] = outcome(
        lambda: links_of(load(rebuild(head, s5)))
    )
    # self link
    s6 = [list(s) for s in stripped]
    s6[2] = set_chunk(s6[2], b"SLNK", i32(2, 1))
    results["self link"] = outcome(lambda: links_of(load(rebuild(head, s6))))

    text = repr(sorted(results.items()))
    digest = hashlib.sha256(text.encode()).hexdigest()
    if digest != EXPECTED_LINKS_AFTER_LOAD:
        for k, v in sorted(results.items()):
            print("   ", k, "=>", v)
    check(digest == EXPECTED_LINKS_AFTER_LOAD, f"link reconstruction changed: {digest}")
    # spot checks, readable
    check(
        results["padded"][1][2:]
        == ([3, 4, -1, -1, -1, -1, 2], [0, 0, -1, -1, -1, -1, 0]),
        f"out link padding {results['padded'][1]}",
    )
    check(results["dangling, slots"] == "IndexError", "dangling link with slots")
    check(
        results["dangling log"]
        == ["Found SLNK on 3 referencing non-existent module 9"],
        f"dangling warning {results['dangling log']}",
    )


def check_legacy_masking():
    p = Project()
    gen = p.new_module(AnalogGenerator)
    gen >> p.output
    pat = Pattern(tracks=2, lines=3)
    p.attach_pattern(pat)
    p.attach_pattern(None)
    p.attach_pattern(PatternClone(source=0, x=8))
    values = [0x1234, 0x00FF, 0x0100, 0xFFFF, 0x0002, 0]
    for note, v in zip([n for line in pat.data for n in line], values):
        note.module = v
    data = save(p)

    def with_version(version):
        chunks = chunk_list(data)
        packed = struct.pack("BBBB", *reversed(version))
        return join_chunks([(n, packed if n == b"VERS" else d) for n, d in chunks])

    def loaded_modules(version):
        q = load(with_version(version))
        check(q.loaded_sunvox_version == version, "version read back")
        check(q.patterns[1] is None, "empty pattern kept")
        check(isinstance(q.patterns[2], PatternClone), "clone kept")
        return [n.module for line in q.patterns[0].data for n in line]

    masked = [v & 0xFF for v in values]
    for version in [(1, 9, 4, 9), (1, 7, 0, 0), (0, 0, 0, 0), (1, 9, 4, 255)]:
        check(loaded_modules(version) == masked, f"masked for {version}")
    for version in [(1, 9, 5, 0), (1, 9, 5, 1), (2, 1, 2, 1), (2, 0, 0, 0)]:
        check(loaded_modules(version) == values, f"untouched for {version}")
    legacy = save(load(with_version((1, 9, 4, 0))))
    check(save(load(legacy)) == legacy, "legacy file stable after first save")


def main():
    check_write_side()
    check_synth_side()
    check_read_side()
    check_legacy_masking()
    digest, count = corpus_digest()
    check(count >= 200, f"corpus size {count}")
    check(
        digest == EXPECTED_CORPUS_DIGEST,
        f"corpus digest changed: {digest}",
    )
    if FAILURES:
        print(f"FAIL ({len(FAILURES)} problems)")
        sys.exit(1)
    print("PASS")


if __name__ == "__main__":
    main()
