"""Behaviour check for C06-2: the read side of rv.modules.sampler.Sampler (chunk dispatch, legacy detection, sample decoding)."""
import hashlib
import logging
import struct
import sys
import traceback
from io import BytesIO
from pathlib import Path

import rv
from rv.api import NOTE, Project, Synth, m, read_sunvox_file

logging.disable(logging.CRITICAL)

ROOT = Path(rv.__file__).resolve().parents[3]
FILES = ROOT / "tests" / "files"
Sampler = m.Sampler

FAILURES = []
OBSERVED = {}


def check(cond, label):
    if not cond:
        FAILURES.append(label)
        print("FAIL:", label)


def sha(data):
    return hashlib.sha256(data).hexdigest()[:20]


def golden(key, data):
    """Compare a digest of `data` with the value recorded on the original tree."""
    digest = sha(data if isinstance(data, bytes) else repr(data).encode())
    OBSERVED[key] = digest
    if "--record" in sys.argv:
        return
    check(key in GOLDEN, "golden value missing for %s" % key)
    check(GOLDEN.get(key) == digest, "golden mismatch for %s" % key)


def raises(exc_type, fn, label):
    try:
        fn()
    except exc_type as e:
        check(type(e) is exc_type, "%s: raised %r" % (label, type(e)))
        return
    except Exception as e:  # noqa
        check(False, "%s: raised %r instead of %r" % (label, type(e), exc_type))
        return
    check(False, "%s: did not raise" % label)


# ---------------------------------------------------------------- IFF helpers


def parse_iff(data):
    out = []
    pos = 0
    while pos < len(data):
        name = data[pos : pos + 4]
        (size,) = struct.unpack("<I", data[pos + 4 : pos + 8])
        out.append((name, data[pos + 8 : pos + 8 + size]))
        pos += 8 + size
    return out


def build_iff(chunks):
    return b"".join(n + struct.pack("<I", len(d)) + d for n, d in chunks)


def module_chunk_sections(data):
    """Return, per CHNK found at this nesting level, the list of chunks after it
    up to (not including) SEND."""
    sections = []
    current = None
    for name, payload in parse_iff(data):
        if name == b"CHNK":
            current = []
            sections.append(current)
        elif name == b"SEND":
            current = None
        elif current is not None:
            current.append((name, payload))
    return sections


def rewrite_config_record(data, fn, which=0):
    """Apply fn to the CHDT of CHNM 0 of the `which`-th module with a CHNK."""
    chunks = parse_iff(data)
    out = []
    section = -1
    in_section = False
    pending = False
    for name, payload in chunks:
        if name == b"CHNK":
            section += 1
            in_section = True
        elif name == b"SEND":
            in_section = False
        elif in_section and section == which and name == b"CHNM":
            pending = payload == b"\0\0\0\0"
        elif pending and name == b"CHDT":
            payload = fn(payload)
            pending = False
        out.append((name, payload))
    return build_iff(out)


SIGN_OFFSET = 0xFC  # 4 + 22 + 2 + 2 + 2 + 4 + 96 + 48 + 48 + 10 + 4 + 2 + 4 + 4


def break_signature(record):
    assert record[SIGN_OFFSET : SIGN_OFFSET + 4] == b"PMAS", record[SIGN_OFFSET:][:4]
    return record[:SIGN_OFFSET] + b"XMAS" + record[SIGN_OFFSET + 4 :]


def overlong(record):
    return record + b"\0" * (0x191 - len(record)) if len(record) <= 0x190 else record


def exactly_0x190(record):
    return record.ljust(0x190, b"\0")


def truncated(record):
    # stops right before max_version / editor_cursor / editor_selected_size
    return record[:0x184]


def truncated_mid(record):
    # keeps max_version, drops both editor fields
    return record[:0x188]


# ------------------------------------------------------------- object helpers


def save(obj):
    f = BytesIO()
    obj.write_to(f)
    return f.getvalue()


def load(data):
    return read_sunvox_file(BytesIO(data))


def env_state(env):
    return (
        env.chnm,
        env.enable,
        env.sustain,
        env.loop,
        env.ctl_index,
        env.gain_pct,
        env.velocity,
        env.sustain_point,
        env.loop_start_point,
        env.loop_end_point,
        list(env.points),
        env.loaded,
    )


def sample_state(s):
    if s is None:
        return None
    return (
        s.data,
        s.loop_start,
        s.loop_len,
        s.volume,
        s.finetune,
        s.format,
        s.channels,
        s.rate,
        s.loop_type,
        s.loop_sustain,
        s.panning,
        s.relative_note,
        s.reserved2,
        s.name,
        s.start_pos,
    )


def effect_state(effect):
    if effect is None:
        return None
    mod = effect.module
    return (type(mod).__name__, dict(mod.controller_values), dict(mod.option_values))


def sampler_state(mod):
    st = {}
    for name in mod.controllers:
        st["ctl." + name] = getattr(mod, name)
    for name in mod.options:
        st["opt." + name] = getattr(mod, name)
    for name in (
        "name flags mod_finetune mod_relative_note mod_scale color midi_in_always "
        "midi_in_channel midi_out_name midi_out_channel midi_out_bank "
        "midi_out_program instrument_name version max_version volume_old "
        "ins_finetune ins_relative_note editor_cursor editor_selected_size "
        "unused1 unused2 unused3 unused4 unused5 unused6 is_legacy"
    ).split():
        st[name] = getattr(mod, name)
    st["legacy_chunks"] = (
        None
        if mod.legacy_chunks is None
        else [(c.chnm, c.chdt, c.chff, c.chfr) for c in mod.legacy_chunks]
    )
    st["env.volume"] = env_state(mod.volume_envelope)
    st["env.panning"] = env_state(mod.panning_envelope)
    st["env.pitch"] = env_state(mod.pitch_envelope)
    for i, env in enumerate(mod.effect_control_envelopes):
        st["env.effect%d" % i] = env_state(env)
    st["note_samples"] = mod.note_samples.bytes
    for i, s in enumerate(mod.samples):
        if s is not None:
            st["sample%d" % i] = sample_state(s)
    st["sample_slots"] = [s is not None for s in mod.samples]
    st["effect"] = effect_state(mod.effect)
    return st


def changed_keys(before, after):
    keys = set(before) | set(after)
    return sorted(k for k in keys if before.get(k, "<absent>") != after.get(k, "<absent>"))


def wave(n, seed=1):
    return bytes((i * 37 + seed * 11) % 256 for i in range(n))


def make_sample(fmt, channels, frames=8, seed=1, **kw):
    s = Sampler.Sample()
    s.format = fmt
    s.channels = channels
    s.data = wave(frames * s.frame_size, seed)
    s.rate = 22050 + seed
    s.name = b"smp%d" % seed
    for k, v in kw.items():
        setattr(s, k, v)
    return s


def build_sampler(with_effect=True, slots=(0, 3, 6)):
    mod = Sampler(instrument_name=b"built")
    mod.volume = 300
    mod.polyphony = 5
    mod.vibrato_type = mod.VibratoType.saw
    mod.vibrato_attack = 17
    mod.vibrato_depth = 99
    mod.vibrato_rate = 33
    mod.volume_fadeout = 1234
    mod.record_in_mono = True
    mod.volume_envelope.points = [(0, 0x8000), (10, 0x2000), (200, 0)]
    mod.volume_envelope.sustain_point = 1
    mod.panning_envelope.enable = True
    mod.panning_envelope.points = [(0, -0x2000), (50, 0x2000)]
    mod.pitch_envelope.loop = True
    mod.pitch_envelope.loop_end_point = 1
    mod.effect_control_envelopes[2].gain_pct = 55
    combos = [
        (Sampler.Format.int8, Sampler.Channels.mono),
        (Sampler.Format.int16, Sampler.Channels.stereo),
        (Sampler.Format.float32, Sampler.Channels.mono),
        (Sampler.Format.int16, Sampler.Channels.mono),
        (Sampler.Format.float32, Sampler.Channels.stereo),
        (Sampler.Format.int8, Sampler.Channels.stereo),
    ]
    for n, slot in enumerate(slots):
        fmt, ch = combos[n % len(combos)]
        mod.samples[slot] = make_sample(
            fmt,
            ch,
            frames=4 + n,
            seed=slot + 1,
            loop_type=list(Sampler.LoopType)[n % 3],
            loop_sustain=bool(n % 2),
            loop_start=n,
            loop_len=n + 1,
            volume=30 + n % 30,
            finetune=-5 + n % 100,
            panning=-20 + 10 * (n % 9),
            relative_note=n % 50 - 2,
            start_pos=n,
        )
    mod.note_samples[NOTE.C4] = slots[-1] if slots else 0
    if with_effect:
        reverb = m.Reverb()
        reverb.wet = 77
        mod.effect = Synth(reverb)
    return mod


def fixture_bytes(name="sampler.sunsynth"):
    return (FILES / name).read_bytes()


def finish():
    if "--record" in sys.argv:
        print("GOLDEN = {")
        for k in sorted(OBSERVED):
            print("    %r: %r," % (k, OBSERVED[k]))
        print("}")
        return
    if FAILURES:
        print("FAILED (%d)" % len(FAILURES))
        sys.exit(1)
    print("PASS (%d golden digests)" % len(OBSERVED))

GOLDEN = {
    'chff.matrix': '20f997b9f74291e29143',
    'detection.matrix': 'e32427e265930bc06f01',
    'dispatch.slots': '20fb75a1566842a5b6e6',
    'dispatch.touched': 'ce1609de563513e1b69b',
    'files.built.long.rewrite': '27f5384e682130648b78',
    'files.built.long.state': 'e1b8c5789720ba45ecd4',
    'files.built.plain.edited': '2f9e9fac1539034a19ed',
    'files.built.plain.rewrite': 'd7533d159542f81f0a9c',
    'files.built.plain.state': '8d2379a4e5d3aaa72878',
    'files.built.short.edited': '2f9e9fac1539034a19ed',
    'files.built.short.rewrite': 'd7533d159542f81f0a9c',
    'files.built.short.state': '8d2379a4e5d3aaa72878',
    'files.built.short2.edited': '2f9e9fac1539034a19ed',
    'files.built.short2.rewrite': 'd7533d159542f81f0a9c',
    'files.built.short2.state': '8d2379a4e5d3aaa72878',
    'files.built.sign.rewrite': '3d3cffaf47578c3d464a',
    'files.built.sign.state': '02a9220d4cb8c993c40b',
    'files.fixture.long.rewrite': '4871bffb9b8daefa7bd4',
    'files.fixture.long.state': 'b9b836d98dcf58ab1ea7',
    'files.fixture.plain.edited': 'ea60ca2831a020711698',
    'files.fixture.plain.rewrite': '3b0f2915c2ec0456c093',
    'files.fixture.plain.state': 'f30ea1a7c918b344f8fe',
    'files.fixture.short.edited': '287ccf83aee5ecfbbf08',
    'files.fixture.short.rewrite': '129245352a380a8273ca',
    'files.fixture.short.state': 'e0be7a99b3702cfa20c8',
    'files.fixture.short2.edited': '287ccf83aee5ecfbbf08',
    'files.fixture.short2.rewrite': '129245352a380a8273ca',
    'files.fixture.short2.state': 'e0be7a99b3702cfa20c8',
    'files.fixture.sign.rewrite': '938b4627cca2732de796',
    'files.fixture.sign.state': '0e1a49d920ba0e275110',
    'meta.lengths': '22424acc9908d284d76d',
    'project.a': 'fbec861cb7a191508cf2',
    'project.a.state': '0902d8c38f7a9c22e3c8',
    'project.b': '91f099efb7af08ce8741',
    'project.b.state': 'becca869929d198d0d1f',
    'type_flags.matrix': '8a8a7bdc774722c65c87',
    'undecided.write': '140a170f67c140dc79a2',
}



# =========================================================== C06-2 scenarios
# Read side of the Sampler: load_chunk dispatch and raw-chunk capture,
# legacy detection at the end of load_instrument, load_sample_meta (type
# byte decoding) and load_sample_data (CHFF decoding).

from rv.modules import Chunk  # noqa: E402


def mk_chunk(chnm, chdt=b"", chff=0, chfr=44100):
    c = Chunk()
    c.chnm, c.chdt, c.chff, c.chfr = chnm, chdt, chff, chfr
    return c


def section_chunks(data, which=0):
    """Chunk objects (as the reader would build them) of one module."""
    out = []
    for name, payload in module_chunk_sections(data)[which]:
        if name == b"CHNM":
            out.append(mk_chunk(struct.unpack("<I", payload)[0], None))
        elif name == b"CHDT":
            out[-1].chdt = payload
        elif name == b"CHFF":
            (out[-1].chff,) = struct.unpack("<I", payload)
        elif name == b"CHFR":
            (out[-1].chfr,) = struct.unpack("<I", payload)
    return out


def outcome(fn):
    try:
        return ("ok", fn())
    except Exception as e:  # noqa
        return ("raised", type(e).__name__, str(e))


BUILT = None


def built_bytes():
    global BUILT
    if BUILT is None:
        BUILT = save(Synth(build_sampler(slots=(0, 1, 2, 127))))
    return BUILT


def config_record(data):
    return [c for c in section_chunks(data) if c.chnm == 0][0].chdt


def scenario_dispatch():
    chunks = section_chunks(built_bytes())
    by_chnm = {c.chnm: c for c in chunks}
    check(sorted(by_chnm) == [0, 1, 2, 3, 4, 5, 6, 255, 256] + list(range(0x101, 0x109)) + [0x10A], "chunks present")

    # each chunk number only touches its own part of the object
    pristine = sampler_state(Sampler())
    touched = {}
    for chnm in sorted(by_chnm):
        mod = Sampler()
        if chnm and chnm < 0x101 and chnm % 2 == 0:
            mod.load_chunk(by_chnm[chnm - 1])
        mod.load_chunk(by_chnm[chnm])
        keys = changed_keys(pristine, sampler_state(mod))
        touched[chnm] = keys
    golden("dispatch.touched", sorted(touched.items()))
    check(touched[0x102] == ["env.volume", "legacy_chunks"], "0x102 -> volume envelope")
    check(touched[0x103] == ["env.panning", "legacy_chunks"], "0x103 -> panning envelope")
    check(touched[0x104] == ["env.pitch", "legacy_chunks"], "0x104 -> pitch envelope")
    for i in range(4):
        check(touched[0x105 + i] == ["env.effect%d" % i, "legacy_chunks"], "0x105+%d" % i)
    check(touched[0x10A] == ["effect", "legacy_chunks"], "0x10a -> effect")
    check("sample127" in touched[256] and "sample_slots" in touched[256], "0x100 -> slot 127")
    check("sample0" in touched[1] and "sample0" in touched[2], "1/2 -> slot 0")
    check("opt.record_in_mono" in touched[0x101], "0x101 -> options")

    # unknown chunk numbers are ignored (but captured while undecided)
    for chnm in (0x109, 0x10B, 0x200, 0xFFFFFFFF):
        mod = Sampler()
        mod.load_chunk(mk_chunk(chnm, b"\1\2\3"))
        check(changed_keys(pristine, sampler_state(mod)) == ["legacy_chunks"], "ignored %x" % chnm)
        check(not hasattr(mod, "_unknown_0x101"), "no stray attribute")

    # waveform chunk without a preceding parameter chunk
    mod = Sampler()
    raises(AttributeError, lambda: mod.load_chunk(by_chnm[2]), "data before meta")
    # chunk without a number
    raises(TypeError, lambda: Sampler().load_chunk(mk_chunk(None, b"")), "chnm None")
    # odd/even slot arithmetic over the whole range
    slots = {}
    for chnm in range(1, 0x101):
        mod = Sampler()
        if chnm % 2 == 0:
            mod.load_chunk(mk_chunk(chnm - 1, by_chnm[1].chdt))
        mod.load_chunk(mk_chunk(chnm, by_chnm[1].chdt if chnm % 2 else b"abcd", chff=2))
        used = [i for i, s in enumerate(mod.samples) if s is not None]
        slots[chnm] = used
        check(used == [(chnm - 1) // 2], "slot for chnm %d" % chnm)
        if chnm % 2 == 0:
            check(mod.samples[used[0]].data == b"abcd", "data in slot")
    golden("dispatch.slots", sorted(slots.items()))


def scenario_capture_and_detection():
    record = config_record(built_bytes())
    check(len(record) == 0x190, "written record length")
    env_chunk = [c for c in section_chunks(built_bytes()) if c.chnm == 0x102][0]
    results = {}
    for sign_ok in (True, False):
        for length in (0xFC, 0x100, 0x104, 0x184, 0x188, 0x18C, 0x18F, 0x190, 0x191, 0x1000):
            rec = record if sign_ok else break_signature(record)
            rec = rec[:length].ljust(length, b"\0")
            for before in (0, 2):
                mod = Sampler()

                def run():
                    for _ in range(before):
                        mod.load_chunk(mk_chunk(0x102, env_chunk.chdt))
                    mod.load_chunk(mk_chunk(0, rec))
                    mid = (mod.is_legacy, None if mod.legacy_chunks is None else len(mod.legacy_chunks))
                    mod.load_chunk(mk_chunk(0x103, env_chunk.chdt))
                    mod.load_chunk(mk_chunk(0x109, b""))
                    end = (mod.is_legacy, None if mod.legacy_chunks is None else len(mod.legacy_chunks))
                    return mid, end, mod.max_version, mod.editor_cursor, mod.editor_selected_size, mod.version

                res = outcome(run)
                results[(sign_ok, length, before)] = res
                if length >= 0x104:
                    legacy = (not sign_ok) or length > 0x190
                    check(res[0] == "ok", "detect ok %r" % ((sign_ok, length, before),))
                    if legacy:
                        check(res[1][0] == (True, before + 1), "legacy mid %r" % ((sign_ok, length),))
                        check(res[1][1] == (True, before + 3), "legacy end %r" % ((sign_ok, length),))
                    else:
                        check(res[1][0] == (False, None), "live mid %r" % ((sign_ok, length),))
                        check(res[1][1] == (False, None), "live end %r" % ((sign_ok, length),))
                else:
                    check(res[:2] == ("raised", "RuntimeError"), "short record %r" % ((sign_ok, length),))
                    # the signature test runs before the failing read
                    # (a record cut before the signature reads as a bad signature)
                    expect = None if (sign_ok and length >= 0x100) else True
                    check(mod.is_legacy is expect, "state after failed read %r %r" % ((sign_ok, length), mod.is_legacy))
                    check(mod.legacy_chunks is not None and len(mod.legacy_chunks) == before + 1, "captured before failure")
    golden("detection.matrix", sorted(results.items()))

    # the captured chunks are the very objects handed to load_chunk, in order
    mod = Sampler()
    handed = [mk_chunk(0x104, env_chunk.chdt), mk_chunk(0, break_signature(record)), mk_chunk(0x777, b"x")]
    for c in handed:
        mod.load_chunk(c)
    check(all(a is b for a, b in zip(mod.legacy_chunks, handed)) and len(mod.legacy_chunks) == 3, "captured identity")

    # instrument record seen twice
    mod = Sampler()
    mod.load_chunk(mk_chunk(0, break_signature(record)))
    mod.load_chunk(mk_chunk(0, record))
    check(mod.is_legacy is True and len(mod.legacy_chunks) == 2, "legacy stays legacy")
    mod = Sampler()
    mod.load_chunk(mk_chunk(0, record))
    mod.load_chunk(mk_chunk(0, record))
    check(mod.is_legacy is False and mod.legacy_chunks is None, "live stays live")
    mod.load_chunk(mk_chunk(0, break_signature(record)))
    check(mod.is_legacy is True and mod.legacy_chunks is None, "late legacy header")
    raises(AttributeError, lambda: mod.load_chunk(mk_chunk(0x102, env_chunk.chdt)), "late legacy then chunk")
    mod = Sampler()
    mod.load_chunk(mk_chunk(0, record))
    mod.load_chunk(mk_chunk(0, overlong(record)))
    check(mod.is_legacy is True and mod.legacy_chunks is None, "late overlong header")

    # a fresh sampler never decided
    mod = Sampler()
    check(mod.is_legacy is None and mod.legacy_chunks == [], "initial state")
    mod.load_chunk(mk_chunk(0x102, env_chunk.chdt))
    check(mod.is_legacy is None and len(mod.legacy_chunks) == 1, "undecided captures")
    # ... and is written from live state (None is falsy)
    out = save(Synth(mod))
    check(load(out).module.volume_envelope.points == mod.volume_envelope.points, "undecided writes live")
    golden("undecided.write", out)


def scenario_type_flags():
    meta = [c for c in section_chunks(built_bytes()) if c.chnm == 1][0].chdt
    check(len(meta) == 44, "meta length")
    results = {}
    for flags in range(256):
        rec = meta[:0x0E] + bytes([flags]) + meta[0x0F:]
        mod = Sampler()

        def run():
            mod.load_chunk(mk_chunk(7, rec))
            s = mod.samples[3]
            return (s.loop_type, s.format, s.channels, s.loop_sustain, type(s.loop_sustain).__name__)

        res = outcome(run)
        results[flags] = res
        if flags & 3 == 3:
            check(res[:2] == ("raised", "ValueError"), "loop type 3 -> ValueError (%d)" % flags)
        elif flags & 0x30 == 0x30:
            check(res[:2] == ("raised", "KeyError"), "format 0x30 -> KeyError (%d)" % flags)
            # loop type was decoded before the failing lookup, slot already filled
            check(mod.samples[3].loop_type == Sampler.LoopType(flags & 3), "partial decode")
        else:
            check(res[0] == "ok", "flags %d ok" % flags)
            check(
                res[1]
                == (
                    Sampler.LoopType(flags & 3),
                    {0: Sampler.Format.int8, 0x10: Sampler.Format.int16, 0x20: Sampler.Format.float32}[flags & 0x30],
                    Sampler.Channels.stereo if flags & 0x40 else Sampler.Channels.mono,
                    bool(flags & 4),
                    "bool",
                ),
                "flags %d decoded" % flags,
            )
        if res[0] == "raised":
            check(mod.samples[3] is not None, "slot filled before failure")
    golden("type_flags.matrix", sorted(results.items()))

    # record lengths: start_pos is optional, everything else is required
    lens = {}
    for n in (0, 4, 13, 14, 15, 18, 39, 40, 43, 44, 60):
        mod = Sampler()
        lens[n] = outcome(lambda: (mod.load_chunk(mk_chunk(1, meta[:n].ljust(n, b"\7"))), sample_state(mod.samples[0]))[1])
    golden("meta.lengths", sorted(lens.items()))
    check(lens[40][0] == "ok" and lens[40][1][-1] == 0, "start_pos default")
    check(lens[39][:2] == ("raised", "RuntimeError") or lens[39][0] == "ok", "short name is fine or error")
    check(lens[15][:2] == ("raised", "RuntimeError"), "missing panning")
    # a second parameter chunk replaces the Sample object
    mod = Sampler()
    mod.load_chunk(mk_chunk(1, meta))
    first = mod.samples[0]
    mod.load_chunk(mk_chunk(2, b"wave", chff=2 | 8, chfr=8000))
    mod.load_chunk(mk_chunk(1, meta))
    check(mod.samples[0] is not first and mod.samples[0].data == b"", "meta replaces sample")


def scenario_chff():
    meta = [c for c in section_chunks(built_bytes()) if c.chnm == 1][0].chdt
    results = {}
    for chff in list(range(0, 32)) + [0x100, 0x107, 0x10F, 0xFFFFFFFF, None]:
        mod = Sampler()
        mod.load_chunk(mk_chunk(5, meta))

        def run():
            mod.load_chunk(mk_chunk(6, b"12345678", chff=chff, chfr=12345))
            s = mod.samples[2]
            return (s.format, s.channels, s.rate, s.data)

        res = outcome(run)
        results[repr(chff)] = res
        if chff is None:
            check(res[:2] == ("raised", "TypeError"), "chff None")
            continue
        bits = chff & 7
        if bits in (0, 1, 2, 4):
            fmt = {0: Sampler.Format.int8, 1: Sampler.Format.int8, 2: Sampler.Format.int16, 4: Sampler.Format.float32}[bits]
            ch = Sampler.Channels.stereo if chff & 8 else Sampler.Channels.mono
            check(res == ("ok", (fmt, ch, 12345, b"12345678")), "chff %r" % chff)
        else:
            check(res[:2] == ("raised", "ValueError"), "chff %r invalid" % chff)
            check(mod.samples[2].data == b"12345678", "data stored before format failure")
    golden("chff.matrix", sorted(results.items()))


def scenario_files():
    for name, data in (("fixture", fixture_bytes()), ("built", built_bytes())):
        variants = {
            "plain": lambda r: r,
            "sign": break_signature,
            "long": overlong,
            "short": truncated,
            "short2": truncated_mid,
        }
        for vname, fn in variants.items():
            vdata = rewrite_config_record(data, fn)
            synth = load(vdata)
            mod = synth.module
            legacy = vname in ("sign", "long")
            check(mod.is_legacy is legacy, "%s.%s is_legacy" % (name, vname))
            check((mod.legacy_chunks is not None) is legacy, "%s.%s legacy_chunks" % (name, vname))
            if legacy:
                want = [(c.chnm, c.chdt, c.chff, c.chfr) for c in section_chunks(vdata)]
                got = [(c.chnm, c.chdt, c.chff, c.chfr) for c in mod.legacy_chunks]
                check(got == want, "%s.%s captured chunks equal file chunks" % (name, vname))
            golden("files.%s.%s.state" % (name, vname), sorted(sampler_state(mod).items()))
            out = save(synth)
            golden("files.%s.%s.rewrite" % (name, vname), out)
            if not legacy:
                # C06 on the live path: edits of loaded objects are what gets saved
                before = sampler_state(mod)
                mod.samples[1].loop_type = mod.LoopType.forward if mod.samples[1].loop_type != mod.LoopType.forward else mod.LoopType.off
                mod.samples[0].format = mod.Format.int16 if mod.samples[0].format != mod.Format.int16 else mod.Format.int8
                mod.pitch_envelope.points = [(0, -0x1000), (7, 0x1000)]
                mod.effect_control_envelopes[1].enable = not mod.effect_control_envelopes[1].enable
                mod.max_version = 9
                mod.editor_selected_size = 11
                edited = sampler_state(mod)
                after = sampler_state(load(save(synth)).module)
                check(changed_keys(edited, after) == [], "%s.%s edits saved" % (name, vname))
                check(
                    changed_keys(before, after)
                    == sorted(["sample1", "sample0", "env.pitch", "env.effect1", "max_version", "editor_selected_size"]),
                    "%s.%s only edits changed: %r" % (name, vname, changed_keys(before, after)),
                )
                golden("files.%s.%s.edited" % (name, vname), save(synth))
    # short records fall back to defaults
    mod = load(rewrite_config_record(built_bytes(), truncated)).module
    check((mod.max_version, mod.editor_cursor, mod.editor_selected_size) == (6, 0, 0), "defaults")
    src = build_sampler()
    src.max_version, src.editor_cursor, src.editor_selected_size = 4, -9, 77
    data = save(Synth(src))
    mod = load(data).module
    check((mod.max_version, mod.editor_cursor, mod.editor_selected_size) == (4, -9, 77), "explicit values")
    mod = load(rewrite_config_record(data, truncated_mid)).module
    check((mod.max_version, mod.editor_cursor, mod.editor_selected_size) == (4, 0, 0), "partial defaults")


def scenario_project():
    project = Project()
    a = project.attach_module(build_sampler(with_effect=True, slots=(0, 64)))
    b = project.attach_module(build_sampler(with_effect=False, slots=(5,)))
    meta = project.new_module(m.MetaModule)
    meta.project.attach_module(build_sampler(with_effect=False, slots=(127,)))
    a >> project.output
    b >> project.output
    out = save(project)
    for which, label in ((0, "a"), (1, "b")):
        loaded = load(rewrite_config_record(out, overlong, which=which))
        flags = [mod.is_legacy for mod in loaded.modules[1:3]]
        check(flags == [which == 0, which == 1], "project legacy flags %s" % label)
        golden("project.%s" % label, save(loaded))
        golden("project.%s.state" % label, [sorted(sampler_state(mod).items()) for mod in loaded.modules[1:3]])
    inner = load(out).modules[3].project.modules[1]
    check(inner.is_legacy is False and inner.samples[127] is not None, "inner sampler")


def main():
    scenario_dispatch()
    scenario_capture_and_detection()
    scenario_type_flags()
    scenario_chff()
    scenario_files()
    scenario_project()


try:
    main()
except Exception:
    traceback.print_exc()
    print("FAILED (exception)")
    sys.exit(1)
finish()
