"""Shared behaviour harness (embedded verbatim in every check.py)."""
import hashlib
import io
import logging
import sys
import warnings
from enum import Enum

logging.disable(logging.CRITICAL)
warnings.simplefilter("ignore")

from rv.chunks.array import ArrayChunk  # noqa: E402
from rv.cmidmap import MidiMessageType, Slope  # noqa: E402
from rv.controller import DependentRange, Range  # noqa: E402
from rv.errors import EmptySynthError  # noqa: E402
from rv.modules import MODULE_CLASSES  # noqa: E402
from rv.project import Project  # noqa: E402
from rv.readers.reader import read_sunvox_file  # noqa: E402
from rv.synth import Synth  # noqa: E402

FAILURES = []


def expect(cond, msg):
    if not cond:
        FAILURES.append(msg)


def module_types():
    return sorted(k for k in MODULE_CLASSES if k != "Output")


def set_controllers(mod, which):
    """Drive every controller to one end of its range (which: 'min'/'max'/'mid')."""
    items = list(mod.controllers.items())
    ordered = [i for i in items if not isinstance(i[1].value_type, DependentRange)]
    ordered += [i for i in items if isinstance(i[1].value_type, DependentRange)]
    for name, ctl in ordered:
        t = ctl.instance_value_type(mod)
        if isinstance(t, Range):
            lo, hi = t.min, t.max
            value = {"min": lo, "max": hi, "mid": (lo + hi) // 2}[which]
        elif isinstance(t, type) and issubclass(t, Enum):
            members = list(t)
            value = {"min": members[0], "max": members[-1]}.get(
                which, members[len(members) // 2]
            )
        elif t is bool:
            value = which != "min"
        else:
            continue
        try:
            setattr(mod, name, value)
        except Exception:  # noqa: BLE001 - leave the default in place
            pass


def set_options(mod, which):
    for name, opt in mod.options.items():
        if opt.size == 1:
            value = which != "min"
        elif None not in {opt.min, opt.max}:
            value = opt.min if which == "min" else opt.max
        else:
            value = 0 if which == "min" else (1 << opt.size) - 1
        try:
            setattr(mod, name, value)
        except Exception:  # noqa: BLE001
            pass


def array_chunks(mod):
    return sorted(
        (k, v) for k, v in vars(mod).items() if isinstance(v, ArrayChunk)
    )


ELEMENT_LIMITS = {"B": 255, "H": 65535, "I": 0xFFFFFFFF}


def fill_arrays(mod, which):
    for _, chunk in array_chunks(mod):
        first = chunk.values[0] if chunk.values else None
        if isinstance(first, Enum):
            members = list(type(first))
            chunk.values = [
                members[0]
                if which == "min"
                else members[-1]
                if which == "max"
                else members[i % len(members)]
                for i in range(chunk.length)
            ]
        elif isinstance(first, float):
            chunk.values = [
                (((i * 37) % 200) - 100) / 128.0 if which != "min" else -1.0
                for i in range(chunk.length)
            ]
        elif isinstance(first, int) and not isinstance(first, bool):
            top = ELEMENT_LIMITS.get(chunk.type, 255)
            if chunk.max_value:
                top = min(top, chunk.max_value)
            low = chunk.min_value or 0
            if which == "min":
                chunk.values = [low] * chunk.length
            elif which == "max":
                chunk.values = [top] * chunk.length
            else:
                chunk.values = [
                    low + (i * 7919) % (top - low + 1) for i in range(chunk.length)
                ]
        elif first is not None:
            # Mapping-like objects: vary their integer attributes in place.
            for i, item in enumerate(chunk.values):
                for j, attr in enumerate(sorted(vars(item))):
                    limit = 0xFFFF if chunk.type.startswith("H") else 0xFFFFFFFF
                    if which == "min":
                        v = 0
                    elif which == "max":
                        v = limit
                    else:
                        v = (i * 131 + j * 17 + 1) % (limit + 1)
                    setattr(item, attr, v)


def set_midi_maps(mod, which):
    if which == "min":
        return
    types = list(MidiMessageType)
    slopes = list(Slope)
    for i, name in enumerate(mod.controllers):
        m = mod.controller_midi_maps[name]
        m.channel = (i * 5 + 1) % 17 if which == "mid" else 16
        m.message_type = types[(i + 1) % len(types)] if which == "mid" else types[-1]
        m.slope = slopes[i % len(slopes)] if which == "mid" else slopes[-1]
        m.message_parameter = (i * 1021) % 65536 if which == "mid" else 65535


def build(mtype, which):
    cls = MODULE_CLASSES[mtype]
    mod = cls()
    if which != "default":
        pick = lambda lo, hi, mid: {"min": lo, "max": hi, "mid": mid}[which]  # noqa: E731
        mod.name = pick("", "x" * 40, "n\u00e9me")
        mod.mod_finetune = pick(-256, 256, 17)
        mod.mod_relative_note = pick(-64, 64, -3)
        mod.mod_scale = pick(1, 1024, 300)
        mod.color = pick((0, 0, 0), (255, 255, 255), (1, 128, 254))
        mod.midi_in_always = which != "min"
        mod.midi_in_channel = pick(0, 16, 7)
        mod.midi_out_name = pick(None, "dev" * 10, "out")
        mod.midi_out_channel = pick(0, 16, 3)
        mod.midi_out_bank = pick(-1, 16383, 5)
        mod.midi_out_program = pick(-1, 127, 9)
        mod.x = pick(-4096, 4096, 100)
        mod.y = pick(-4096, 4096, 200)
        mod.layer = pick(0, 7, 2)
        mod.visualization = pick(0, 0x0FFF1F3F, 0x000C0101)
    if which != "default":
        set_controllers(mod, which)
        set_options(mod, which)
        fill_arrays(mod, which)
        set_midi_maps(mod, which)
    return mod


def norm(v):
    if isinstance(v, Enum):
        return (type(v).__name__, v.name)
    if isinstance(v, float):
        return round(v, 6)
    if isinstance(v, (list, tuple)):
        return [norm(x) for x in v]
    if isinstance(v, (int, str, bytes, bool, type(None))):
        return v
    if hasattr(v, "__dict__"):
        return {k: norm(x) for k, x in sorted(vars(v).items())}
    return repr(v)


def snapshot(mod, positional=False):
    """Everything the property says must survive, as plain data."""
    snap = {
        "type": type(mod).__name__,
        "mtype": mod.mtype,
        "name": mod.name,
        "flags": mod.flags,
        "controllers": {k: norm(v) for k, v in mod.controller_values.items()},
        "options": dict(mod.option_values),
        "cmid": {
            # MIDI maps of unattached controllers are not part of the file
            k: mod.controller_midi_maps[k].cmid_data
            for k, c in mod.controllers.items()
            if c.attached(mod)
        },
        "finetune": mod.mod_finetune,
        "relnote": mod.mod_relative_note,
        "scale": mod.mod_scale,
        "color": tuple(mod.color),
        "midi": (
            mod.midi_in_always,
            mod.midi_in_channel,
            mod.midi_out_name or None,
            mod.midi_out_channel,
            mod.midi_out_bank,
            mod.midi_out_program,
        ),
        "arrays": {k: norm(c.values) for k, c in array_chunks(mod)},
    }
    if positional:
        snap["pos"] = (mod.x, mod.y, mod.layer, int(mod.visualization))
    return snap


def synth_bytes(mod):
    f = io.BytesIO()
    Synth(mod).write_to(f)
    return f.getvalue()


def iff_split(data):
    """Split a byte string into (tag, payload) pairs."""
    out = []
    pos = 0
    while pos < len(data):
        tag = data[pos : pos + 4]
        size = int.from_bytes(data[pos + 4 : pos + 8], "little")
        out.append((tag, data[pos + 8 : pos + 8 + size]))
        pos += 8 + size
    return out


VARIANTS = ("default", "min", "mid", "max")


def run_synth_round_trips(digest):
    for mtype in module_types():
        for which in VARIANTS:
            label = f"{mtype}/{which}"
            try:
                mod = build(mtype, which)
                data = synth_bytes(mod)
            except Exception as e:  # noqa: BLE001
                digest.update(f"{label}:ERR:{type(e).__name__}".encode())
                expect(False, f"{label}: cannot build/serialize: {e!r}")
                continue
            digest.update(label.encode())
            digest.update(data)
            chunks = iff_split(data)
            tags = [t for t, _ in chunks]
            expect(tags[0] == b"SSYN" and tags[1] == b"VERS", f"{label}: header")
            expect(tags[-1] == b"SEND", f"{label}: SEND last")
            attached = [
                n for n, c in mod.controllers.items() if c.attached(mod)
            ]
            expect(tags.count(b"CVAL") == len(attached), f"{label}: CVAL count")
            cvals = [p for t, p in chunks if t == b"CVAL"]
            for n, p in zip(attached, cvals):
                raw = int.from_bytes(p, "little", signed=True)
                expect(raw == mod.get_raw(n), f"{label}: CVAL {n}")
            cmids = [p for t, p in chunks if t == b"CMID"]
            if attached:
                expect(len(cmids) == 1, f"{label}: one CMID")
                expect(len(cmids[0]) == 8 * len(attached), f"{label}: CMID size")
            else:
                expect(not cmids, f"{label}: no CMID when no controllers")
            for banned in (b"SXXX", b"SYYY", b"SZZZ", b"SVPR"):
                expect(banned not in tags, f"{label}: {banned} in stand-alone synth")
            expect((b"CHNK" in tags) == bool(mod.chnk), f"{label}: CHNK presence")
            before = snapshot(mod)
            loaded = read_sunvox_file(io.BytesIO(data)).module
            after = snapshot(loaded)
            # names are truncated to 32 bytes on write
            before["name"] = (
                before["name"].encode("utf8")[:32].decode("utf8", "ignore")
            )
            if before != after:
                diff = [k for k in before if before[k] != after[k]]
                expect(False, f"{label}: load differs in {diff}")
            data2 = synth_bytes(loaded)
            expect(data2 == data, f"{label}: second write differs")
            cloned = mod.clone()
            expect(type(cloned) is type(mod), f"{label}: clone type")
            expect(snapshot(cloned) == after, f"{label}: clone differs from load")
            digest.update(repr(sorted(after.items(), key=str)).encode())


def run_project_round_trips(digest):
    for which in VARIANTS:
        project = Project()
        mods = []
        for mtype in module_types():
            mods.append(project.attach_module(build(mtype, which)))
        for i, m in enumerate(mods):
            project.connect(m, project.output if i % 3 == 0 else mods[i - 1])
            if i % 5 == 0 and i + 2 < len(mods):
                project.connect(mods[i + 2], m)
        f = io.BytesIO()
        project.write_to(f)
        data = f.getvalue()
        digest.update(f"project/{which}".encode())
        digest.update(data)
        loaded = read_sunvox_file(io.BytesIO(data))
        expect(len(loaded.modules) == len(project.modules), f"project/{which}: count")
        for a, b in zip(project.modules, loaded.modules):
            label = f"project/{which}/{a.mtype}"
            if a.mtype == "Output":
                expect(b.in_links == a.in_links, f"{label}: links")
                continue
            sa, sb = snapshot(a, positional=True), snapshot(b, positional=True)
            sa["name"] = sa["name"].encode("utf8")[:32].decode("utf8", "ignore")
            if sa != sb:
                diff = [k for k in sa if sa[k] != sb[k]]
                expect(False, f"{label}: differs in {diff}")
            expect(a.in_links == b.in_links, f"{label}: in_links")
            expect(a.in_link_slots == b.in_link_slots, f"{label}: in_link_slots")
            expect(a.out_links == b.out_links, f"{label}: out_links")
        f2 = io.BytesIO()
        loaded.write_to(f2)
        expect(f2.getvalue() == data, f"project/{which}: second write differs")


def run_empty_synth():
    s = Synth()
    gen = s.chunks()  # lazily evaluated: creating the generator must not raise
    try:
        next(gen)
        expect(False, "empty synth: no error")
    except EmptySynthError as e:
        expect("no module" in str(e), "empty synth: message")
    f = io.BytesIO()
    try:
        s.write_to(f)
        expect(False, "empty synth write_to: no error")
    except EmptySynthError:
        pass
    expect(f.getvalue() == b"", "empty synth wrote bytes before refusing")
    try:
        s.read()
        expect(False, "empty synth read(): no error")
    except EmptySynthError:
        pass


def finish(digest, golden):
    got = digest.hexdigest()
    if golden is not None:
        expect(got == golden, f"byte digest changed: {got} != {golden}")
    if FAILURES:
        for m in FAILURES[:40]:
            print("FAIL:", m)
        print(f"{len(FAILURES)} failure(s)")
        sys.exit(1)
    print("PASS", got)


# --- checks specific to ArrayChunk / waveform bytes / options / CMID / get_raw -

import struct  # noqa: E402

from rv.chunks.drawnwaveform import DrawnWaveformChunk  # noqa: E402
from rv.chunks.waveform import WaveformChunk  # noqa: E402
from rv.controller import NoOffsetRange  # noqa: E402
from rv.modules.module import Chunk as RawChunk  # noqa: E402


def outcome(fn):
    """Result of fn() as plain data, or the exception type it raised."""
    try:
        return ("ok", norm(fn()))
    except Exception as e:  # noqa: BLE001
        return ("raised", type(e).__name__)


def array_chunk_classes():
    seen = []
    for mtype in module_types():
        mod = MODULE_CLASSES[mtype]()
        for attr, chunk in array_chunks(mod):
            if type(chunk) not in seen:
                seen.append(type(chunk))
    return seen


class _Signed(ArrayChunk):
    length = 6
    type = "h"
    element_size = 2
    min_value = -5
    max_value = 7


class _FalsyBounds(ArrayChunk):
    length = 5
    type = "b"
    element_size = 1
    min_value = 0  # falsy: means "no lower bound"
    max_value = 0  # falsy: means "no upper bound"


class _ListDefault(ArrayChunk):
    length = 3
    type = "B"
    element_size = 1
    default = [9, 8, 7]


class _ScalarDefault(ArrayChunk):
    length = 4
    type = "I"
    element_size = 4
    default = 77


class _FnDefault(ArrayChunk):
    length = 8
    type = "H"
    element_size = 2
    min_value = 3
    max_value = 40

    @staticmethod
    def default(x):
        return x * x - 4


class _Pair(ArrayChunk):
    length = 2
    type = "Bh"
    element_size = 3
    python_type = list


def run_array_checks(digest):
    classes = array_chunk_classes()
    expect(len(classes) >= 10, f"found only {len(classes)} array chunk classes")
    for cls in classes:
        label = cls.__qualname__
        fresh = cls()
        expect(len(fresh.values) == cls.length, f"{label}: default length")
        raw = fresh.bytes
        expect(len(raw) == cls.length * cls.element_size, f"{label}: byte length")
        expect(fresh.chdt() == raw, f"{label}: chdt is bytes")
        again = cls()
        again.bytes = raw
        expect(norm(again.values) == norm(fresh.values), f"{label}: bytes round trip")
        expect(again.bytes == raw, f"{label}: re-encode")
        digest.update(label.encode() + raw)
        size = cls.element_size
        pattern = bytes((i * 37 + 11) % 251 for i in range(cls.length * size + size + 1))
        for cut in (0, 1, size - 1, size, size + 1, cls.length * size - 1,
                    cls.length * size, cls.length * size + 1, len(pattern)):
            if cut < 0:
                continue
            target = cls()
            res = outcome(lambda: setattr(target, "bytes", pattern[:cut]))
            digest.update(repr((label, cut, res, norm(target.values))).encode())
            digest.update(repr(outcome(lambda: target.bytes)).encode())
            if res[0] == "ok" and "MappingArray" not in label:
                expect(len(target.values) == cut // size, f"{label}: cut {cut} count")
        fresh.values[0] = again.values[0]
        fresh.reset()
        expect(norm(fresh.values) == norm(cls().values), f"{label}: reset")

    s = _Signed()
    expect(s.values == [0] * 6, "signed default zeros")
    s.set_via_fn(lambda x: (x - 3) * 4)
    expect(s.values == [-5, -5, -4, 0, 4, 7], f"signed clamp {s.values}")
    s.set_via_fn(lambda x: [-5, 7, -6, 8, -5.0, 7.5][x])
    expect(repr(s.values) == "[-5, 7, -5, 7, -5.0, 7]", f"bound identity {s.values!r}")
    s.values = [-5, 7, -32768, 32767, 0, 1]
    expect(s.bytes == struct.pack("<6h", *s.values), "signed bytes")
    t = _Signed()
    t.bytes = s.bytes + b"\x01"
    expect(t.values == s.values, "trailing partial element ignored")
    t.bytes = s.bytes[:5]
    expect(t.values == [-5, 7], "short input keeps whole elements only")
    expect(outcome(lambda: t.bytes) == ("raised", "error"), "wrong count cannot pack")
    t.bytes = b""
    expect(t.values == [], "empty input")
    old = t.values
    t.bytes = s.bytes
    expect(t.values is not old, "a fresh list is installed on every load")

    z = _FalsyBounds()
    z.set_via_fn(lambda x: x - 2)
    expect(z.values == [-2, -1, 0, 1, 2], "falsy bounds do not clamp")

    d = _ListDefault()
    expect(d.values == [9, 8, 7] and d.values is not _ListDefault.default, "list copy")
    d.values[0] = 1
    d.reset()
    expect(d.values == [9, 8, 7] and _ListDefault.default == [9, 8, 7], "list reset")
    expect(type(d.values) is list, "plain list")
    expect(_ScalarDefault().values == [77] * 4, "scalar default")
    expect(_ScalarDefault().bytes == struct.pack("<4I", 77, 77, 77, 77), "scalar bytes")
    f = _FnDefault()
    expect(f.values == [3, 3, 3, 5, 12, 21, 32, 40], f"fn default {f.values}")

    def boom(x):
        if x == 3:
            raise KeyError(x)
        return x

    keep = f.values
    expect(outcome(lambda: f.set_via_fn(boom)) == ("raised", "KeyError"), "fn error")
    expect(f.values is keep, "values untouched when fn fails")

    p = _Pair()
    p.bytes = struct.pack("<BhBh", 1, -2, 255, 32767) + b"\x00\x00"
    expect(p.values == [[1, -2], [255, 32767]], f"multi-field elements {p.values}")

    class _NoSize(ArrayChunk):
        length = 2
        type = "B"

    n = _NoSize()
    keep = n.values
    expect(outcome(lambda: setattr(n, "bytes", b"ab")) == ("raised", "TypeError"),
           "missing element_size")
    expect(n.values == [] and n.values is not keep, "values reset before decoding")

    class _ZeroSize(ArrayChunk):
        length = 2
        type = "B"
        element_size = 0

    expect(outcome(lambda: setattr(_ZeroSize(), "bytes", b"ab"))
           == ("raised", "ZeroDivisionError"), "zero element_size")

    class _NoLength(ArrayChunk):
        type = "B"
        element_size = 1

    expect(outcome(_NoLength) == ("raised", "TypeError"), "missing length")


def run_waveform_checks():
    w = DrawnWaveformChunk()
    expect(w.is_default and list(w.chunks()) == [], "default waveform not written")
    w.samples = [0, 1, -1, 127, -128, -100, 255, 256, -129, 1000] + [0] * 22
    want = bytes([0, 1, 255, 127, 128, 156, 255, 0, 127, 232] + [0] * 22)
    expect(w.bytes == want and isinstance(w.bytes, bytes), "two's complement bytes")
    expect(w.chdt() == want, "chdt")
    w.chnm = 0
    tags = [t for t, _ in w.chunks()]
    expect(tags == [b"CHNM", b"CHDT", b"CHFR"], f"waveform chunk tags {tags}")
    w.samples = []
    expect(w.bytes == b"", "empty samples")
    w.format = None
    w.samples = [-1]
    expect(w.bytes == b"\xff", "format None treated as 8 bit")
    for fmt in WaveformChunk.Format:
        w.format = fmt
        got = outcome(lambda: w.bytes)
        if fmt is WaveformChunk.Format.mono_8bit:
            expect(got == ("ok", b"\xff"), "mono 8 bit")
        else:
            expect(got == ("raised", "NotImplementedError"), f"{fmt} unsupported")
    w.format = WaveformChunk.Format.mono_8bit
    w.samples = [1.5]
    expect(outcome(lambda: w.bytes) == ("raised", "TypeError"), "float sample")


def expected_option_bytes(mod):
    out = [0] * 64
    used = 0
    for opt in mod.options.values():
        v = int(mod.option_values[opt.name]) % (2**opt.size)
        out[opt.byte] += v * (2**opt.bit)
        used = max(used, opt.byte + 1)
    return bytes(out[:used])


def run_option_checks(digest):
    with_options = 0
    for mtype in module_types():
        cls = MODULE_CLASSES[mtype]
        if not cls.options:
            continue
        with_options += 1
        names = list(cls.options)
        settings = [{}]
        for n in names:
            opt = cls.options[n]
            top = (1 << opt.size) - 1
            for v in sorted({0, 1, top, top // 2}):
                settings.append({n: v})
        settings.append({n: (1 << cls.options[n].size) - 1 for n in names})
        for setting in settings:
            mod = cls()
            for n, v in setting.items():
                mod.option_values[n] = v  # raw stored value, bypassing the descriptor
            label = f"options {mtype} {setting}"
            chunks = list(mod.options_chunks())
            expect([t for t, _ in chunks] == [b"CHNM", b"CHDT"], f"{label}: tags")
            expect(chunks[0][1] == struct.pack("<I", mod.options_chnm), f"{label}: chnm")
            expect(chunks[1][1] == expected_option_bytes(mod), f"{label}: bytes")
            digest.update(chunks[1][1])
            back = cls()
            raw = RawChunk()
            raw.chnm, raw.chdt = mod.options_chnm, chunks[1][1]
            back.load_options(raw)
            want = {
                n: (bool(v) if cls.options[n].size == 1 else int(v))
                for n, v in mod.option_values.items()
            }
            expect(back.option_values == want, f"{label}: load_options")
            for n, v in back.option_values.items():
                expect(type(v) is (bool if cls.options[n].size == 1 else int),
                       f"{label}: {n} type {type(v).__name__}")
        # short and over-long byte maps
        for payload in (b"", b"\xff", b"\xff" * 3, b"\xff" * 64, b"\xaa" * 70, bytes(64)):
            back = cls()
            raw = RawChunk()
            raw.chnm, raw.chdt = cls.options_chnm, payload
            back.load_options(raw)
            padded = list(payload) + [0] * 64
            for n, opt in cls.options.items():
                v = (padded[opt.byte] >> opt.bit) % (2**opt.size)
                want = bool(v) if opt.size == 1 else v
                got = back.option_values[n]
                expect(got == want and type(got) is type(want),
                       f"load_options {mtype}.{n} from {len(payload)} bytes")
        # a missing option value is an error, not silently zero
        mod = cls()
        del mod.option_values[names[0]]
        expect(outcome(lambda: list(mod.options_chunks())) == ("raised", "TypeError"),
               f"{mtype}: missing option value")
    expect(with_options >= 5, f"only {with_options} module types with options")
    # without options a placeholder is produced by the base implementation
    from rv.modules.amplifier import Amplifier

    if not Amplifier.options:
        expect(list(Amplifier().specialized_iff_chunks()) == [(None, None)],
               "no options placeholder")


def run_cmid_checks(digest):
    for mtype in module_types():
        cls = MODULE_CLASSES[mtype]
        names = list(cls().controllers)
        if not names:
            continue
        source = cls()
        set_midi_maps(source, "mid")
        full = b"".join(source.controller_midi_maps[n].cmid_data for n in names)
        for cut in sorted({0, 1, 7, 8, 9, 15, 16, len(full) - 8, len(full) - 1,
                           len(full), len(full) + 8}):
            if cut < 0:
                continue
            data = (full + bytes([3, 1, 2, 0, 9, 0, 0, 200]))[:cut]
            target = cls()
            before = set(target.controller_midi_maps)
            target.load_cmid(data)
            whole = min(cut // 8, len(names))
            for i, n in enumerate(names):
                got = target.controller_midi_maps[n].cmid_data
                want = full[i * 8 : i * 8 + 8] if i < whole else cls().controller_midi_maps[n].cmid_data
                if mtype != "MetaModule":
                    expect(got == want, f"load_cmid {mtype}.{n} cut {cut}")
                digest.update(got)
            expect(before <= set(target.controller_midi_maps), "maps only grow")
    from rv.modules.amplifier import Amplifier

    a = Amplifier()
    a.load_cmid(bytes([1, 2, 3, 0, 4, 0, 0, 200]) + b"\x01\x02")
    first = list(a.controllers)[0]
    expect(set(a.controller_midi_maps) == {first}, "only complete records create maps")
    expect(outcome(lambda: a.load_cmid(bytes([99, 0, 0, 0, 0, 0, 0, 0])))
           == ("raised", "ValueError"), "unknown message type")


def run_get_raw_checks(digest):
    for mtype in module_types():
        for which in ("default", "min", "mid", "max"):
            mod = build(mtype, which)
            for name, ctl in mod.controllers.items():
                value = getattr(mod, name)
                t = ctl.instance_value_type(mod)
                if isinstance(value, Enum):
                    value = value.value
                if value is None:
                    value = 0
                if isinstance(t, NoOffsetRange):
                    want = value  # stored as a signed int, never shifted
                elif isinstance(t, Range):
                    want = value - t.min if t.min < 0 else value
                else:
                    want = int(value)
                got = mod.get_raw(name)
                expect(got == want and type(got) is type(want),
                       f"get_raw {mtype}.{name} [{which}]: {got!r} != {want!r}")
                digest.update(repr((mtype, which, name, got)).encode())
                if (
                    isinstance(t, Range)
                    and not isinstance(t, NoOffsetRange)
                    and ctl.attached(mod)
                    and which != "default"
                ):
                    expect(0 <= got <= t.max - min(t.min, 0),
                           f"get_raw {mtype}.{name} [{which}] out of raw range")
    from rv.modules.amplifier import Amplifier

    expect(outcome(lambda: Amplifier().get_raw("nope")) == ("raised", "KeyError"),
           "unknown controller")
    a = Amplifier()
    first = list(a.controllers)[0]
    a.controller_values[first] = None
    expect(a.get_raw(first) == 0, "None is written as 0")


def main():
    digest = hashlib.sha256()
    run_synth_round_trips(digest)
    run_project_round_trips(digest)
    run_empty_synth()
    run_array_checks(digest)
    run_waveform_checks()
    run_option_checks(digest)
    run_cmid_checks(digest)
    run_get_raw_checks(digest)
    finish(digest, GOLDEN)


GOLDEN = "20e6521cb50f0084defb5586017cee4361ea467a7ea51598730a708f4adb1e3a"

if __name__ == "__main__":
    main()
