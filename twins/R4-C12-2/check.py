"""Behaviour check for the packed Visualization word (Module.visualization.*)."""
import itertools
import struct
import sys

import rv.api  # noqa: F401  (resolves the package import cycle first)
from rv.modules.module import LevelMode, Orientation, OscilloscopeMode, Visualization

failures = []


def check(cond, msg):
    if not cond:
        failures.append(msg)
        if len(failures) < 20:
            print("FAIL:", msg)


# name -> (shift, mask, enum or None, how the new value is reduced)
FIELDS = {
    "level_mode": (0, 0b11111, LevelMode, "mask"),
    "orientation": (5, 1, Orientation, "intmask"),
    "oscilloscope_mode": (8, 0b11111, OscilloscopeMode, "intmask"),
    "oscilloscope_size": (16, 0xFF, None, "clamp"),
    "bg_transparency": (24, 3, None, "clamp"),
    "shadow_opacity": (26, 3, None, "clamp"),
}


def reduce_value(kind, mask, v):
    if kind == "clamp":
        return max(0, min(v, mask))
    return int(v) & mask


def model_get(word, name):
    shift, mask, enum, _ = FIELDS[name]
    raw = word >> shift & mask
    return enum(raw) if enum else raw


def model_set(word, name, v):
    shift, mask, _, kind = FIELDS[name]
    return (word & ~(mask << shift)) | (reduce_value(kind, mask, v) << shift)


def read_all(vis):
    out = {}
    for name in FIELDS:
        try:
            out[name] = getattr(vis, name)
        except ValueError:
            out[name] = "invalid"
    return out


def new_values(name):
    shift, mask, enum, kind = FIELDS[name]
    if kind == "clamp":
        return [-5, -1, 0, 1, 2, 3, 4, mask - 1, mask, mask + 1, 1000, True]
    vals = list(range(-2, 2 * mask + 4))
    if enum:
        vals += list(enum)
    return vals


# Words made of defined members in every enumerated part, crossed with stray bits
# that belong to no sub-field (they must be carried along untouched).
STRAY = [0, 1 << 6, 1 << 7, 0b111 << 13, 0xF << 28, 1 << 40, (1 << 6) | (1 << 15) | (1 << 31)]
sizes = [0, 1, 0x0C, 0x7F, 0x80, 0xFF]
count = 0
for lm, ori, om, size, bg, sh in itertools.product(
    range(5), range(2), range(8), sizes, range(4), range(4)
):
    base = lm | ori << 5 | om << 8 | size << 16 | bg << 24 | sh << 26
    stray = STRAY[count % len(STRAY)]
    count += 1
    word = base | stray
    vis = Visualization(word)
    check(int(vis) == word and vis.value == word, "int()")
    got = read_all(vis)
    check(
        got
        == {
            "level_mode": LevelMode(lm),
            "orientation": Orientation(ori),
            "oscilloscope_mode": OscilloscopeMode(om),
            "oscilloscope_size": size,
            "bg_transparency": bg,
            "shadow_opacity": sh,
        },
        "decode %x" % word,
    )
    check(type(got["level_mode"]) is LevelMode, "enum type")
    check(type(got["orientation"]) is Orientation, "enum type")
    check(type(got["oscilloscope_mode"]) is OscilloscopeMode, "enum type")
    # one sub-field write per word here (full value sweeps below)
    name = list(FIELDS)[count % len(FIELDS)]
    vals = new_values(name)
    v = vals[(count // len(FIELDS)) % len(vals)]
    before = read_all(vis)
    setattr(vis, name, v)
    check(vis.value == model_set(word, name, v), "set %s=%r on %x" % (name, v, word))
    check(type(vis.value) is int, "word stays an int")
    after = read_all(vis)
    for other in FIELDS:
        if other != name:
            check(after[other] == before[other], "%s changed by setting %s" % (other, name))

# Full sweeps: every old content of the sub-field x every candidate new value,
# in several surrounding contexts (including negative and >32-bit words).
CONTEXTS = [0, 0x000C0101, 0x0FFF1F3F & ~0, 0x0AA50421, -1 << 32, 0x123456789 << 28]
for name, (shift, mask, enum, kind) in FIELDS.items():
    for ctx in CONTEXTS:
        ctx_clear = ctx & ~(mask << shift)
        for old in range(mask + 1):
            word = ctx_clear | old << shift
            for v in new_values(name):
                vis = Visualization(word)
                old_valid = enum is None or old in list(map(int, enum))
                if not old_valid:
                    # overwriting an undefined enum content is refused, word kept
                    try:
                        setattr(vis, name, v)
                    except ValueError:
                        pass
                    else:
                        check(False, "%s: undefined old content %d overwritten" % (name, old))
                    check(vis.value == word, "word kept after ValueError")
                    continue
                before = read_all(vis)
                setattr(vis, name, v)
                expect = model_set(word, name, v)
                check(vis.value == expect, "sweep %s old=%d v=%r ctx=%x" % (name, old, v, ctx))
                stored = reduce_value(kind, mask, v)
                if enum is None or stored in list(map(int, enum)):
                    check(getattr(vis, name) == stored, "readback %s" % name)
                else:
                    try:
                        getattr(vis, name)
                    except ValueError:
                        pass
                    else:
                        check(False, "undefined member readable")
                after = read_all(vis)
                for other in FIELDS:
                    if other != name:
                        check(after[other] == before[other], "%s disturbed by %s" % (other, name))
                # a second write on top of the first one
                if enum is None or stored in list(map(int, enum)):
                    setattr(vis, name, 1)
                    check(vis.value == model_set(expect, name, 1), "second write %s" % name)

# undefined level_mode content does not block the other sub-fields
vis = Visualization(0x000C0107)
for name, v in [("orientation", 1), ("oscilloscope_mode", 3), ("oscilloscope_size", 9),
                ("bg_transparency", 2), ("shadow_opacity", 1)]:
    w = vis.value
    setattr(vis, name, v)
    check(vis.value == model_set(w, name, v), "set %s with undefined level_mode" % name)
check(vis.value & 0b11111 == 7, "level bits kept")

# type behaviour of new values
for name, bad, exc in [
    ("level_mode", 1.0, TypeError),
    ("level_mode", "1", TypeError),
    ("level_mode", None, TypeError),
    ("orientation", None, TypeError),
    ("orientation", "x", ValueError),
    ("oscilloscope_mode", None, TypeError),
    ("oscilloscope_mode", "lines", ValueError),
    ("oscilloscope_size", 1.5, TypeError),
    ("oscilloscope_size", "9", TypeError),
    ("oscilloscope_size", None, TypeError),
    ("bg_transparency", 1.5, TypeError),
    ("bg_transparency", None, TypeError),
    ("shadow_opacity", 2.5, TypeError),
    ("shadow_opacity", "1", TypeError),
]:
    vis = Visualization(0x000C0101)
    try:
        setattr(vis, name, bad)
    except exc:
        pass
    except Exception as e:  # noqa: BLE001
        check(False, "%s=%r raised %r, expected %s" % (name, bad, e, exc.__name__))
    else:
        check(False, "%s accepted %r" % (name, bad))
    check(vis.value == 0x000C0101, "word kept after rejected %s=%r" % (name, bad))
# values that int() accepts are fine for the int()-converting setters
vis = Visualization(0)
vis.orientation = "1"
check(vis.value == 1 << 5, "orientation='1'")
vis.oscilloscope_mode = "7"
check(vis.value == (1 << 5) | (7 << 8), "oscilloscope_mode='7'")
vis.oscilloscope_mode = 2.9
check(vis.value == (1 << 5) | (2 << 8), "oscilloscope_mode=2.9")
vis.level_mode = True
check(vis.value == (1 << 5) | (2 << 8) | 1 and type(vis.value) is int, "level_mode=True")
vis.oscilloscope_size = True
check(vis.oscilloscope_size == 1, "oscilloscope_size=True")
# non-integer word: every accessor refuses
vis = Visualization(1.5)
for name in FIELDS:
    for action in ("get", "set"):
        try:
            getattr(vis, name) if action == "get" else setattr(vis, name, 1)
        except TypeError:
            pass
        else:
            check(False, "float word %s %s" % (action, name))
check(vis.value == 1.5, "float word kept")

# through a module: default word, a fresh view per access, SVPR chunk
mod = rv.api.m.Amplifier()
check(int(mod.visualization) == 0x000C0101, "default word")
check(mod.visualization is not mod.visualization, "fresh view per access")
view = mod.visualization
check(
    (view.level_mode, view.orientation, view.oscilloscope_mode, view.oscilloscope_size,
     view.bg_transparency, view.shadow_opacity)
    == (LevelMode.mono, Orientation.horizontal, OscilloscopeMode.points, 0x0C, 0, 0),
    "default parts",
)
view.level_mode = LevelMode.glow
view.oscilloscope_mode = OscilloscopeMode.xy
view.shadow_opacity = 3
check(int(mod.visualization) == 0x000C0101, "module word not written by the view")
mod.visualization = int(view)
check(int(mod.visualization) == 0x0C0C0704, "word assigned back")
chunks = dict(mod.iff_chunks(in_project=True))
check(chunks[b"SVPR"] == struct.pack("<I", 0x0C0C0704), "SVPR chunk")
check(b"SVPR" not in dict(mod.iff_chunks(in_project=False)), "no SVPR outside project")

if failures:
    print("FAILED (%d)" % len(failures))
    sys.exit(1)
print("PASS")
