"""Behaviour check for rv.chunks (ArrayChunk, WaveformChunk, DrawnWaveformChunk)
and the drawn-waveform loading of Generator / AnalogGenerator.

Every observation is asserted explicitly where the expected value is short,
and also appended to a transcript whose digest is compared to a golden value
recorded on the unchanged tree.
"""
import contextlib
import hashlib
import io
import logging
import struct
import sys
from itertools import chain

import rv.api  # noqa: F401
from rv.chunks import ArrayChunk, DrawnWaveformChunk, WaveformChunk
from rv.modules import Chunk
from rv.modules.analoggenerator import AnalogGenerator
from rv.modules.fmx import Fmx
from rv.modules.generator import Generator
from rv.modules.metamodule import MetaModule
from rv.modules.multictl import MultiCtl
from rv.modules.multisynth import MultiSynth
from rv.modules.spectravoice import SpectraVoice
from rv.modules.waveshaper import WaveShaper
from rv.synth import Synth

logging.disable(logging.CRITICAL)

GOLDEN = "23ef9227469a5e4233ad7adfaafbf992d40c710a608875e22c152fc3e3a96cb7"

failures = []
transcript = []


def check(cond, msg):
    if not cond:
        failures.append(msg)


def note(label, value):
    transcript.append(f"{label}={value!r}")


def outcome(fn):
    """Return ('ok', result) or ('err', exception type name)."""
    try:
        return ("ok", fn())
    except Exception as e:  # noqa
        return ("err", type(e).__name__)


def plain(values):
    """Values of an array chunk in a comparable form."""
    out = []
    for v in values:
        if hasattr(v, "__dict__") and not isinstance(v, (int, float)):
            out.append(tuple(sorted(vars(v).items())))
        else:
            out.append(v)
    return out


# ---------------------------------------------------------------- ArrayChunk
class Plain(ArrayChunk):
    length = 5
    type = "h"
    element_size = 2


class Scalar(Plain):
    default = -7


class Listed(Plain):
    default = [1, 2, 3, 4, 5]


class DictDefault(Plain):
    default = {"a": 1}


class Ramp(Plain):
    min_value = -3
    max_value = 6

    def default(self, x):
        return x * 4 - 8


class ZeroMin(Plain):
    min_value = 0  # falsy: means "no lower limit"
    max_value = 2

    def default(self, x):
        return x - 2


class ZeroMax(Plain):
    min_value = 1
    max_value = 0  # falsy: means "no upper limit"

    def default(self, x):
        return x * 100 - 100


class Pair(ArrayChunk):
    length = 3
    type = "Bh"
    element_size = 3
    python_type = tuple

    @property
    def encoded_values(self):
        return list(chain.from_iterable(self.values))

    def default(self, x):
        return (x, -x)


class Mismatch(Plain):
    element_size = 3  # does not match struct size of "h"


class Untyped(ArrayChunk):
    length = 4
    type = None
    element_size = None
    default = 0


class Halting(Plain):
    """python_type that fails on the third element."""

    @staticmethod
    def python_type(v):
        if v == 99:
            raise ValueError("bad element")
        return v


check(Plain().values == [0, 0, 0, 0, 0], "default None -> zeros")
check(Scalar().values == [-7] * 5, "scalar default")
lst = Listed()
check(lst.values == [1, 2, 3, 4, 5] and lst.values is not Listed.default, "list default is copied")
dd = DictDefault()
check(dd.values == [{"a": 1}] * 5 and dd.values[0] is DictDefault.default, "other default repeated")
check(Ramp().values == [-3, -3, 0, 4, 6], "callable default clamped both sides")
check(ZeroMin().values == [-2, -1, 0, 1, 2], "min_value 0 does not clamp")
check(ZeroMax().values == [1, 1, 100, 200, 300], "max_value 0 does not clamp")
check(Pair().values == [(0, 0), (1, -1), (2, -2)], "callable default without limits")

p = Plain()
p.values[2] = 9
p.reset()
check(p.values == [0] * 5, "reset() restores default")
lst.values.append(6)
lst.reset()
check(lst.values == [1, 2, 3, 4, 5] and Listed.default == [1, 2, 3, 4, 5], "reset() list default")

calls = []


def recording(x):
    calls.append(x)
    return x * 3 - 6


r = Ramp()
r.set_via_fn(recording)
check(calls == [0, 1, 2, 3, 4] and r.values == [-3, -3, 0, 3, 6], "set_via_fn order and clamping")
before = list(r.values)
check(outcome(lambda: r.set_via_fn(lambda x: 1 // (2 - x)))[1] == "ZeroDivisionError", "set_via_fn error type")
check(r.values == before, "set_via_fn failure leaves values untouched")
r.set_via_fn(lambda x: 2.5 * x)
check(r.values == [0.0, 2.5, 5.0, 6, 6], "set_via_fn floats")
note("ramp", r.values)

# bytes getter
p = Plain()
p.values = [-32768, -1, 0, 1, 32767]
raw = p.bytes
check(raw == struct.pack("<5h", -32768, -1, 0, 1, 32767), "bytes getter packs little endian")
check(p.chdt() == raw, "chdt() is bytes")
p.values = [1, 2, 3]
check(outcome(lambda: p.bytes) == ("err", "error"), "too few values -> struct.error")
p.values = [1, 2, 3, 4, 5, 6]
check(outcome(lambda: p.bytes) == ("err", "error"), "too many values -> struct.error")
p.values = [0, 0, 0, 0, 40000]
check(outcome(lambda: p.bytes) == ("err", "error"), "out of range value -> struct.error")
p.values = [0, 0, 0, 0, "x"]
check(outcome(lambda: p.bytes) == ("err", "error"), "wrong type value -> struct.error")
check(outcome(lambda: Untyped().bytes) == ("err", "TypeError"), "type None -> TypeError")
pair = Pair()
check(pair.bytes == b"\x00\x00\x00\x01\xff\xff\x02\xfe\xff", "multi-field element packing")

# bytes setter
p = Plain()
p.bytes = raw
check(p.values == [-32768, -1, 0, 1, 32767], "bytes setter round trip")
p.bytes = raw[:4]
check(p.values == [-32768, -1], "short data gives fewer values")
p.bytes = raw[:5]
check(p.values == [-32768, -1], "trailing partial element ignored")
p.bytes = raw + b"\x05\x00\x06"
check(p.values == [-32768, -1, 0, 1, 32767, 5], "long data gives more values")
p.bytes = b""
check(p.values == [], "empty data gives no values")
p.bytes = b"\x01"
check(p.values == [], "less than one element gives no values")
p.bytes = bytearray(raw)
check(p.values == [-32768, -1, 0, 1, 32767], "bytearray accepted")
p.bytes = memoryview(raw)
check(p.values == [-32768, -1, 0, 1, 32767], "memoryview accepted")
old_list = p.values
p.bytes = raw
check(p.values is not old_list, "setter builds a new list")
pair.bytes = b"\x07\xfe\xff\x08\x02\x00\xff"
check(pair.values == [(7, -2), (8, 2)], "multi-field elements arrive as tuples")
check(all(type(v) is int for v in p.values), "python_type int")

m = Mismatch()
m.values = [1, 2, 3]
check(outcome(lambda: setattr(m, "bytes", b"\0" * 6)) == ("err", "error"), "element_size mismatch -> struct.error")
check(m.values == [], "values emptied before failing element")
u = Untyped()
u.values = [1]
check(outcome(lambda: setattr(u, "bytes", b"")) == ("err", "TypeError"), "element_size None -> TypeError")
check(u.values == [], "values emptied before size error")
check(outcome(lambda: setattr(u, "bytes", None)) == ("err", "TypeError"), "None data -> TypeError")


class UntypedSized(Untyped):
    element_size = 2


us = UntypedSized()
us.bytes = b""
check(us.values == [], "type None but no elements is fine")
check(outcome(lambda: setattr(us, "bytes", b"\0\0")) == ("err", "error"), "type None with an element -> struct.error")
h = Halting()
check(outcome(lambda: setattr(h, "bytes", struct.pack("<4h", 5, 6, 99, 7))) == ("err", "ValueError"), "python_type failure propagates")
check(h.values == [5, 6], "elements before the failing one are kept")

# ------------------------------------------------- array chunks of the modules
ws = WaveShaper()
ms = MultiSynth()
fmx = Fmx()
sv = SpectraVoice()
mc = MultiCtl()
mm = MetaModule()
arrays = {
    "ws.curve": ws.curve,
    "ms.nv": ms.nv_curve,
    "ms.vv": ms.vv_curve,
    "ms.np": ms.np_curve,
    "fmx.cw": fmx.custom_waveform,
    "sv.freqs": sv.harmonic_freqs,
    "sv.volumes": sv.harmonic_volumes,
    "sv.widths": sv.harmonic_widths,
    "sv.types": sv.harmonic_types,
    "mc.mappings": mc.mappings,
    "mc.curve": mc.curve,
    "mm.mappings": mm.mappings,
}
for label, arr in arrays.items():
    cls = type(arr)
    default_values = plain(arr.values)
    default_bytes = arr.bytes
    note(label + ".default", default_values)
    note(label + ".bytes", default_bytes)
    check(len(arr.values) == cls.length, f"{label}: default length")
    check(len(default_bytes) == cls.length * cls.element_size, f"{label}: byte length")
    fresh = cls()
    fresh.bytes = default_bytes
    check(plain(fresh.values) == default_values and fresh.bytes == default_bytes, f"{label}: default round trip")
    # a deterministic non-default pattern, shorter and longer inputs
    pattern = bytes((i * 37 + 11) % 256 for i in range(len(default_bytes)))
    if label == "sv.types":
        pattern = bytes(i % len(SpectraVoice.HarmonicType) for i in range(16))
    if label == "fmx.cw":
        pattern = struct.pack("<256f", *[(i - 128) / 128 for i in range(256)])
    for cut in (len(pattern), len(pattern) // 2, cls.element_size, cls.element_size + 1, 0):
        fresh = cls()
        fresh.bytes = pattern[:cut]
        note(f"{label}.load{cut}", plain(fresh.values))
        expected = cut // cls.element_size
        if label == "mm.mappings":
            expected = cls.length  # MetaModule pads its mapping table
        check(len(fresh.values) == expected, f"{label}: {cut} bytes -> {expected} values")
        if len(fresh.values) == cls.length:
            check(fresh.bytes[: cut - cut % cls.element_size] == pattern[: cut - cut % cls.element_size], f"{label}: re-encode {cut}")
    fresh = cls()
    fresh.values = []
    fresh.reset()
    check(plain(fresh.values) == default_values, f"{label}: reset()")

check(all(isinstance(v, SpectraVoice.HarmonicType) for v in sv.harmonic_types.values), "harmonic types are enums")
check(all(isinstance(v, float) for v in (lambda c: (setattr(c, "bytes", struct.pack("<2f", 0.5, -1.0)), c.values)[1])(Fmx().custom_waveform)), "fmx floats")
types = SpectraVoice().harmonic_types
check(outcome(lambda: setattr(types, "bytes", bytes([0, 1, 200, 2]))) == ("err", "ValueError"), "invalid harmonic type")
check(types.values == [SpectraVoice.HarmonicType(0), SpectraVoice.HarmonicType(1)], "harmonic types kept up to the invalid one")
ws2 = WaveShaper()
ws2.curve.set_via_fn(lambda x: x * 1000 - 5000)
check(ws2.curve.values[:7] == [-5000, -4000, -3000, -2000, -1000, 0, 1000] and max(ws2.curve.values) == 65535, "curve clamping: only upper side (min_value is 0)")
ms2 = MultiSynth()
ms2.nv_curve.set_via_fn(lambda x: 300 - x * 3)
check(ms2.nv_curve.values[:3] == [255, 255, 255] and ms2.nv_curve.values[-1] == -81, "nv curve clamping")
note("ws2", ws2.curve.values)
note("ms2", ms2.nv_curve.values)

# ------------------------------------------------------------ WaveformChunk
class Wave(WaveformChunk):
    chnm = 5
    default = [1, -1]


w = Wave()
check(w.samples == [1, -1] and w.samples is not Wave.default, "default samples copied")
check(w.format is None and w.freq is None, "no fixed format/freq")
check(w.bytes == b"\x01\xff", "negative samples wrap to unsigned bytes")
w.samples = [-128, -1, 0, 127, 128, 255, 256, 383, -129, -256]
check(w.bytes == bytes([128, 255, 0, 127, 128, 255, 0, 127, 127, 0]), "samples are masked to 8 bits")
check(w.chdt() == w.bytes, "chdt is bytes")
w.samples = (3, 4)
check(w.bytes == b"\x03\x04", "tuple samples")
w.samples = []
check(w.bytes == b"", "no samples")
w.samples = [1.5]
check(outcome(lambda: w.bytes) == ("err", "TypeError"), "float sample -> TypeError")
w.samples = [1]
for fmt in WaveformChunk.Format:
    w.format = fmt
    expected = ("ok", b"\x01") if fmt is WaveformChunk.Format.mono_8bit else ("err", "NotImplementedError")
    check(outcome(lambda: w.bytes) == expected, f"format {fmt.name}")
w.format = 1
check(outcome(lambda: w.bytes) == ("err", "NotImplementedError"), "raw int format is not mono_8bit")
w.format = WaveformChunk.Format.stereo_16bit
w.freq = 22050
check(w.chff() == struct.pack("<I", 0x0A) and w.chfr() == struct.pack("<I", 22050), "chff/chfr")


class Empty(WaveformChunk):
    pass


check(Empty().samples == [], "no default -> empty samples")

d = DrawnWaveformChunk()
check(d.format is WaveformChunk.Format.mono_8bit and d.freq == 44100, "drawn waveform fixed format/freq")
check(d.is_default and list(d.chunks()) == [], "default drawn waveform writes nothing")
d.samples[0] = 5
check(not d.is_default, "changed drawn waveform")
check(outcome(lambda: list(d.chunks())) == ("err", "error"), "chnm None cannot be packed")
check(DrawnWaveformChunk.default[0] == 0, "class default untouched")

# ----------------------------------------- Generator / AnalogGenerator loading
def chunk(chdt, chff=0, chfr=44100, chnm=0):
    c = Chunk()
    c.chnm, c.chdt, c.chff, c.chfr = chnm, chdt, chff, chfr
    return c


for cls in (Generator, AnalogGenerator):
    name = cls.__name__
    mod = cls()
    dw = mod.drawn_waveform
    check(dw.is_default and dw.chnm == 0, f"{name}: default waveform")
    all_bytes = bytes(range(256))
    mod.load_chunk(chunk(all_bytes, chff=0, chfr=8000))
    check(mod.drawn_waveform is dw, f"{name}: chunk object kept")
    check(dw.samples == list(range(128)) + list(range(-128, 0)), f"{name}: unsigned -> signed")
    check(dw.format is dw.Format.mono_8bit and dw.freq == 8000, f"{name}: chff 0 -> mono_8bit, freq taken")
    check(dw.bytes == all_bytes, f"{name}: bytes round trip")
    mod.load_drawn_waveform(chunk(b"\x80\x7f", chff=None, chfr=None))
    check(dw.samples == [-128, 127] and dw.format is dw.Format.mono_8bit and dw.freq is None, f"{name}: None chff/chfr")
    mod.load_drawn_waveform(chunk(b"\x01", chff=0x0A, chfr=1))
    check(dw.format is dw.Format.stereo_16bit, f"{name}: other format accepted")
    check(outcome(lambda: dw.bytes) == ("err", "NotImplementedError"), f"{name}: other format cannot be written")
    dw.freq = 77
    check(outcome(lambda: mod.load_drawn_waveform(chunk(b"\x02\xfe", chff=3, chfr=5))) == ("err", "ValueError"), f"{name}: invalid format")
    check(dw.samples == [2, -2] and dw.format is dw.Format.stereo_16bit and dw.freq == 77, f"{name}: samples set before format failure")
    mod.load_drawn_waveform(chunk([384, -1, 300, 128, 127, True], chff=1))
    check(dw.samples == [-128, -1, 44, -128, 127, 1], f"{name}: ints outside 0..255 sign-extend their low byte")
    check(outcome(lambda: mod.load_drawn_waveform(chunk(None))) == ("err", "TypeError"), f"{name}: None data")
    mod.load_drawn_waveform(chunk(b"", chff=1))
    check(dw.samples == [], f"{name}: empty data")
    # chunks other than 0 do not touch the waveform
    mod.load_chunk(chunk(b"\x09", chnm=7))
    check(dw.samples == [], f"{name}: unrelated chnm ignored")

    # written form and clone
    for samples in (
        [((i * 9) % 256) - 128 for i in range(32)],
        [-128] * 32,
        [127] * 32,
        list(DrawnWaveformChunk.default),
    ):
        with contextlib.redirect_stdout(io.StringIO()):
            mod = cls(samples=list(samples))
        written = list(mod.drawn_waveform.chunks())
        if samples == DrawnWaveformChunk.default:
            check(written == [], f"{name}: default samples not written")
        else:
            check(
                written
                == [
                    (b"CHNM", struct.pack("<I", 0)),
                    (b"CHDT", bytes(s & 255 for s in samples)),
                    (b"CHFR", struct.pack("<I", 44100)),
                ],
                f"{name}: written chunks",
            )
        clone = mod.clone()
        check(clone.drawn_waveform.samples == samples, f"{name}: clone keeps samples")
        check(clone.drawn_waveform.format is WaveformChunk.Format.mono_8bit, f"{name}: clone format")
        check(clone.drawn_waveform.freq == 44100, f"{name}: clone freq")
        check(bool(clone.chnk) == bool(mod.chnk), f"{name}: chnk")
        note(f"{name}.synth", Synth(mod).read())

# ------------------------------------------- payload round trips via clone()
ws = WaveShaper(values=[(i * 257) % 65536 for i in range(256)])
check(ws.clone().curve.values == ws.curve.values, "WaveShaper curve clone")
ms = MultiSynth(nv_values=[i * 2 for i in range(128)], vv_values=[255 - i % 256 for i in range(257)])
ms.np_curve.values = [65535 - v for v in ms.np_curve.values]
c = ms.clone()
check((c.nv_curve.values, c.vv_curve.values, c.np_curve.values) == (ms.nv_curve.values, ms.vv_curve.values, ms.np_curve.values), "MultiSynth curves clone")
fx = Fmx(custom_waveform_values=[(i - 128) / 128 for i in range(256)])
check(fx.clone().custom_waveform.values == fx.custom_waveform.values, "Fmx custom waveform clone")
sv = SpectraVoice(harmonics=[(i * 100, 255 - i, i % 4, list(SpectraVoice.HarmonicType)[i % 5]) for i in range(16)])
c = sv.clone()
check([(h.freq_hz, h.volume, h.width, h.type) for h in c.harmonics] == [(h.freq_hz, h.volume, h.width, h.type) for h in sv.harmonics], "SpectraVoice harmonics clone")
mc = MultiCtl(mappings=[(i, 0x8000 - i, i % 5, 0, 0, 0, 0, 0) for i in range(16)], curve=[32768 - i * 128 for i in range(257)])
c = mc.clone()
check(plain(c.mappings.values) == plain(mc.mappings.values) and c.curve.values == mc.curve.values, "MultiCtl clone")
mm = MetaModule()
mm.mappings.values[0].module, mm.mappings.values[0].controller = 1, 2
c = mm.clone()
check(plain(c.mappings.values) == plain(mm.mappings.values) and len(c.mappings.values) == 96, "MetaModule mappings clone")
for label, mod in (("ws", ws), ("ms", ms), ("fx", fx), ("sv", sv), ("mc", mc), ("mm", mm)):
    note(label + ".synth", Synth(mod).read())

digest = hashlib.sha256("\n".join(transcript).encode("utf-8")).hexdigest()
if GOLDEN != "@" + "GOLDEN@":
    check(digest == GOLDEN, f"golden digest differs: {digest}")
else:
    print("digest", digest)

if failures:
    print("FAIL")
    for f in failures[:40]:
        print(" -", f)
    sys.exit(1)
print(f"PASS ({len(transcript)} recorded observations)")
