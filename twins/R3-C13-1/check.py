"""Behaviour check for the ModuleMeta tidy-up (rv/modules/meta.py).

Run from the repository root:
    PYTHONPATH=<root>/src/python python check.py
Passes on the unchanged tree and with patch.diff applied.
"""
import hashlib
import sys
from enum import Enum, IntEnum
from textwrap import dedent

FAILURES = []
CHECKS = 0


def check(cond, msg):
    global CHECKS
    CHECKS += 1
    if not cond:
        FAILURES.append(msg)


# ---------------------------------------------------------------------------
# Property C13: registered module metadata == specs/fileformat.yaml
# ---------------------------------------------------------------------------
def reference_enumname(ekey):
    """Verbatim copy of the original genrv.tools.generate.enumname (oracle)."""
    ekey = ekey.replace("/", "_div_")
    ekey = ekey.replace("*", "_mul_")
    ekey = ekey.replace(".", "_")
    ekey = ekey.replace("+", "_plus_")
    ekey = ekey.replace("-", "_neg_")
    ekey = ekey.replace("^", "_pow_")
    if ekey[0].isdigit():
        ekey = f"_{ekey}"
    elif ekey[0] == "_":
        ekey = ekey[1:]
    while "__" in ekey:
        ekey = ekey.replace("__", "_")
    ekey = ekey.lower()
    return ekey


def compare_registry_with_spec(spec_path="specs/fileformat.yaml"):
    import yaml
    import rv.modules
    from rv.controller import (
        CompactRange,
        Controller,
        DependentRange,
        NoOffsetRange,
        Range,
        WarnOnlyRange,
    )
    from rv.option import Option

    with open(spec_path) as f:
        spec = yaml.safe_load(f)
    module_types = spec["module_types"]
    classes = rv.modules.MODULE_CLASSES
    expected_mtypes = [m.get("type") or name for name, m in module_types.items()]
    check(len(module_types) == 43, "spec has 43 module types")
    check(
        sorted(classes) == sorted(expected_mtypes),
        "registered mtypes == spec types",
    )
    n_ctl = n_opt = 0
    for type_name, m in module_types.items():
        mtype = m.get("type") or type_name
        cls = classes[mtype]
        where = f"[{type_name}]"
        bases = [b for b in cls.__mro__ if b.__name__ == "Base" + type_name]
        check(len(bases) == 1, where + " has exactly one generated base class")
        base = bases[0]
        check(base.__module__ == "rv.modules.base." + type_name.lower(), where + " base module")
        check(base.name == type_name, where + " name")
        check(base.mtype == mtype and cls.mtype == mtype, where + " mtype")
        check(base.mgroup == m.get("group") == cls.mgroup, where + " group")
        check(base.default_flags == (m.get("defaultFlags") or 0), where + " flags")
        check(base.flags == base.default_flags, where + " flags alias")
        # enums
        for ename, members in (m.get("enums") or {}).items():
            e = getattr(cls, ename)
            got = [(x.name, x.value) for x in e]
            want = [(reference_enumname(k), v) for k, v in members.items()]
            check(got == want, f"{where} enum {ename}")
        # controllers
        want_ctls = []
        for entry in m.get("controllers") or []:
            want_ctls.extend(entry.items())
        ctlmap = dict(want_ctls)
        # hand-written subclasses may append controllers (MetaModule, Sampler)
        # after the generated ones, never before or in between
        got_ctls = list(cls.controllers.items())
        extra = [k for k, _ in got_ctls[len(want_ctls):]]
        check(
            bool(extra) == (type_name in ("MetaModule", "Sampler")),
            where + " unexpected extra controllers %r" % extra,
        )
        check(all(not hasattr(base, k) for k in extra), where + " extras not on base")
        got_ctls = got_ctls[: len(want_ctls)]
        check(
            all(getattr(base, k) is c for k, c in got_ctls),
            where + " controllers live on the generated base",
        )
        check(
            [k for k, _ in got_ctls]
            == [("in_" if k == "in" else k) for k, _ in want_ctls],
            where + " controller order",
        )
        for number, ((gname, ctl), (sname, cdef)) in enumerate(
            zip(got_ctls, want_ctls), 1
        ):
            n_ctl += 1
            w = f"{where}.{gname}"
            check(isinstance(ctl, Controller), w + " type")
            check(getattr(cls, gname) is ctl, w + " attr identity")
            check(ctl.number == number, w + " number")
            check(ctl.name == gname, w + " name")
            check(ctl.label == gname.replace("_", " ").title(), w + " label")
            check(ctl._attached is bool(cdef.get("attached", True)), w + " attached")
            vt = ctl.value_type
            if "min" in cdef and "max" in cdef:
                kind = Range
                if cdef.get("compact"):
                    kind = CompactRange
                if cdef.get("no_offset"):
                    kind = NoOffsetRange
                check(type(vt) is kind, w + " range kind")
                check((vt.min, vt.max) == (cdef["min"], cdef["max"]), w + " bounds")
                check(ctl.default == cdef["default"], w + " default")
            elif "enum" in cdef and "default" in cdef:
                check(vt is getattr(cls, cdef["enum"]), w + " enum type")
                check(
                    ctl.default is vt[reference_enumname(cdef["default"])],
                    w + " enum default",
                )
            elif "bool" in cdef:
                check(vt is bool, w + " bool")
                check(ctl.default is cdef["default"], w + " bool default")
            elif "depends_on" in cdef:
                check(type(vt) is DependentRange, w + " dependent")
                check(vt.ctl_name == cdef["depends_on"], w + " depends_on")
                parent_enum = getattr(cls, ctlmap[cdef["depends_on"]]["enum"])
                want_map = [
                    (parent_enum[reference_enumname(k)], (r["min"], r["max"]))
                    for k, r in cdef["ranges"].items()
                ]
                got_map = [(k, (r.min, r.max)) for k, r in vt.range_map.items()]
                check(got_map == want_map, w + " range table")
                check(
                    all(type(r) is WarnOnlyRange for r in vt.range_map.values()),
                    w + " range table kinds",
                )
                check(type(vt.default) is WarnOnlyRange, w + " fallback kind")
                check(
                    (vt.default.min, vt.default.max) == want_map[0][1],
                    w + " fallback range",
                )
                check(ctl.default == cdef["default"], w + " default")
            else:
                check(False, w + " unknown controller kind in spec")
        # options
        want_opts = []
        for entry in m.get("options") or []:
            want_opts.extend(entry.items())
        check(
            sorted(cls.options) == sorted(k for k, _ in want_opts),
            where + " option names",
        )
        for oname, ospec in want_opts:
            n_opt += 1
            w = f"{where}.{oname}"
            opt = cls.options[oname]
            check(isinstance(opt, Option), w + " type")
            check(getattr(cls, oname) is opt, w + " attr identity")
            check(opt.name == oname, w + " name")
            check(opt.number == (ospec.get("number") or None), w + " number")
            check(
                (opt.byte, opt.bit, opt.size)
                == (ospec["byte"], ospec["bit"], ospec["size"]),
                w + " byte/bit/size",
            )
            if "min" in ospec and "max" in ospec:
                check((opt.min, opt.max) == (ospec["min"], ospec["max"]), w + " bounds")
                check(opt.inverted is False, w + " inverted")
            else:
                check((opt.min, opt.max) == (None, None), w + " no bounds")
                check(opt.inverted is bool(ospec.get("inverted")), w + " inverted")
            check(
                opt.exclusive_of == (ospec.get("exclusive_of") or []),
                w + " exclusive_of",
            )
            if ospec.get("enum"):
                check(
                    opt.default is getattr(cls, ospec["enum"])[ospec["default"]],
                    w + " enum default",
                )
            else:
                check(opt.default == ospec["default"], w + " default")
                check(type(opt.default) is type(ospec["default"]), w + " default type")
        # options chunk number
        if want_opts:
            check(cls.options_chnm == m.get("options_chnm", 0), where + " options_chnm")
    check(n_ctl == 502, f"502 controllers compared (got {n_ctl})")
    check(n_opt == 49, f"49 options compared (got {n_opt})")
    return n_ctl, n_opt


# ---------------------------------------------------------------------------
# Oracle: the original ModuleMeta algorithms, re-stated independently
# ---------------------------------------------------------------------------
def oracle_controllers(cls):
    from rv.controller import Controller

    pairs = [(k, getattr(cls, k)) for k in dir(cls)]
    pairs = [(k, v) for k, v in pairs if isinstance(v, Controller)]
    pairs.sort(key=lambda x: x[1]._order)
    return pairs


def oracle_options(cls):
    from rv.option import Option

    return [(k, getattr(cls, k)) for k in dir(cls) if isinstance(getattr(cls, k), Option)]


RULE = "=" * 40


def oracle_docstring(cls, original_doc):
    lines = ['"%s" SunVox %s Module' % (cls.mtype, cls.mgroup), ""]
    if original_doc:
        lines.append(dedent(original_doc))
    lines += ["", "Behaviors:", ""]
    for b in sorted(cls.behaviors):
        lines.append("- " + b.name)
    if cls.controllers:
        rule4 = RULE + " " + RULE + " " + RULE + " " + RULE
        lines += ["", "Controllers:", "", rule4]
        lines.append("%-40s %-40s %-40s %-40s" % ("Number", "Name", "Type", "Default"))
        lines.append(rule4)
        for i, c in enumerate(cls.controllers.values(), 1):
            number = "``%02x`` (%d)" % (i, i)
            lines.append(
                "%-40s %-40s %-40s %-40s"
                % (number, c.name, repr(c.value_type), repr(c.default))
            )
        lines.append(rule4)
        lines.append("")
    else:
        lines.append("This module has no controllers.")
    return "\n".join(lines)


def oracle_enum_doc(e):
    rule2 = RULE + " " + RULE
    lines = ["An enumeration.", "", rule2, "%-40s %-40s" % ("Name", "Value"), rule2]
    for v in e:
        lines.append("%-40s %40d" % (v.name, v.value))
    lines.append(rule2)
    return "\n".join(lines)


UNDOCUMENTED_ENUMS = set()


def check_class_against_oracle(cls, label):
    want = oracle_controllers(cls)
    got = list(cls.controllers.items())
    check(type(cls.controllers) is dict, label + " controllers is a dict")
    check(
        [(k, id(v)) for k, v in got] == [(k, id(v)) for k, v in want],
        label + " controllers order/identity",
    )
    want_opts = oracle_options(cls)
    check(type(cls.options) is dict, label + " options is a dict")
    check(
        [(k, id(v)) for k, v in cls.options.items()]
        == [(k, id(v)) for k, v in want_opts],
        label + " options order/identity",
    )
    for k in dir(cls):
        e = getattr(cls, k)
        if isinstance(e, type) and issubclass(e, Enum):
            if e.__doc__ is None:
                # attached to the class after it was created (DrumSynth note enums)
                UNDOCUMENTED_ENUMS.add((label, k))
                continue
            check(e.__doc__ == oracle_enum_doc(e), f"{label}.{k} enum docstring")


def real_classes():
    import rv.modules
    from rv.modules.meta import ModuleMeta
    from rv.modules.module import Module

    check(type(Module) is ModuleMeta, "Module uses ModuleMeta")
    check(Module.controllers == {} and Module.options == {}, "Module has no ctls/opts")
    check("Module" not in rv.modules.MODULE_CLASSES, "Module itself not registered")
    check(None not in rv.modules.MODULE_CLASSES, "no None key in registry")
    h = hashlib.sha256()
    for mtype, cls in sorted(rv.modules.MODULE_CLASSES.items()):
        check(type(cls) is ModuleMeta, mtype + " metaclass")
        check_class_against_oracle(cls, mtype)
        # numbering is 1..n in definition order, names/labels follow attribute
        for n, (k, c) in enumerate(cls.controllers.items(), 1):
            check((c.number, c.name) == (n, k), f"{mtype}.{k} number/name")
            check(c.label == k.replace("_", " ").title(), f"{mtype}.{k} label")
        orders = [c._order for c in cls.controllers.values()]
        check(orders == sorted(orders), mtype + " definition order")
        h.update(mtype.encode() + b"\0" + cls.__doc__.encode() + b"\0")
        for k in sorted(dir(cls)):
            e = getattr(cls, k)
            if isinstance(e, type) and issubclass(e, Enum):
                h.update(k.encode() + b"\0" + str(e.__doc__).encode() + b"\0")
        # class docstring layout
        first = cls.__doc__.splitlines()[0]
        check(first == f'"{cls.mtype}" SunVox {cls.mgroup} Module', mtype + " doc head")
        if cls.controllers:
            check(cls.__doc__.endswith(" ".join([RULE] * 4) + "\n"), mtype + " doc tail")
            rows = [
                ln
                for ln in cls.__doc__.splitlines()
                if ln.startswith("``")
            ]
            check(len(rows) == len(cls.controllers), mtype + " doc rows")
        else:
            check(cls.__doc__.endswith("This module has no controllers."), mtype + " doc none")
    return h.hexdigest()


def synthetic_classes():
    """Exercise the metaclass on hand-made classes, including corner cases."""
    import rv.modules
    from rv.controller import Controller, Range
    from rv.modules.base.amplifier import BaseAmplifier
    from rv.modules.meta import ModuleMeta
    from rv.modules.module import Behavior, Module
    from rv.option import Option

    receives_audio, sends_audio = Behavior.receives_audio, Behavior.sends_audio
    registry = rv.modules.MODULE_CLASSES
    before = dict(registry)
    try:
        # 1. definition order beats alphabetical order; options alphabetical
        class Zed(Module):
            """
            Zed docs.

              indented
            """

            mtype = "ZedSynth"
            mgroup = "Synth"
            behaviors = {sends_audio, receives_audio}

            class Mode(IntEnum):
                off = 0
                on = 1
                minus = -5

            class NotAnIntEnum(Enum):
                a = 1

            zulu = Controller((0, 256), 1)
            alpha = Controller(Mode, Mode.on)
            mike_two = Controller(bool, True)
            in_ = Controller((-128, 128), 0, attached=False)
            opt_b = Option(name="opt_b", byte=1, bit=0, size=1, default=False)
            opt_a = Option(name="opt_a", byte=0, bit=0, size=1, default=True)
            not_a_controller = 5

        check(registry.get("ZedSynth") is Zed, "Zed registered")
        check(
            list(Zed.controllers) == ["zulu", "alpha", "mike_two", "in_"],
            "Zed definition order",
        )
        check(
            [c.number for c in Zed.controllers.values()] == [1, 2, 3, 4],
            "Zed numbering from 1",
        )
        check(
            [c.label for c in Zed.controllers.values()]
            == ["Zulu", "Alpha", "Mike Two", "In "],
            "Zed labels",
        )
        check(list(Zed.options) == ["opt_a", "opt_b"], "Zed options alphabetical")
        check(Zed.options["opt_a"] is Zed.opt_a, "Zed option identity")
        check(isinstance(Zed.zulu.value_type, Range), "tuple became Range")
        check_class_against_oracle(Zed, "Zed")
        original_doc = "\n            Zed docs.\n\n              indented\n            "
        check(Zed.__doc__ == oracle_docstring(Zed, original_doc), "Zed docstring")
        check(
            Zed.__doc__.index("- receives_audio") < Zed.__doc__.index("- sends_audio"),
            "Zed behaviours sorted",
        )
        check(Zed.Mode.__doc__ == oracle_enum_doc(Zed.Mode), "Zed.Mode doc")
        check("minus" in Zed.Mode.__doc__ and "-5" in Zed.Mode.__doc__, "neg enum")
        check(
            Zed.NotAnIntEnum.__doc__ == oracle_enum_doc(Zed.NotAnIntEnum),
            "plain Enum doc",
        )

        # 2. subclass inherits + appends; re-registers under the same mtype
        class ZedPlus(Zed):
            extra = Controller((0, 10), 3)
            aaa = Controller((0, 1), 0)

        check(registry.get("ZedSynth") is ZedPlus, "subclass replaces registration")
        check(
            list(ZedPlus.controllers)
            == ["zulu", "alpha", "mike_two", "in_", "extra", "aaa"],
            "ZedPlus order",
        )
        check(ZedPlus.aaa.number == 6 and ZedPlus.extra.number == 5, "ZedPlus numbers")
        check(ZedPlus.controllers["zulu"] is Zed.zulu, "shared controller objects")
        check(list(Zed.controllers) == ["zulu", "alpha", "mike_two", "in_"], "parent intact")
        check(ZedPlus.controllers is not Zed.controllers, "own controllers dict")
        check(ZedPlus.options is not Zed.options, "own options dict")
        check(list(ZedPlus.options) == ["opt_a", "opt_b"], "ZedPlus options")
        check_class_against_oracle(ZedPlus, "ZedPlus")
        # Zed's docstring is already the generated one, and is used as input
        check(ZedPlus.__doc__ is not None and ZedPlus.__doc__.count("Controllers:") == 1,
              "ZedPlus has no docstring of its own -> generated from scratch")
        check(ZedPlus.__doc__ == oracle_docstring(ZedPlus, None), "ZedPlus docstring")

        # 3. alias: one Controller object under two names -> stable (alphabetical) tie
        class Alias(Module):
            mtype = "AliasSynth"
            mgroup = "Misc"
            first = Controller((0, 1), 0)
            shared_b = Controller((0, 2), 0)
            last = Controller((0, 3), 0)
            shared_a = shared_b

        check(
            list(Alias.controllers) == ["first", "shared_a", "shared_b", "last"],
            "alias order",
        )
        check(Alias.controllers["shared_a"] is Alias.controllers["shared_b"], "alias id")
        check(Alias.shared_b.name == "shared_b", "alias: last name wins")
        check(Alias.shared_b.number == 3, "alias: last number wins")
        check(Alias.shared_b.label == "Shared B", "alias: last label wins")
        check(Alias.last.number == 4, "alias: following number")
        check_class_against_oracle(Alias, "Alias")
        check(Alias.__doc__ == oracle_docstring(Alias, None), "Alias docstring")

        # 4. falsy / missing mtype: not registered; no controllers text
        n = len(registry)

        class NoType(Module):
            mtype = ""
            mgroup = "Misc"

        check(len(registry) == n, "empty mtype not registered")
        check(NoType.controllers == {} and NoType.options == {}, "NoType empty")
        check(NoType.__doc__.endswith("This module has no controllers."), "NoType doc")
        check(NoType.__doc__ == oracle_docstring(NoType, None), "NoType docstring")

        # 5. no ``mtype`` attribute at all: registration is skipped, then the
        #    docstring builder fails on cls.mtype (same on both trees)
        try:

            class Bare(metaclass=ModuleMeta):
                mgroup = "Misc"
                behaviors = set()

            check(False, "Bare without mtype should have raised")
        except AttributeError as e:
            check("mtype" in str(e), "Bare: AttributeError mentions mtype")
        check(len(registry) == n, "Bare not registered")

        # 6. the base class name "Module" keeps its hand-written docstring
        ns = {"__doc__": "kept", "__qualname__": "Module"}
        kept = ModuleMeta("Module", (), ns)
        check(kept.__doc__ == "kept", "class named Module keeps docstring")
        check(kept.controllers == {} and kept.options == {}, "class named Module empty")

        # 7. mixin generated base + Module, like the real concrete classes
        class Amp2(BaseAmplifier, Module):
            mtype = "Amp2"
            extra_ctl = Controller((0, 5), 1)

        check(registry.get("Amp2") is Amp2, "Amp2 registered")
        base_names = [k for k, _ in oracle_controllers(BaseAmplifier)]
        check(list(Amp2.controllers) == base_names + ["extra_ctl"], "Amp2 order")
        check(Amp2.extra_ctl.number == len(base_names) + 1, "Amp2 number")
        check_class_against_oracle(Amp2, "Amp2")
        amp = registry["Amplifier"]
        check(
            [c.number for c in amp.controllers.values()]
            == list(range(1, len(amp.controllers) + 1)),
            "Amplifier numbering undisturbed",
        )
    finally:
        for k in list(registry):
            if k not in before:
                del registry[k]
        registry.update(before)


EXPECTED_DOC_DIGEST = "a0bbfa161296638424db7d3f4bf77835cc9296d8824c87de6f7672b3ca3ee0eb"


def main():
    digest = real_classes()
    check(
        UNDOCUMENTED_ENUMS
        == {("DrumSynth", n) for n in ("BDNOTE", "DRUMNOTE", "HHNOTE", "SDNOTE")},
        "enums without generated docstring: %r" % sorted(UNDOCUMENTED_ENUMS),
    )
    check(digest == EXPECTED_DOC_DIGEST, "docstring digest changed: " + digest)
    synthetic_classes()
    compare_registry_with_spec()
    # instance-level smoke test: n-th stored value maps to the n-th controller
    import rv.modules

    for mtype, cls in rv.modules.MODULE_CLASSES.items():
        mod = cls()
        for k, c in cls.controllers.items():
            want = c.default
            check(mod.controller_values[k] == want, f"{mtype}.{k} instance default")
    if FAILURES:
        print("FAIL (%d of %d checks)" % (len(FAILURES), CHECKS))
        for f in FAILURES[:40]:
            print("  -", f)
        return 1
    print("PASS (%d checks)" % CHECKS)
    return 0


if __name__ == "__main__":
    sys.exit(main())
