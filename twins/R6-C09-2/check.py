import hashlib
import logging
import sys
from enum import Enum

import rv.api  # noqa: F401  (registers every module class)
from rv import errors
from rv.controller import (
    CompactRange,
    Controller,
    DependentRange,
    NoOffsetRange,
    Range,
    WarnOnlyRange,
)
from rv.errors import (
    ControllerValueError,
    RangeValidationError,
    override_raise_controller_value_errors,
)
from rv.modules import MODULE_CLASSES
from rv.modules.module import Module

OBSERVATIONS = []
MISMATCH = set()


def note(*parts):
    OBSERVATIONS.append(" | ".join(str(p) for p in parts))


def check(cond, *msg):
    if not cond:
        print("FAIL:", *msg)
        sys.exit(1)


class Capture(logging.Handler):
    def __init__(self):
        super().__init__(level=logging.DEBUG)
        self.records = []

    def emit(self, record):
        self.records.append(record)

    def drain(self):
        out = [
            (r.name, r.levelname, r.getMessage(), bool(r.exc_info))
            for r in self.records
        ]
        self.records = []
        return out


CAPTURE = Capture()
for logger_name in ("rv.controller", "rv.modules.module"):
    lg = logging.getLogger(logger_name)
    lg.addHandler(CAPTURE)
    lg.setLevel(logging.DEBUG)
    lg.propagate = False


def attempt(fn):
    """Run fn, describe the outcome (value or exception) deterministically."""
    try:
        result = fn()
    except Exception as e:  # noqa: BLE001
        cause = e.__cause__
        return (
            "EXC",
            type(e).__name__,
            repr(e.args),
            type(cause).__name__ if cause is not None else None,
            repr(cause.args) if cause is not None else None,
        )
    return ("OK", repr(result))


EXPECTED_ERRORS = ("ControllerValueError", "KeyError", "ValueError")


def foreign(outcome):
    return outcome[0] == "EXC" and outcome[1] not in EXPECTED_ERRORS


def describe(value):
    return f"{type(value).__name__}:{value!r}"


def candidates(m, name, ctl):
    t = ctl.instance_value_type(m)
    if isinstance(t, Range):
        lo, hi = t.min, t.max
        mid = (lo + hi) // 2
        return t, [lo - 1, lo, lo + 1, mid, hi - 1, hi, hi + 1, lo - 1000, hi + 100000]
    if isinstance(t, type) and issubclass(t, Enum):
        values = []
        for member in t:
            values += [member, member.value, member.name]
        values += ["no_such_member", "", max(x.value for x in t) + 1, -1]
        return t, values
    if t is bool:
        return t, [True, False, 0, 1, 2, "x", ""]
    return t, [0, 1]


def exercise_module_type(mtype, cls):
    fresh = cls()
    check(fresh.controllers is cls.controllers, mtype, "controllers dict identity")
    check(list(fresh.controller_values) != [] or not cls.controllers, mtype)
    check(fresh.controllers_loaded == set(cls.controllers), mtype, "loaded set")
    dependent_seen = False
    order = list(fresh.controller_values)
    independent = [
        k
        for k, c in cls.controllers.items()
        if not isinstance(c.value_type, DependentRange)
    ]
    dependent = [
        k for k, c in cls.controllers.items() if isinstance(c.value_type, DependentRange)
    ]
    check(order == independent + dependent, mtype, "seeding order", order)
    for i, (name, ctl) in enumerate(cls.controllers.items(), 1):
        check(isinstance(ctl, Controller), mtype, name)
        check(ctl.name == name, mtype, name, "name")
        if not (name.startswith("user_defined_") and name != "user_defined_controllers"):
            check(ctl.number == i, mtype, name, "number", ctl.number, i)
            check(ctl.label == name.replace("_", " ").title(), mtype, name, "label")
        default = getattr(fresh, name)
        check(default == ctl.default, mtype, name, "default", default, ctl.default)
        check(fresh.controller_values[name] == ctl.default, mtype, name)
        note(mtype, i, name, ctl.number, repr(ctl.value_type), describe(default))
        if isinstance(ctl.value_type, DependentRange):
            dependent_seen = True
        t, values = candidates(fresh, name, ctl)
        proxy = name.startswith("user_defined_") and name != "user_defined_controllers"
        for strict in (True, False):
            for v in values:
                # attribute assignment
                m = cls()
                before = getattr(m, name)
                with override_raise_controller_value_errors(strict):
                    outcome = attempt(lambda: setattr(m, name, v))
                after = getattr(m, name)
                logs = CAPTURE.drain()
                note(mtype, name, "set", strict, describe(v), outcome, describe(after), logs)
                if proxy or foreign(outcome):
                    # MetaModule user-defined slots proxy to per-instance
                    # controllers; only record what happens.
                    pass
                elif outcome[0] == "EXC":
                    check(after == before and type(after) is type(before), mtype, name, v)
                    if isinstance(t, Range):
                        check(strict, mtype, name, v, "lenient must not raise")
                        check(outcome[1] == "ControllerValueError", mtype, name, outcome)
                        check(outcome[3] == "RangeValidationError", mtype, name, outcome)
                        check(not (t.min <= v <= t.max), mtype, name, v)
                        check(not isinstance(t, WarnOnlyRange), mtype, name, v)
                else:
                    if isinstance(t, Range):
                        check(after == v, mtype, name, v, after)
                        inside = t.min <= v <= t.max
                        if not inside:
                            check(
                                isinstance(t, WarnOnlyRange) or not strict,
                                mtype, name, v, "out-of-range accepted in strict mode",
                            )
                            check(len(logs) == 1 and logs[0][1] == "WARNING", mtype, name, logs)
                        else:
                            check(logs == [], mtype, name, v, logs)
                    elif isinstance(t, type) and issubclass(t, Enum):
                        check(isinstance(after, t), mtype, name, v, after)
                        if isinstance(v, str):
                            check(after is t[v], mtype, name, v)
                        else:
                            check(after == v, mtype, name, v)
                    elif t is bool:
                        check(after is bool(v), mtype, name, v, after)
                # constructor keyword
                with override_raise_controller_value_errors(strict):
                    outcome2 = attempt(lambda: getattr(cls(**{name: v}), name))
                logs2 = CAPTURE.drain()
                note(mtype, name, "kw", strict, describe(v), outcome2, logs2)
                if proxy or foreign(outcome) or foreign(outcome2):
                    # module-specific side effects (callbacks, array-backed
                    # controllers): recorded in the digest, not asserted here.
                    pass
                elif outcome2[0] != outcome[0]:
                    check(False, mtype, name, v, outcome, outcome2)
                elif outcome2[0] == "EXC":
                    check(outcome2[1:] == outcome[1:], mtype, name, v, outcome, outcome2)
                elif outcome2[1] != repr(after):
                    MISMATCH.add((mtype, name))
                # raw round trip
                with override_raise_controller_value_errors(strict):
                    m2 = cls()
                    if outcome[0] == "OK" and not isinstance(v, str):
                        setattr(m2, name, v)
                        CAPTURE.drain()
                        raw = attempt(lambda: m2.get_raw(name))
                        note(mtype, name, "get_raw", strict, describe(v), raw)
                    if isinstance(v, int) and not isinstance(v, (bool, Enum)):
                        m3 = cls()
                        res = attempt(lambda: m3.set_raw(name, v))
                        note(
                            mtype, name, "set_raw", strict, v, res,
                            describe(getattr(m3, name)), CAPTURE.drain(),
                        )
    return dependent_seen


def digest():
    h = hashlib.sha256()
    for line in OBSERVATIONS:
        h.update(line.encode("utf-8"))
        h.update(b"\n")
    return h.hexdigest()


def run_core():
    check(errors.RAISE_CONTROLLER_VALUE_ERRORS is True, "strict by default")
    check(len(MODULE_CLASSES) == 43, "43 module types", len(MODULE_CLASSES))
    total = 0
    any_dependent = False
    for mtype in sorted(MODULE_CLASSES):
        cls = MODULE_CLASSES[mtype]
        total += len(cls.controllers)
        any_dependent |= bool(exercise_module_type(mtype, cls))
    check(total == 603, "controller count", total)
    check(any_dependent, "dependent ranges visited")
    # SpectraVoice's per-harmonic controllers are views on its harmonic arrays,
    # so the constructor re-seeds them; every other pair behaves uniformly.
    check(
        sorted(MISMATCH)
        == [("SpectraVoice", n) for n in ("h_type", "h_volume", "h_width")],
        "constructor/assignment mismatch",
        sorted(MISMATCH),
    )
    check(errors.RAISE_CONTROLLER_VALUE_ERRORS is True, "strictness restored")
    # base Module has no controllers and constructs cleanly
    base = Module()
    check(base.controllers == {} and base.controller_values == {}, "base module")


# --------------------------------------------------------------------------
# Specific to this refactoring: range classes, the out-of-range message used by
# Controller.set_initial and Module.set_raw, pattern values, raw conversions
# --------------------------------------------------------------------------
def run_specific():
    import rv.controller as controller_module
    from rv.errors import (
        RadiantVoicesError,
        raise_or_warn_controller_value_validation,
    )

    # public names stay importable from where they were
    for name in ("Controller", "Range", "WarnOnlyRange", "CompactRange",
                 "NoOffsetRange", "DependentRange", "log"):
        check(hasattr(controller_module, name), "rv.controller." + name)
    check(issubclass(ControllerValueError, ValueError), "error hierarchy")
    check(issubclass(RangeValidationError, RadiantVoicesError), "error hierarchy")
    check(not issubclass(RangeValidationError, ValueError), "error hierarchy")

    # Range family
    specs = [(0, 10), (-5, 5), (-128, 128), (1, 1), (0, 32768), (-100, -10)]
    for kind in (Range, WarnOnlyRange, CompactRange, NoOffsetRange):
        for lo, hi in specs:
            r = kind(lo, hi)
            note("range", kind.__name__, repr(r), r.min, r.max)
            check(r == kind(lo, hi) and not (r != kind(lo, hi)), "eq")
            check(r != kind(lo, hi + 1), "ne")
            for other in (Range, WarnOnlyRange, CompactRange, NoOffsetRange):
                check((r == other(lo, hi)) == (other is kind), "eq across kinds")
            check(r != (lo, hi) and r != None, "eq foreign")  # noqa: E711
            for v in (lo - 2, lo - 1, lo, (lo + hi) // 2, hi, hi + 1, hi + 2, 0.5, True):
                res = attempt(lambda: r(v))
                res2 = attempt(lambda: r.validate(v))
                logs = CAPTURE.drain()
                note("range-call", kind.__name__, lo, hi, describe(v), res, res2, logs)
                inside = lo <= v <= hi
                if inside:
                    check(res == ("OK", repr(v)) and res2 == ("OK", "None") and not logs, "inside")
                elif kind is WarnOnlyRange:
                    check(res == ("OK", repr(v)), "warn only returns value")
                    check(
                        [(l[0], l[1], l[2]) for l in logs]
                        == [("rv.controller", "WARNING", str(RangeValidationError(v, lo, hi)))] * 2,
                        "warn only logs", logs,
                    )
                else:
                    check(res[1] == "RangeValidationError" and res[2] == repr((v, lo, hi)), "raises", res)
                    check(res2[1:3] == res[1:3] and not logs, "validate raises")
                note(
                    "raw", kind.__name__, lo, hi, describe(v),
                    attempt(lambda: r.to_raw_value(v)), attempt(lambda: r.from_raw_value(v)),
                )
            for v in (lo, hi, 0, 7):
                check(r.from_raw_value(r.to_raw_value(v)) == v, "raw round trip")
            if kind is NoOffsetRange:
                check(r.to_raw_value(lo) == lo and r.from_raw_value(lo) == lo, "no offset")
            elif lo < 0:
                check(r.to_raw_value(lo) == 0 and r.from_raw_value(0) == lo, "offset")
            else:
                check(r.to_raw_value(lo) == lo, "no shift for non-negative min")
    nan = float("nan")
    check(Range(0, 1)(nan) is nan, "nan passes both comparisons")
    check(not isinstance(Range(0, 1), WarnOnlyRange), "kinds")
    check(isinstance(WarnOnlyRange(0, 1), Range), "kinds")

    class QuietRange(WarnOnlyRange):
        pass

    class LoudRange(CompactRange):
        pass

    check(QuietRange(0, 1)(5) == 5, "subclass of warn-only range still only warns")
    check(len(CAPTURE.drain()) == 1, "one warning")
    check(attempt(lambda: LoudRange(0, 1)(5))[1] == "RangeValidationError", "subclass raises")

    # tuple shorthand builds a plain Range; order counter advances by one
    c1 = Controller((3, 9), 4)
    c2 = Controller(WarnOnlyRange(3, 9), 4, attached=False)
    check(type(c1.value_type) is Range and c1.value_type == Range(3, 9), "tuple shorthand")
    check(c2._order == c1._order + 1 and Controller._next_order == c2._order + 1, "order")
    check(c1.name is None and c1.number is None and c1.default == 4, "fresh controller")
    check(c1.attached(None) is True and c2.attached(None) is False, "attached")
    check(c1.controller(None) is c1, "controller()")
    check(c1.__get__(None, Module) is c1, "class access yields the descriptor")
    check(c1.__set__(None, 5) is None, "class-level set is ignored")

    # the message: same text from assignment (rv.controller) and from set_raw
    # (rv.modules.module), with the module index in hex when present
    from rv.modules.amplifier import Amplifier
    from rv.modules.multisynth import MultiSynth
    from rv.modules.lfo import Lfo

    for index in (None, 0, 10, 255):
        m = Amplifier(index=index)
        res = attempt(lambda: setattr(m, "volume", 1025))
        want = "{:x}(Amplifier).volume=1025 is not within [0, 1024]".format(index or 0)
        check(res == ("EXC", "ControllerValueError", repr((want,)),
                      "RangeValidationError", repr((1025, 0, 1024))), "set message", res)
        res = attempt(lambda: m.set_raw("volume", 1025))
        check(res[2] == repr((want,)) and res[1] == "ControllerValueError", "set_raw message", res)
        check(m.volume == 256, "previous value remains")
        res = attempt(lambda: Amplifier(index=index, volume=-1))
        check(res[2] == repr(("{:x}(Amplifier).volume=-1 is not within [0, 1024]".format(index or 0),)), res)
        with override_raise_controller_value_errors(False):
            m.volume = 2000
            logs = CAPTURE.drain()
            check(m.volume == 2000, "lenient stores")
            check(logs == [("rv.controller", "WARNING",
                            want.replace("1025", "2000"), True)], "lenient log", logs)
            m.set_raw("volume", 3000)
            logs = CAPTURE.drain()
            check(m.volume == 3000, "lenient set_raw stores")
            check(logs == [("rv.modules.module", "WARNING",
                            want.replace("1025", "3000"), True)], "lenient raw log", logs)
    # signed range through raw values
    a = Amplifier()
    a.set_raw("dc_offset", 0)
    check(a.dc_offset == -128 and a.get_raw("dc_offset") == 0, "signed raw")
    res = attempt(lambda: a.set_raw("dc_offset", 257))
    check(res[2] == repr(("0(Amplifier).dc_offset=129 is not within [-128, 128]",)), res)
    check(a.dc_offset == -128, "previous value remains after set_raw")

    # raise_or_warn itself
    class FakeLog:
        def __init__(self):
            self.calls = []

        def warning(self, *args, **kw):
            self.calls.append((args, kw))

    cause = RangeValidationError(1, 2, 3)
    fake = FakeLog()
    res = attempt(lambda: raise_or_warn_controller_value_validation(cause, fake, "a %s", "b"))
    check(res == ("EXC", "ControllerValueError", repr(("a %s", "b")),
                  "RangeValidationError", repr((1, 2, 3))), res)
    check(fake.calls == [], "strict does not log")
    with override_raise_controller_value_errors(False):
        check(raise_or_warn_controller_value_validation(cause, fake, "a %s", "b") is None, "lenient")
    check(fake.calls == [(("a %s", "b"), {"exc_info": cause})], "lenient logs", fake.calls)
    res = attempt(lambda: override_raise_controller_value_errors(False).__enter__())
    errors.RAISE_CONTROLLER_VALUE_ERRORS = True
    try:
        with override_raise_controller_value_errors(False):
            check(errors.RAISE_CONTROLLER_VALUE_ERRORS is False, "override")
            raise KeyError("x")
    except KeyError:
        pass
    check(errors.RAISE_CONTROLLER_VALUE_ERRORS is True, "restored after exception")

    # pattern values for every controller of every type, at the boundaries
    for mtype in sorted(MODULE_CLASSES):
        cls = MODULE_CLASSES[mtype]
        m = cls()
        for name, ctl in cls.controllers.items():
            t = ctl.instance_value_type(m)
            if isinstance(t, Range):
                probes = [t.min, t.max, (t.min + t.max) // 2, t.min + 1]
            elif isinstance(t, type) and issubclass(t, Enum):
                probes = list(t)
            else:
                probes = [True, False]
            note(
                "pattern", mtype, name, repr(t),
                [attempt(lambda: ctl.pattern_value(m, v)) for v in probes],
            )
            if isinstance(t, Range) and not isinstance(t, CompactRange) and t.max > t.min:
                check(ctl.pattern_value(m, t.min) == 0, mtype, name, "pattern min")
                check(ctl.pattern_value(m, t.max) == 0x8000, mtype, name, "pattern max")
    ms = MultiSynth()
    check(MultiSynth.transpose.pattern_value(ms, -2) == 126, "compact range is only shifted")

    # dependent ranges follow the unit controller
    lfo = Lfo()
    note("lfo", repr(Lfo.freq.instance_value_type(lfo)), lfo.freq)
    for unit in Lfo.FrequencyUnit:
        lfo.frequency_unit = unit
        t = Lfo.freq.instance_value_type(lfo)
        check(isinstance(t, WarnOnlyRange), "dependent range kind")
        lfo.freq = t.max + 1
        logs = CAPTURE.drain()
        check(lfo.freq == t.max + 1 and len(logs) == 1, "advisory limit", unit, logs)
        note("lfo", unit, repr(t), logs)
        lfo.freq = t.min
    bare = Lfo.__new__(Lfo)
    bare.controllers_loaded = set()
    bare.controller_values = {}
    check(Lfo.freq.instance_value_type(bare) is Lfo.freq.value_type.default, "not loaded")
    bare.controllers_loaded = {"frequency_unit"}
    check(Lfo.freq.instance_value_type(bare) is Lfo.freq.value_type.default, "no value")
    check(repr(Lfo.freq.value_type) == "<DependentRange (varies)>", "repr")


EXPECTED_DIGEST = "65b90f6ebc60b685e485769738a8b2b38fecd6bc89e3f576fdbd4947c52f42e0"

if __name__ == "__main__":
    run_core()
    run_specific()
    actual = digest()
    if "--print-digest" in sys.argv:
        print(len(OBSERVATIONS), actual)
        sys.exit(0)
    check(actual == EXPECTED_DIGEST, "observation digest changed", actual)
    print("PASS", len(OBSERVATIONS), "observations")
