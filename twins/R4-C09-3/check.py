"""Behaviour check for C09 refactoring 3.

Covers ModuleMeta's controller/option registration (definition order,
numbering from 1, labels, inheritance, aliases), the strictness switch in
rv.errors (raise_or_warn_controller_value_validation and the override context
manager), and value-type resolution (Controller.instance_value_type,
DependentRange.parent) for every module type.  A transcript of all outcomes
is compared against a digest recorded on the unrefactored tree.
"""
import hashlib
import logging
import sys
from enum import Enum, IntEnum

import rv.api  # noqa: F401  (registers all module classes)
from rv import errors
from rv.controller import Controller, DependentRange, Range, WarnOnlyRange
from rv.errors import (
    ControllerValueError,
    RangeValidationError,
    override_raise_controller_value_errors,
    raise_or_warn_controller_value_validation,
)
from rv.modules import MODULE_CLASSES
from rv.modules.module import Module
from rv.option import Option

EXPECTED_DIGEST = "8fee7060a924df0ef9f27332084bcb1d0ce2b28dc7b8f8224582f58effc756a1"

transcript = []
failures = []


def note(*parts):
    transcript.append("|".join(str(p) for p in parts))


def check(cond, msg):
    if not cond:
        failures.append(msg)


def show(v):
    if isinstance(v, Enum):
        return f"{type(v).__name__}.{v.name}"
    return f"{type(v).__name__}:{v!r}"


def attempt(fn):
    try:
        fn()
    except BaseException as e:  # noqa: BLE001
        cause, ctx = e.__cause__, e.__context__
        return "EXC {} {!r} cause={} {!r} ctx={} suppress={}".format(
            type(e).__name__,
            e.args,
            type(cause).__name__ if cause is not None else None,
            getattr(cause, "args", None),
            type(ctx).__name__ if ctx is not None else None,
            e.__suppress_context__,
        )
    return "OK"


class Capture(logging.Handler):
    def __init__(self):
        super().__init__(level=logging.DEBUG)
        self.records = []

    def emit(self, record):
        exc = record.exc_info[1] if record.exc_info else None
        self.records.append(
            (record.name, record.levelname, record.getMessage(), type(exc).__name__ if exc else None)
        )

    def drain(self):
        out, self.records = self.records, []
        return out


capture = Capture()
rv_logger = logging.getLogger("rv")
rv_logger.addHandler(capture)
rv_logger.setLevel(logging.DEBUG)
rv_logger.propagate = False


# --------------------------------------------------------------- registration


def exercise_registered_class(cls):
    names = list(cls.controllers)
    note("CLASS", cls.__name__, cls.mtype, names, list(cls.options))
    note("DOC", cls.__doc__)
    orders = [c._order for c in cls.controllers.values()]
    check(orders == sorted(orders), f"{cls.__name__}: controllers in definition order")
    check(len(set(orders)) == len(orders), f"{cls.__name__}: distinct controllers")
    expected = {
        k for k in dir(cls) if isinstance(getattr(cls, k), Controller)
    }
    check(set(names) == expected, f"{cls.__name__}: every Controller attribute registered")
    check(MODULE_CLASSES[cls.mtype] is cls, f"{cls.__name__}: registry")
    for i, (name, ctl) in enumerate(cls.controllers.items(), 1):
        note("CTL", name, ctl.number, ctl.label, repr(ctl.value_type), show(ctl.default), ctl._order)
        check(ctl.name == name, f"{cls.__name__}.{name}: name")
        check(ctl.number == i, f"{cls.__name__}.{name}: number {ctl.number} != {i}")
        check(ctl.label == name.replace("_", " ").title(), f"{cls.__name__}.{name}: label")
        check(getattr(cls, name) is ctl, f"{cls.__name__}.{name}: descriptor identity")
    for name, option in cls.options.items():
        note("OPT", name, type(option).__name__, getattr(option, "name", None))
        check(isinstance(option, Option) and getattr(cls, name) is option, "option identity")
    check(
        set(cls.options) == {k for k in dir(cls) if isinstance(getattr(cls, k), Option)},
        f"{cls.__name__}: every Option attribute registered",
    )
    check(list(cls.options) == sorted(cls.options), f"{cls.__name__}: options in dir() order")
    # value type resolution on a fresh instance
    mod = cls()
    capture.drain()
    for name, ctl in cls.controllers.items():
        t = ctl.instance_value_type(mod)
        note("IVT", name, repr(t))
        if isinstance(ctl.value_type, DependentRange):
            check(isinstance(t, WarnOnlyRange), f"{cls.__name__}.{name}: resolved range")
            governing = ctl.value_type.ctl_name
            for member in type(getattr(mod, governing)):
                setattr(mod, governing, member)
                resolved = ctl.instance_value_type(mod)
                note("IVT-DEP", name, member.name, repr(resolved))
                check(resolved is ctl.value_type.range_map[member], "range follows governor")
        elif type(ctl).__name__ != "UserDefinedProxy":
            check(t is ctl.value_type, f"{cls.__name__}.{name}: plain value type")


def exercise_dynamic_classes():
    class Kind(IntEnum):
        a = 0
        b = 1

    kind_enum = Kind
    zeta = Controller((0, 10), 5)
    alpha = Controller(Kind, Kind.b)
    mid = Controller(bool, True)

    class Base(Module):
        name = mtype = "C09 Dyn Base"
        mgroup = "Test"
        flags = 0
        behaviors = set()
        Kind = kind_enum
        # definition order deliberately differs from alphabetical order
        zeta_level = zeta
        alpha_kind = alpha
        mid_flag = mid
        an_option = Option("an_option", 0, 0, 1, False)
        not_a_controller = 3

    note("DYN-BASE", list(Base.controllers), [c.number for c in Base.controllers.values()])
    check(list(Base.controllers) == ["zeta_level", "alpha_kind", "mid_flag"], "definition order")
    check([c.number for c in Base.controllers.values()] == [1, 2, 3], "numbered from 1")
    check(zeta.label == "Zeta Level" and zeta.name == "zeta_level", "label/name")
    check(list(Base.options) == ["an_option"], "options")
    check(MODULE_CLASSES["C09 Dyn Base"] is Base, "registered by mtype")
    check(Kind.__doc__.startswith("An enumeration."), "enum docstring table")
    note("DYN-DOC", Base.__doc__, Kind.__doc__)

    late = Controller((-4, 4), 0)

    class Child(Base):
        name = mtype = "C09 Dyn Child"
        extra = late
        first_alias = zeta  # same controller under a second, earlier-sorting name

    note("DYN-CHILD", list(Child.controllers), [(c.name, c.number) for c in Child.controllers.values()])
    check(
        list(Child.controllers) == ["first_alias", "zeta_level", "alpha_kind", "mid_flag", "extra"],
        f"inherited first, aliases in name order: {list(Child.controllers)}",
    )
    check(zeta.name == "zeta_level" and zeta.number == 2, "last alias names the controller")
    check(late.number == 5 and late.label == "Extra", "appended controller")
    check(list(Base.controllers) == ["zeta_level", "alpha_kind", "mid_flag"], "base untouched")
    check(Child.options == Base.options and Child.options is not Base.options, "options copied")

    class NoCtl(Module):
        name = mtype = "C09 Dyn Empty"
        mgroup = "Test"
        flags = 0

    check(NoCtl.controllers == {} and NoCtl.options == {}, "empty class")
    check(NoCtl.controllers is not Module.controllers, "own dict per class")
    note("DYN-EMPTY", NoCtl.__doc__)

    class Unregistered(Module):
        mtype = None
        mgroup = "Test"

    check(None not in MODULE_CLASSES, "falsy mtype is not registered")
    inst = Child(alpha_kind="a", zeta_level=10)
    check(inst.alpha_kind is Kind.a and inst.zeta_level == 10 and inst.extra == 0, "instance")
    check(inst.first_alias == 10, "alias reads the shared slot")
    note("DYN-INST", attempt(lambda: setattr(inst, "extra", 5)), inst.controller_values)
    for k in ("C09 Dyn Base", "C09 Dyn Child", "C09 Dyn Empty"):
        del MODULE_CLASSES[k]


# ------------------------------------------------------------ strictness flag


class FakeLog:
    def __init__(self):
        self.calls = []

    def warning(self, *args, **kwargs):
        self.calls.append((args, sorted(kwargs.items(), key=lambda kv: kv[0])))


def exercise_errors():
    check(errors.RAISE_CONTROLLER_VALUE_ERRORS is True, "strict by default")
    check(errors.RAISE_RANGE_ERRORS_ON_READ is False, "lenient on read by default")
    check(issubclass(ControllerValueError, ValueError), "ControllerValueError is a ValueError")
    check(not issubclass(RangeValidationError, ValueError), "RangeValidationError is not")
    src = RangeValidationError(300, 0, 256)
    for argset in (("one message",), ("fmt %s %s", 1, 2), ()):
        log = FakeLog()
        outcome = attempt(lambda: raise_or_warn_controller_value_validation(src, log, *argset))
        note("ERR-STRICT", argset, outcome, log.calls)
        check(outcome.startswith(f"EXC ControllerValueError {argset!r}"), f"strict raises: {outcome}")
        check("cause=RangeValidationError (300, 0, 256)" in outcome, "chained to the cause")
        check(log.calls == [], "nothing logged when raising")
        with override_raise_controller_value_errors(False):
            holder = {}

            def run():
                holder["r"] = raise_or_warn_controller_value_validation(src, log, *argset)

            outcome = attempt(run)
        note("ERR-LENIENT", argset, outcome, [(a, [(k, type(v).__name__) for k, v in kw]) for a, kw in log.calls])
        if argset:
            check(outcome == "OK" and holder["r"] is None, f"lenient returns None: {outcome}")
            check(len(log.calls) == 1 and log.calls[0][0] == argset, "args passed through")
            check(log.calls[0][1] == [("exc_info", src)], "exc_info is the cause")
    # raised from inside an except block, like the library does
    def inside_handler():
        try:
            raise src
        except RangeValidationError as e:
            raise_or_warn_controller_value_validation(e, FakeLog(), "m")

    note("ERR-HANDLER", attempt(inside_handler))
    # real logger, lenient
    with override_raise_controller_value_errors(False):
        raise_or_warn_controller_value_validation(src, logging.getLogger("rv.c09"), "x=%d", 7)
    logs = capture.drain()
    note("ERR-LOG", logs)
    check(logs == [("rv.c09", "WARNING", "x=7", "RangeValidationError")], f"log record {logs}")

    # context manager: nesting, truthy values, restoration after errors, reuse
    seen = []
    with override_raise_controller_value_errors(False):
        seen.append(errors.RAISE_CONTROLLER_VALUE_ERRORS)
        with override_raise_controller_value_errors(True):
            seen.append(errors.RAISE_CONTROLLER_VALUE_ERRORS)
            with override_raise_controller_value_errors(0):
                seen.append(errors.RAISE_CONTROLLER_VALUE_ERRORS)
            seen.append(errors.RAISE_CONTROLLER_VALUE_ERRORS)
        seen.append(errors.RAISE_CONTROLLER_VALUE_ERRORS)
    seen.append(errors.RAISE_CONTROLLER_VALUE_ERRORS)
    note("CM", seen)
    check(seen == [False, True, 0, True, False, True], f"nesting {seen}")
    cm = override_raise_controller_value_errors(False)
    check(errors.RAISE_CONTROLLER_VALUE_ERRORS is True, "creating the manager changes nothing")
    check(cm.__enter__() is None, "yields None")
    check(errors.RAISE_CONTROLLER_VALUE_ERRORS is False, "entered")
    cm.__exit__(None, None, None)
    check(errors.RAISE_CONTROLLER_VALUE_ERRORS is True, "exited")

    def boom():
        with override_raise_controller_value_errors(False):
            raise KeyError("inside")

    note("CM-EXC", attempt(boom))
    check(errors.RAISE_CONTROLLER_VALUE_ERRORS is True, "restored after an exception")

    @override_raise_controller_value_errors(False)
    def decorated():
        return errors.RAISE_CONTROLLER_VALUE_ERRORS

    check(decorated() is False and decorated() is False, "usable as a decorator, repeatedly")
    check(errors.RAISE_CONTROLLER_VALUE_ERRORS is True, "restored after decorated call")

    # end to end through a module
    from rv.modules.amplifier import Amplifier

    amp = Amplifier(index=0x2A)
    outcome = attempt(lambda: setattr(amp, "volume", 1025))
    note("E2E-STRICT", outcome, amp.volume, capture.drain())
    check(outcome.startswith("EXC ControllerValueError") and amp.volume == 256, "strict e2e")
    check("2a(Amplifier).volume=1025 is not within [0, 1024]" in outcome, "message")
    with override_raise_controller_value_errors(False):
        outcome = attempt(lambda: setattr(amp, "volume", 1025))
    logs = capture.drain()
    note("E2E-LENIENT", outcome, amp.volume, logs)
    check(outcome == "OK" and amp.volume == 1025 and len(logs) == 1, "lenient e2e")
    with override_raise_controller_value_errors(False):
        outcome = attempt(lambda: amp.set_raw("balance", 300))
    note("E2E-RAW", outcome, amp.balance, capture.drain())


# ------------------------------------------------------- value type resolution


class Stub:
    def __init__(self, loaded, values):
        self.controllers_loaded = loaded
        self.controller_values = values


def exercise_dependent_range():
    default, one, two = Range(0, 1), Range(0, 10), WarnOnlyRange(5, 6)
    dep = DependentRange("unit", {1: one, 2: two, 0: default, False: one}, default)
    cases = [
        (None, {"unit": 1}, default),
        (set(), {"unit": 1}, default),
        ([], {"unit": 1}, default),
        ({"other"}, {"unit": 1}, default),
        ({"unit"}, {}, default),
        ({"unit"}, {"unit": None}, default),
        ({"unit"}, {"unit": 1}, one),
        ({"unit", "other"}, {"unit": 2}, two),
        (["unit"], {"unit": 2}, two),
        ({"unit"}, {"unit": 0}, one),  # 0 == False: later key's value wins in the map
    ]
    for loaded, values, expected in cases:
        got = dep.parent(Stub(loaded, values))
        note("DEP", loaded if loaded is None else sorted(loaded), values, repr(got))
        check(got is expected, f"DependentRange.parent({loaded}, {values}) -> {got!r}")
    outcome = attempt(lambda: dep.parent(Stub({"unit"}, {"unit": 9})))
    note("DEP-MISSING", outcome)
    check(outcome.startswith("EXC KeyError (9,)"), "unknown governing value is a KeyError")

    plain = Controller((1, 3), 2)
    check(plain.instance_value_type(object()) is plain.value_type, "plain type for any instance")
    via = Controller(dep, 0)
    check(via.instance_value_type(Stub({"unit"}, {"unit": 2})) is two, "resolved through parent()")

    class Odd:
        """A value type whose resolver itself fails with AttributeError."""

        def parent(self, instance):
            return instance.no_such_attribute

    outcome = attempt(lambda: Controller(Odd(), 0).instance_value_type(object()))
    note("IVT-ODD", outcome)
    check(outcome.startswith("EXC AttributeError"), "resolver errors are not swallowed")
    check(Controller(bool, False).instance_value_type(None) is bool, "bool")
    check(Controller(None, None).instance_value_type(None) is None, "None value type")


def main():
    names = sorted(MODULE_CLASSES, key=str)
    note("TYPES", len(names), sum(len(MODULE_CLASSES[n].controllers) for n in names))
    for mtype in names:
        exercise_registered_class(MODULE_CLASSES[mtype])
    exercise_dynamic_classes()
    exercise_errors()
    exercise_dependent_range()
    check(errors.RAISE_CONTROLLER_VALUE_ERRORS is True, "strict flag restored")
    digest = hashlib.sha256("\n".join(transcript).encode("utf-8")).hexdigest()
    if "--digest" in sys.argv:
        print(digest, len(transcript))
        return 0
    if digest != EXPECTED_DIGEST:
        failures.append(f"transcript digest {digest} != recorded {EXPECTED_DIGEST}")
    if failures:
        print("FAIL")
        for f in failures[:40]:
            print("  -", f)
        print(f"  ({len(failures)} failures, {len(transcript)} transcript lines)")
        return 1
    print(f"PASS ({len(transcript)} observations over {len(names)} module types)")
    return 0


if __name__ == "__main__":
    sys.exit(main())
