"""Behaviour check for refactoring C05-3 (property C05: re-saving is stable).

Run from the repository root:
    PYTHONPATH=<root>/src/python python check.py
"""
import glob
import hashlib
import io
import logging
import os
import random
import struct
import sys

logging.disable(logging.CRITICAL)

from rv.api import read_sunvox_file  # noqa: E402
from rv.lib.iff import chunks, write_chunk  # noqa: E402

ROOT = os.getcwd()
FIXTURES = sorted(
    glob.glob(os.path.join(ROOT, "tests", "files", "**", "*.sun*"), recursive=True)
)
assert len(FIXTURES) >= 50, "run from the repository root (tests/files not found)"

FAILURES = []


def expect(cond, msg):
    if not cond:
        FAILURES.append(msg)


def save(obj):
    f = io.BytesIO()
    obj.write_to(f)
    return f.getvalue()


def load(data):
    return read_sunvox_file(io.BytesIO(data))


def split(data):
    return list(chunks(io.BytesIO(data)))


def join(chunk_list):
    f = io.BytesIO()
    for name, data in chunk_list:
        write_chunk(f, name, data)
    return f.getvalue()


def modules_of(obj):
    if hasattr(obj, "modules"):
        return [m for m in obj.modules if m is not None]
    return [obj.module]


def snapshot(obj):
    out = []
    for m in modules_of(obj):
        out.append(
            (
                m.mtype,
                m.index,
                sorted((k, repr(v)) for k, v in m.controller_values.items()),
                list(m.in_links),
                list(m.in_link_slots),
                list(m.out_links),
                list(m.out_link_slots),
                sorted((k, repr(v)) for k, v in m.option_values.items()),
                sorted(m.controllers_loaded),
            )
        )
    return out


CVALS = [-1, 0, 1, 127, 128, 255, 256, 300, 32768, 32769, 65535, 100000,
         -129, -32768, 2**31 - 1, -(2**31)]


def cval_positions(chunk_list):
    return [i for i, (name, _) in enumerate(chunk_list) if name == b"CVAL"]


def with_cval(chunk_list, pos, value):
    out = list(chunk_list)
    out[pos] = (b"CVAL", struct.pack("<i", value))
    return out


def robust_positions(chunk_list):
    """CVAL positions whose controller tolerates arbitrary stored values on load
    (enum-typed controllers reject unknown values with ValueError)."""
    good = []
    for pos in cval_positions(chunk_list):
        try:
            load(join(with_cval(chunk_list, pos, 99999)))
            load(join(with_cval(chunk_list, pos, -99999)))
        except Exception:  # noqa
            continue
        good.append(pos)
    return good


def mutate_cvals(chunk_list, rng, positions, p=0.5):
    out = list(chunk_list)
    for pos in positions:
        if rng.random() < p:
            out[pos] = (b"CVAL", struct.pack("<i", rng.choice(CVALS)))
    return out


def mutate_links(chunk_list, mode, rng):
    """mode 0: append trailing -1 entries; 1: insert -1 and drop SLnK;
    2: replace links by only -1 entries; 3: zero all SLnK slots (inconsistent
    file: known to need one extra cycle to settle); 4: drop SLnK."""
    out = []
    for name, data in chunk_list:
        if name == b"SLNK":
            if mode == 0:
                data = data + struct.pack("<i", -1) * rng.randrange(1, 4)
            elif mode == 1 and len(data) >= 8:
                data = data[:4] + struct.pack("<i", -1) + data[4:]
            elif mode == 2:
                data = struct.pack("<i", -1) * rng.randrange(0, 3)
        if name == b"SLnK":
            if mode == 0:
                data = data + struct.pack("<i", -1) * rng.randrange(1, 4)
            elif mode == 1:
                continue
            elif mode == 3:
                data = b"\0" * len(data)
            elif mode == 4:
                continue
        out.append((name, data))
    return out


def cycle(x, digest, label, stats, strict=True):
    """Load x, save repeatedly; fold everything observable into digest."""
    try:
        obj = load(x)
    except Exception as e:  # noqa
        digest.update(("EXC:" + type(e).__name__).encode())
        stats["load_exc"] += 1
        return
    before = snapshot(obj)
    try:
        y = save(obj)
    except Exception as e:  # noqa
        digest.update(("SAVEEXC:" + type(e).__name__).encode())
        stats["save_exc"] += 1
        return
    after = snapshot(obj)
    y_again = save(obj)
    expect(before == after, label + ": save changed the object")
    expect(y == y_again, label + ": saving twice gave different bytes")
    digest.update(repr(before).encode())
    digest.update(y)
    prev = y
    for n in range(3):
        try:
            nxt = save(load(prev))
        except Exception as e:  # noqa
            digest.update(("CYCEXC:" + type(e).__name__).encode())
            stats["cycle_exc"] += 1
            return
        if nxt != prev:
            stats["drift"] += 1
            expect(not strict, "%s: drift at cycle %d" % (label, n + 2))
        digest.update(nxt)
        prev = nxt
    stats["ok"] += 1


def generated_projects():
    """Projects built through the API: fan-in/fan-out links (non-zero slots, so
    SLnK is written), disconnected links (-1 in the middle and trailing), fully
    disconnected modules, and a plain chain (SLnK elided)."""
    from rv.api import NOTE, Pattern, Project, m

    out = []
    p = Project()
    g1 = p.new_module(m.Generator)
    g2 = p.new_module(m.AnalogGenerator)
    a = p.new_module(m.Amplifier, dc_offset=-100, balance=-128)
    f = p.new_module(m.Filter)
    e = p.new_module(m.Echo)
    g1 >> a
    g1 >> f
    g2 >> a
    g2 >> f
    a >> e
    f >> e
    e >> p.output
    a >> p.output
    out.append(("gen:fan", p))
    p = Project()
    g1 = p.new_module(m.Generator)
    g2 = p.new_module(m.Generator)
    g3 = p.new_module(m.Generator)
    a = p.new_module(m.Amplifier)
    g1 >> a
    g2 >> a
    g3 >> a
    a >> p.output
    g1 >> p.output
    p.connect(~g3, a)
    p.connect(~g1, a)
    out.append(("gen:disconnected", p))
    p = Project()
    g1 = p.new_module(m.Generator)
    a = p.new_module(m.Amplifier)
    g1 >> a >> p.output
    p.connect(~g1, a)
    p.connect(~a, p.output)
    out.append(("gen:all-disconnected", p))
    p = Project()
    g1 = p.new_module(m.Generator)
    a = p.new_module(m.Amplifier, dc_offset=128)
    g1 >> a >> p.output
    pat = Pattern(tracks=2, lines=4)
    p.attach_pattern(pat)
    pat.data[0][0].note = NOTE.C4
    pat.data[0][0].module = g1.index + 1
    out.append(("gen:chain", p))
    return [(name, save(proj)) for name, proj in out]


def corpus():
    for path in FIXTURES:
        with open(path, "rb") as f:
            yield os.path.relpath(path, ROOT).replace(os.sep, "/"), f.read()
    yield from generated_projects()


def corpus_digest(seeds=(1, 2, 3)):
    digest = hashlib.sha256()
    stats = dict(load_exc=0, save_exc=0, cycle_exc=0, drift=0, ok=0, cvals=0, robust=0)
    for rel, x in corpus():
        cycle(x, digest, rel, stats)
        cl = split(x)
        all_pos = cval_positions(cl)
        good = robust_positions(cl)
        stats["cvals"] += len(all_pos)
        stats["robust"] += len(good)
        for pos in all_pos:
            for v in (300, -7):
                cycle(join(with_cval(cl, pos, v)), digest, "%s @%d=%d" % (rel, pos, v), stats)
        for seed in seeds:
            rng = random.Random("%s/%d" % (rel, seed))
            cycle(join(mutate_cvals(cl, rng, good)), digest, "%s cval#%d" % (rel, seed), stats)
            for mode in range(5):
                cycle(
                    join(mutate_links(cl, mode, rng)),
                    digest,
                    "%s link#%d/%d" % (rel, seed, mode),
                    stats,
                    strict=mode != 3,
                )
            mode = rng.choice((0, 1, 2, 4))
            cycle(
                join(mutate_links(mutate_cvals(cl, rng, good, 1.0), mode, rng)),
                digest,
                "%s both#%d" % (rel, seed),
                stats,
            )
    return digest.hexdigest(), stats


def finish():
    if FAILURES:
        for f in FAILURES[:40]:
            print("FAIL:", f)
        print("FAILED (%d)" % len(FAILURES))
        sys.exit(1)
    print("PASS")


# --------------------------------------------------------------------------
# Specific to this refactoring: read_sunvox_file, ModuleReader.process_SEND,
# SunVoxReader.process_end_of_file, override_raise_controller_value_errors
# --------------------------------------------------------------------------
class _Capture(logging.Handler):
    def __init__(self):
        super().__init__(level=logging.DEBUG)
        self.records = []

    def emit(self, record):
        self.records.append(record)


class capture_logs:
    def __init__(self, name):
        self.log = logging.getLogger(name)

    def __enter__(self):
        logging.getLogger("rv").addHandler(logging.NullHandler())
        self.handler = _Capture()
        self.old_level = self.log.level
        self.log.addHandler(self.handler)
        self.log.setLevel(logging.DEBUG)
        logging.disable(logging.NOTSET)
        return self.handler.records

    def __exit__(self, *exc):
        logging.disable(logging.CRITICAL)
        self.log.removeHandler(self.handler)
        self.log.setLevel(self.old_level)


def i32(*values):
    return struct.pack("<%di" % len(values), *values)


def check_read_sunvox_file():
    import pathlib
    import tempfile

    import rv.errors
    from rv.errors import ControllerValueError, override_raise_controller_value_errors
    from rv.project import Project
    from rv.synth import Synth

    opened = []
    real_open = pathlib.Path.open

    def recording_open(self, *a, **kw):
        fh = real_open(self, *a, **kw)
        opened.append((a, fh))
        return fh

    src = os.path.join(ROOT, "tests", "files", "amplifier.sunsynth")
    with open(src, "rb") as f:
        x = f.read()
    cl = split(x)
    out_of_range = join(with_cval(cl, cval_positions(cl)[2], 300))
    broken = x[: len(x) // 2].replace(b"Amplifier", b"Nonesuch!")
    pathlib.Path.open = recording_open
    try:
        with tempfile.TemporaryDirectory() as tmp:
            good = os.path.join(tmp, "oor.sunsynth")
            bad = os.path.join(tmp, "bad.sunsynth")
            with open(good, "wb") as f:
                f.write(out_of_range)
            with open(bad, "wb") as f:
                f.write(broken)
            for arg in (good, pathlib.Path(good)):
                del opened[:]
                obj = read_sunvox_file(arg)
                expect(isinstance(obj, Synth), "synth from %r" % type(arg))
                expect(obj.module.dc_offset == 172, "out-of-range value kept on read")
                expect(len(opened) == 1 and opened[0][0] == ("rb",), "opened once, binary")
                expect(opened[0][1].closed, "file opened by name is closed")
                expect(rv.errors.RAISE_CONTROLLER_VALUE_ERRORS is True, "flag restored")
            for arg in (bad, pathlib.Path(bad)):
                del opened[:]
                try:
                    read_sunvox_file(arg)
                except KeyError:
                    pass
                else:
                    expect(False, "unknown module type accepted")
                expect(len(opened) == 1 and opened[0][1].closed, "closed after a failure")
                expect(rv.errors.RAISE_CONTROLLER_VALUE_ERRORS is True, "flag restored on error")
            try:
                read_sunvox_file(os.path.join(tmp, "missing.sunvox"))
            except FileNotFoundError:
                pass
            else:
                expect(False, "missing file accepted")
            expect(rv.errors.RAISE_CONTROLLER_VALUE_ERRORS is True, "flag restored (missing)")
            # file objects given by the caller stay open
            del opened[:]
            with open(good, "rb") as fh:
                obj = read_sunvox_file(fh)
                expect(not fh.closed, "caller's file object must stay open")
                expect(obj.module.dc_offset == 172, "read from file object")
            bio = io.BytesIO(out_of_range)
            obj = read_sunvox_file(bio)
            expect(not bio.closed and obj.module.dc_offset == 172, "read from BytesIO")
            expect(opened == [], "Path.open not used for file objects")
    finally:
        pathlib.Path.open = real_open
    # reading is lenient even when invoked from a lenient or strict context,
    # and puts back whatever was there
    with override_raise_controller_value_errors(False):
        load(out_of_range)
        expect(rv.errors.RAISE_CONTROLLER_VALUE_ERRORS is False, "nested restore (False)")
    expect(rv.errors.RAISE_CONTROLLER_VALUE_ERRORS is True, "restore (True)")
    # ... but only if RAISE_RANGE_ERRORS_ON_READ says so
    import rv.readers.reader as reader_mod

    old = reader_mod.RAISE_RANGE_ERRORS_ON_READ
    reader_mod.RAISE_RANGE_ERRORS_ON_READ = True
    try:
        try:
            load(out_of_range)
        except ControllerValueError as e:
            expect(
                e.args == ("0(Amplifier).dc_offset=172 is not within [-128, 128]",),
                "strict read message %r" % (e.args,),
            )
        else:
            expect(False, "strict read accepted an out-of-range value")
    finally:
        reader_mod.RAISE_RANGE_ERRORS_ON_READ = old
    expect(rv.errors.RAISE_CONTROLLER_VALUE_ERRORS is True, "restore after strict read")
    # the context manager itself
    for value in (False, True, 0, "x"):
        with override_raise_controller_value_errors(value):
            expect(rv.errors.RAISE_CONTROLLER_VALUE_ERRORS is value, "override value")
            try:
                with override_raise_controller_value_errors(not value):
                    raise KeyError("k")
            except KeyError:
                pass
            expect(rv.errors.RAISE_CONTROLLER_VALUE_ERRORS is value, "restore after raise")
        expect(rv.errors.RAISE_CONTROLLER_VALUE_ERRORS is True, "outer restore")
    expect(isinstance(load(x), Synth) and isinstance(load(generated_projects()[0][1]), Project), "types")


def check_process_send():
    src = os.path.join(ROOT, "tests", "files", "amplifier.sunsynth")
    with open(src, "rb") as f:
        cl = split(f.read())
    pos = cval_positions(cl)
    names = None
    with capture_logs("rv.readers.module") as records:
        obj = load(join(cl))
        names = list(obj.module.controllers)
        msgs = [r.getMessage() for r in records if r.levelno == logging.DEBUG]
    raws = [struct.unpack("<i", cl[p][1])[0] for p in pos]
    expect(len(names) == len(pos), "amplifier fixture has one CVAL per controller")
    want = ["Setting %s from raw %d" % (n, r) for n, r in zip(names, raws)][::-1]
    expect(msgs == want, "controllers applied last to first: %r" % (msgs,))
    expect(obj.module.controllers_loaded == set(names), "controllers_loaded")
    # more stored values than controllers: extra ones are reported and skipped
    extra = list(cl)
    extra[pos[-1] + 1 : pos[-1] + 1] = [(b"CVAL", i32(111)), (b"CVAL", i32(-222))]
    with capture_logs("rv.readers.module") as records:
        obj2 = load(join(extra))
        got = [(r.levelno, r.getMessage()) for r in records]
    n = len(names)
    want2 = [
        (logging.WARNING, "Unsupported controller at index %d with raw value -222" % (n + 1)),
        (logging.WARNING, "Unsupported controller at index %d with raw value 111" % n),
    ] + [(logging.DEBUG, w) for w in want]
    expect(got == want2, "extra CVAL handling: %r" % (got,))
    expect(snapshot(obj2) == snapshot(obj), "extra CVALs do not change the module")
    expect(save(obj2) == save(obj), "extra CVALs are not saved")
    # fewer stored values than controllers: the others keep defaults
    fewer = [c for i, c in enumerate(cl) if i not in pos[2:]]
    obj3 = load(join(fewer))
    expect(obj3.module.controllers_loaded == set(names), "partial controllers_loaded")
    from rv.api import m

    defaults = m.Amplifier()
    for name in names[2:]:
        expect(getattr(obj3.module, name) == getattr(defaults, name), "default for " + name)
    for name in names[:2]:
        expect(getattr(obj3.module, name) == getattr(obj.module, name), "loaded " + name)
    none = [c for i, c in enumerate(cl) if i not in pos]
    obj4 = load(join(none))
    expect(obj4.module.controllers_loaded == set(names), "no CVAL at all")
    expect(obj4.module.controller_values == defaults.controller_values, "all defaults")
    # a failing value stops the load with the enum's own error; values after it
    # (applied earlier) do not matter
    gsrc = os.path.join(ROOT, "tests", "files", "generator.sunsynth")
    with open(gsrc, "rb") as f:
        gcl = split(f.read())
    gpos = cval_positions(gcl)
    try:
        load(join(with_cval(gcl, gpos[1], 9999)))  # waveform
    except ValueError:
        pass
    else:
        expect(False, "bad enum accepted on read")


def tiny_project(link_chunks_by_module, extra_tail=(), vers=None):
    """Take the generated chain project (Output <- Amplifier <- Generator) and
    replace the link chunks of each module."""
    base = dict(generated_projects())["gen:chain"]
    out, idx = [], 0
    for name, data in split(base):
        if name == b"VERS" and vers is not None:
            data = struct.pack("BBBB", *reversed(vers))
        if name in (b"SLNK", b"SLnK"):
            if name == b"SLNK":
                out.extend(link_chunks_by_module[idx])
            continue
        if name == b"SEND":
            idx += 1
        out.append((name, data))
    out.extend(extra_tail)
    return join(out)


def link_state(project):
    return [
        None
        if mod is None
        else (list(mod.in_links), list(mod.in_link_slots), list(mod.out_links), list(mod.out_link_slots))
        for mod in project.modules
    ]


def check_end_of_file():
    # modules: 0 Output, 1 Generator, 2 Amplifier
    E = (b"SLNK", b"")
    cases = [
        # plain chain, slots rebuilt
        ([[(b"SLNK", i32(2))], [E], [(b"SLNK", i32(1))]],
         [([2], [0], [], []), ([], [], [2], [0]), ([1], [0], [0], [0])]),
        # fan-out from the generator: non-output modules first, then output
        ([[(b"SLNK", i32(2, 1))], [E], [(b"SLNK", i32(1))]],
         [([2, 1], [0, 1], [], []), ([], [], [2, 0], [0, 1]), ([1], [0], [0], [0])]),
        # unused entry in the middle gets slot -1
        ([[(b"SLNK", i32(-1, 2))], [E], [(b"SLNK", i32(1, -1, 1))]],
         None),
        # given slots are used as they are; sources are padded with -1
        ([[(b"SLNK", i32(2)), (b"SLnK", i32(3))], [E], [(b"SLNK", i32(1)), (b"SLnK", i32(2))]],
         [([2], [3], [], []), ([], [], [-1, -1, 2], [-1, -1, 0]), ([1], [2], [-1, -1, -1, 0], [-1, -1, -1, 0])]),
        # link to a module that does not exist: reported, not given a slot
        ([[(b"SLNK", i32(2))], [E], [(b"SLNK", i32(7, 1))]],
         "raises"),
        # only trailing -1 entries
        ([[(b"SLNK", i32(-1, -1))], [E], [(b"SLNK", i32(-1))]],
         [([], [], [], []), ([], [], [], []), ([], [], [], [])]),
    ]
    for chunks_by_module, want in cases:
        data = tiny_project(chunks_by_module)
        with capture_logs("rv.readers.sunvox") as records:
            try:
                proj = load(data)
                got = link_state(proj)
            except IndexError:
                # the slot list is shorter than the link list
                got = "raises"
                proj = None
            msgs = [(r.levelno, r.getMessage()) for r in records]
        if want == "raises":
            expect(got == "raises", "dangling link: %r" % (got,))
            expect(
                msgs == [(logging.WARNING, "Found SLNK on 2 referencing non-existent module 7")],
                "dangling link message %r" % (msgs,),
            )
            continue
        expect(msgs == [], "unexpected log %r" % (msgs,))
        if want is not None:
            expect(got == want, "links %r: got %r wanted %r" % (chunks_by_module, got, want))
        else:
            expect(
                got == [([-1, 2], [-1, 0], [], []), ([], [], [2, 2], [0, 2]),
                        ([1, -1, 1], [0, -1, 1], [0], [1])],
                "middle -1: %r" % (got,),
            )
        y = save(proj)
        expect(save(load(y)) == y, "stable after %r" % (chunks_by_module,))
    # empty module slots: kept in the middle, dropped at the end
    chain3 = [[(b"SLNK", i32(2))], [E], [(b"SLNK", i32(1))]]
    for n_tail in (0, 1, 3):
        proj = load(tiny_project(chain3, extra_tail=[(b"SEND", b"")] * n_tail))
        expect(len(proj.modules) == 3 and None not in proj.modules, "trailing empties dropped")
    base = split(tiny_project(chain3))
    first_send = [n for n, _ in base].index(b"SEND")
    holes = base[: first_send + 1] + [(b"SEND", b"")] * 2 + base[first_send + 1 :]
    # module numbers shift by two: relink accordingly
    relinked, seen = [], 0
    for name, data in holes:
        if name == b"SLNK" and data:
            data = i32(*[v + 2 for v in struct.unpack("<%di" % (len(data) // 4), data)])
        relinked.append((name, data))
    proj = load(join(relinked + [(b"SEND", b"")]))
    expect(
        [mod is None for mod in proj.modules] == [False, True, True, False, False],
        "holes kept, trailing dropped",
    )
    expect(
        link_state(proj) == [([4], [0], [], []), None, None, ([], [], [4], [0]), ([3], [0], [0], [0])],
        "links with holes: %r" % (link_state(proj),),
    )
    y = save(proj)
    expect(save(load(y)) == y, "holes stable")
    # a project without any module at all
    head = base[: [n for n, _ in base].index(b"SFFF")]
    proj = load(join(head))
    expect(proj.modules == [], "no modules")
    proj = load(join(head + [(b"SEND", b"")] * 2))
    expect(proj.modules == [], "only empty slots")
    # high byte of pattern module numbers is cleared for files older than 1.9.5.0
    from rv.pattern import Pattern

    def with_note_module(data, value):
        out = []
        for name, d in split(data):
            if name == b"PDTA":
                d = d[:2] + struct.pack("<H", value) + d[4:]
                d = d[:-8] + d[-8:-6] + struct.pack("<H", 0xFF00) + d[-4:]
            out.append((name, d))
        return join(out)

    for vers, masked in [((1, 9, 4, 9), True), ((1, 9, 5, 0), False), ((2, 1, 2, 1), False),
                         ((1, 7, 0, 0), True), ((0, 255, 255, 255), True)]:
        proj = load(with_note_module(tiny_project(chain3, vers=vers), 0x1234))
        pats = [p for p in proj.patterns if isinstance(p, Pattern)]
        expect(len(pats) == 1, "one pattern")
        first, last = pats[0].data[0][0], pats[0].data[-1][-1]
        expect(first.module == (0x34 if masked else 0x1234), "mask first %r %x" % (vers, first.module))
        expect(last.module == (0 if masked else 0xFF00), "mask last %r %x" % (vers, last.module))
        expect(proj.loaded_sunvox_version == vers, "loaded version")


EXPECTED_DIGEST = "26e5497b22a7e6cae03c2ac11d1cd573c92d11194277db18d6d0b09dd0b5d1e5"

if __name__ == "__main__":
    check_read_sunvox_file()
    check_process_send()
    check_end_of_file()
    got, stats = corpus_digest()
    expect(stats["ok"] > 2000, "corpus too small: %r" % (stats,))
    expect(got == EXPECTED_DIGEST, "corpus digest changed: %s %r" % (got, stats))
    finish()
