"""Behaviour check for Module.get_raw / Module.set_raw.

Enumerates (sampled for very wide ranges) every controller of every module
type - all unit variants of unit-dependent ranges, all enum members, both
booleans - checking the stored encoding, the round trip, the out-of-range
behaviour in strict and lenient mode (exception type, message, cause, log
record), plus error propagation and a file round trip. Also exercises the
range classes directly.

Run as:  cd <root> && PYTHONPATH=<root>/src/python python check.py
"""
import logging
import sys
from enum import Enum

from rv import errors
from rv.controller import (
    CompactRange,
    Controller,
    DependentRange,
    NoOffsetRange,
    Range,
    WarnOnlyRange,
)
from rv.errors import (
    ControllerValueError,
    RangeValidationError,
    override_raise_controller_value_errors,
)
from rv.modules import MODULE_CLASSES

failures = []
checked = 0


def check(cond, msg):
    global checked
    checked += 1
    if not cond:
        failures.append(msg)


def same(a, b):
    """Equal in value AND in type (True is not 1 here)."""
    return type(a) is type(b) and a == b


class Capture(logging.Handler):
    def __init__(self):
        super().__init__()
        self.records = []

    def emit(self, record):
        self.records.append(record)


capture = Capture()
logging.getLogger("rv").addHandler(capture)
logging.getLogger("rv").setLevel(logging.DEBUG)
logging.getLogger("rv").propagate = False


def expected_raw(t, v):
    if type(t) is NoOffsetRange:
        return v
    if t.min < 0:
        return v - t.min
    return v


def sample_values(t):
    lo, hi = t.min, t.max
    span = hi - lo
    if span <= 4096:
        return range(lo, hi + 1)
    vals = set(range(lo, hi + 1, 53))
    vals.update((lo, lo + 1, lo + 2, hi - 2, hi - 1, hi, (lo + hi) // 2, 0, 1, -1))
    return sorted(v for v in vals if lo <= v <= hi)


# ---------------------------------------------------------------- direct use

KINDS = (Range, WarnOnlyRange, CompactRange, NoOffsetRange)
BOUNDS = [(-5, 5), (0, 10), (3, 9), (-128, 128), (-1, 0), (-32768, 32767), (1, 1), (0, 0)]

for kind in KINDS:
    for lo, hi in BOUNDS:
        t = kind(lo, hi)
        check(repr(t) == f"<{kind.__name__} {lo}..{hi}>", f"repr {t!r}")
        check(t == kind(lo, hi), f"eq {t!r}")
        for other in KINDS:
            if other is not kind:
                check(t != other(lo, hi), f"ne {t!r} {other}")
        raws = set()
        for v in range(lo, hi + 1) if hi - lo < 1000 else sample_values(t):
            raw = t.to_raw_value(v)
            check(same(raw, expected_raw(t, v)), f"{t!r}.to_raw_value({v}) = {raw!r}")
            check(same(t.from_raw_value(raw), v), f"{t!r} roundtrip {v}")
            if kind is not NoOffsetRange:
                check(raw >= 0 or lo >= 0, f"{t!r} negative raw {raw}")
            raws.add(raw)
            check(t(v) is v, f"{t!r}({v}) passes value through")
        if kind is not NoOffsetRange and lo < 0:
            check(t.to_raw_value(lo) == 0, f"{t!r} min -> 0")
            check(t.from_raw_value(0) == lo, f"{t!r} 0 -> min")

# types are preserved exactly when nothing is shifted
check(Range(0, 1).to_raw_value(True) is True, "bool passthrough to_raw")
check(Range(0, 1).from_raw_value(False) is False, "bool passthrough from_raw")
check(NoOffsetRange(-1, 1).to_raw_value(True) is True, "bool passthrough nooffset")
check(same(Range(-1, 1).to_raw_value(True), 2), "bool shifted")
check(same(Range(-1, 1).from_raw_value(True), 0), "bool shifted back")
check(same(Range(-2, 2).to_raw_value(0.5), 2.5), "float shifted")
check(same(Range(0, 2).to_raw_value(0.5), 0.5), "float unshifted")
check(same(NoOffsetRange(-2, 2).from_raw_value(-1.5), -1.5), "float nooffset")
# values beyond the range are still converted (validation is separate)
check(same(Range(-10, 10).to_raw_value(-11), -1), "below min to_raw")
check(same(Range(-10, 10).from_raw_value(100), 90), "above max from_raw")
check(same(NoOffsetRange(-10, 10).from_raw_value(-11), -11), "nooffset below")
# NoOffsetRange never inspects min
check(NoOffsetRange(None, None).to_raw_value(7) == 7, "nooffset ignores min")
check(NoOffsetRange(None, None).from_raw_value(-7) == -7, "nooffset ignores min")

# validate / __call__
for kind in (Range, CompactRange, NoOffsetRange):
    t = kind(-3, 4)
    for bad in (-4, 5, 1000, -1000, 4.5):
        try:
            t(bad)
        except RangeValidationError as e:
            check(e.args == (bad, -3, 4), f"{t!r} error args {e.args}")
        else:
            check(False, f"{t!r}({bad}) did not raise")
    for good in (-3, 4, 0, 3.5):
        check(t(good) == good, f"{t!r}({good})")
    nan = float("nan")
    check(t(nan) is nan, f"{t!r}(nan) is not rejected")

del capture.records[:]
w = WarnOnlyRange(1, 10)
check(w(11) == 11 and w(0) == 0 and w.validate(99) is None, "warn-only passes")
check(len(capture.records) == 3, f"warn-only logged {len(capture.records)}")
check(
    all(r.levelno == logging.WARNING and r.name == "rv.controller" for r in capture.records),
    "warn-only level/logger",
)
check(
    [r.getMessage() for r in capture.records]
    == [str(RangeValidationError(v, 1, 10)) for v in (11, 0, 99)],
    "warn-only messages",
)
del capture.records[:]
check(w(1) == 1 and w(10) == 10 and not capture.records, "warn-only in range silent")

# Controller wraps tuples in a plain Range
c = Controller((-7, 7), 0)
check(type(c.value_type) is Range and c.value_type == Range(-7, 7), "tuple -> Range")

# ---------------------------------------------------------- through modules


def assign(mod, name, value):
    """Validated assignment, without MetaModule's propagation to embedded modules."""
    mod.controllers[name].controller(mod).set_initial(mod, value)


def variants(mod, ctl):
    vt = ctl.value_type
    if isinstance(vt, DependentRange):
        for unit in vt.range_map:
            setattr(mod, vt.ctl_name, unit)
            check(ctl.instance_value_type(mod) is vt.range_map[unit], "dependent pick")
            yield ctl.instance_value_type(mod)
    else:
        yield ctl.instance_value_type(mod)


for mtype, cls in sorted(MODULE_CLASSES.items()):
    mod = cls()
    for name, ctl in cls.controllers.items():
        for t in variants(mod, ctl):
            where = f"{mtype}.{name} {t!r}"
            if isinstance(t, Range):
                seen = {}
                for v in sample_values(t):
                    assign(mod, name, v)
                    raw = mod.get_raw(name)
                    check(same(raw, expected_raw(t, v)), f"{where} get_raw({v}) = {raw!r}")
                    check(raw not in seen, f"{where} collision at raw {raw}")
                    seen[raw] = v
                    mod.controller_values[name] = None
                    mod.set_raw(name, raw)
                    check(same(getattr(mod, name), v), f"{where} set_raw({raw}) -> {getattr(mod, name)!r}")
                # one past each end
                for raw_bad in (expected_raw(t, t.max) + 1, expected_raw(t, t.min) - 1):
                    val_bad = raw_bad + t.min if (t.min < 0 and type(t) is not NoOffsetRange) else raw_bad
                    mod.controller_values[name] = "sentinel"
                    del capture.records[:]
                    if isinstance(t, WarnOnlyRange):
                        mod.set_raw(name, raw_bad)
                        check(same(getattr(mod, name), val_bad), f"{where} warn-only stores {val_bad}")
                        check(len(capture.records) == 1, f"{where} warn-only logs once")
                        continue
                    try:
                        mod.set_raw(name, raw_bad)
                    except ControllerValueError as e:
                        msg = "{:x}({}).{}={} is not within [{}, {}]".format(
                            0, mod.mtype, name, val_bad, t.min, t.max
                        )
                        check(e.args == (msg,), f"{where} error message {e.args}")
                        check(isinstance(e.__cause__, RangeValidationError), f"{where} cause")
                        check(e.__cause__.args == (val_bad, t.min, t.max), f"{where} cause args")
                        check(mod.controller_values[name] == "sentinel", f"{where} untouched on error")
                    else:
                        check(False, f"{where} set_raw({raw_bad}) did not raise")
                    with override_raise_controller_value_errors(False):
                        mod.set_raw(name, raw_bad)
                    check(same(getattr(mod, name), val_bad), f"{where} lenient stores {val_bad}")
                    check(len(capture.records) == 1, f"{where} lenient logs once")
                assign(mod, name, ctl.default)
            elif isinstance(t, type) and issubclass(t, Enum):
                for member in t:
                    assign(mod, name, member)
                    check(same(mod.get_raw(name), member.value), f"{where} get_raw {member}")
                    mod.controller_values[name] = None
                    mod.set_raw(name, member.value)
                    check(getattr(mod, name) is member, f"{where} set_raw {member}")
                mod.controller_values[name] = None
                check(mod.get_raw(name) == 0, f"{where} None -> 0")
                assign(mod, name, ctl.default)
            elif t is bool:
                for b in (False, True):
                    assign(mod, name, b)
                    check(same(mod.get_raw(name), int(b)), f"{where} get_raw {b}")
                    mod.set_raw(name, int(b))
                    check(getattr(mod, name) is b, f"{where} set_raw {b}")
                mod.set_raw(name, 7)
                check(getattr(mod, name) is True, f"{where} set_raw 7 -> True")
                assign(mod, name, ctl.default)
            else:
                check(False, f"{where}: unexpected value type")


# ------------------------------------------------ get_raw / set_raw specifics

from rv.modules import Amplifier, Lfo, MetaModule, MultiSynth, VorbisPlayer  # noqa: E402

amp = Amplifier(index=0x1F)
# hex module index in the message
try:
    amp.set_raw("dc_offset", 257)
except ControllerValueError as e:
    check(e.args == ("1f(Amplifier).dc_offset=129 is not within [-128, 128]",), f"hex index msg {e.args}")
    check(isinstance(e, ValueError), "ControllerValueError is a ValueError")
else:
    check(False, "amp.set_raw out of range did not raise")
check(amp.dc_offset == 0, "value unchanged after strict error")

# lenient mode: the log record
del capture.records[:]
with override_raise_controller_value_errors(False):
    amp.set_raw("dc_offset", -1)
check(amp.dc_offset == -129, f"lenient stores -129, got {amp.dc_offset}")
check(len(capture.records) == 1, "one lenient record")
rec = capture.records[0]
check(rec.name == "rv.modules.module" and rec.levelno == logging.WARNING, "record logger/level")
check(rec.getMessage() == "1f(Amplifier).dc_offset=-129 is not within [-128, 128]", rec.getMessage())
check(isinstance(rec.exc_info[1], RangeValidationError) and rec.exc_info[1].args == (-129, -128, 128), "record exc_info")
check(rec.args == (), "record has no lazy args")

# a module without an index prints 0
try:
    Amplifier().set_raw("volume", 1025)
except ControllerValueError as e:
    check(e.args == ("0(Amplifier).volume=1025 is not within [0, 1024]",), f"no index msg {e.args}")
else:
    check(False, "no raise")
try:
    Amplifier(index=0).set_raw("volume", -1)
except ControllerValueError as e:
    check(e.args == ("0(Amplifier).volume=-1 is not within [0, 1024]",), f"index 0 msg {e.args}")
else:
    check(False, "no raise")

# None is stored as the encoding of 0, for each kind of value type
amp.controller_values["dc_offset"] = None
check(same(amp.get_raw("dc_offset"), 128), "None -> raw of 0 (offset range)")
amp.controller_values["volume"] = None
check(same(amp.get_raw("volume"), 0), "None -> 0 (plain range)")
amp.controller_values["inverse"] = None
check(same(amp.get_raw("inverse"), 0), "None -> 0 (bool)")
vp = VorbisPlayer()
vp.controller_values["finetune"] = None
check(same(vp.get_raw("finetune"), 0), "None -> 0 (no offset)")
vp.finetune = -128
check(same(vp.get_raw("finetune"), -128), "no-offset keeps sign")
vp.transpose = -128
check(same(vp.get_raw("transpose"), 0), "offset min -> 0")
ms = MultiSynth()
ms.transpose = -2
check(same(ms.get_raw("transpose"), 126), "compact -2 -> 126")
ms.set_raw("transpose", 256)
check(same(ms.transpose, 128), "compact 256 -> 128")

# bools come out as ints; anything int() accepts goes in
amp.inverse = True
check(same(amp.get_raw("inverse"), 1), "True -> 1")
amp.set_raw("inverse", "0")
check(amp.inverse is False, "'0' -> False")
amp.set_raw("inverse", 2.9)
check(amp.inverse is True, "2.9 -> True")

# errors that are not range errors propagate unchanged, value left alone
amp.inverse = True
for call, exc_type in (
    (lambda: amp.set_raw("inverse", "abc"), ValueError),
    (lambda: amp.set_raw("inverse", None), TypeError),
    (lambda: amp.set_raw("nope", 1), KeyError),
    (lambda: amp.get_raw("nope"), KeyError),
    (lambda: amp.set_raw("volume", None), TypeError),
    (lambda: amp.set_raw("dc_offset", None), TypeError),
):
    try:
        call()
    except Exception as e:  # noqa: BLE001
        check(type(e) is exc_type, f"expected {exc_type.__name__}, got {type(e).__name__}: {e}")
    else:
        check(False, f"expected {exc_type.__name__}")
check(amp.inverse is True, "value kept after failed set_raw")

lfo = Lfo()
wf_type = type(lfo.waveform)
try:
    lfo.set_raw("waveform", 9999)
except ValueError as e:
    check(not isinstance(e, ControllerValueError), "invalid enum raw is a plain ValueError")
else:
    check(False, "invalid enum raw accepted")
with override_raise_controller_value_errors(False):
    try:
        lfo.set_raw("waveform", 9999)
    except ValueError:
        check(True, "")
    else:
        check(False, "invalid enum raw accepted when lenient")

# get_raw on a freshly loaded controller set: unit-dependent range follows unit
for unit, rng in Lfo.controllers["freq"].value_type.range_map.items():
    lfo.frequency_unit = unit
    lfo.set_raw("freq", rng.max)
    check(same(lfo.freq, rng.max) and same(lfo.get_raw("freq"), rng.max), f"lfo freq {unit}")

# MetaModule user defined controllers resolve through .controller(instance)
mm = MetaModule()
mm.set_raw("user_defined_3", 44100)
check(same(mm.get_raw("user_defined_3"), 44100), "user defined roundtrip")
try:
    mm.set_raw("user_defined_3", 44101)
except ControllerValueError as e:
    check(e.args == ("0(MetaModule).user_defined_3=44101 is not within [0, 44100]",), f"{e.args}")
else:
    check(False, "user defined out of range accepted")

# file round trip (writer uses get_raw, reader uses set_raw)
src = Amplifier(volume=1024, balance=-128, dc_offset=128, inverse=True, bipolar_dc_offset=-16384)
dup = src.clone()
check(dup.controller_values == src.controller_values, f"amp clone {dup.controller_values}")
src = VorbisPlayer(finetune=-100, transpose=-100)
dup = src.clone()
check(dup.controller_values == src.controller_values, f"vorbis clone {dup.controller_values}")
src = MultiSynth(transpose=-128, finetune=256)
dup = src.clone()
check(dup.controller_values == src.controller_values, f"multisynth clone {dup.controller_values}")
src = Lfo(frequency_unit=Lfo.FrequencyUnit.hz, freq=16384, waveform=Lfo.Waveform.saw)
dup = src.clone()
check(dup.controller_values == src.controller_values, f"lfo clone {dup.controller_values}")

check(errors.RAISE_CONTROLLER_VALUE_ERRORS is True, "flag restored")

if failures:
    print(f"FAIL: {len(failures)} of {checked} checks")
    for f in failures[:40]:
        print("  ", f)
    sys.exit(1)
print(f"PASS ({checked} checks)")
