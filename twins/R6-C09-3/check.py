import hashlib
import logging
import sys
from enum import Enum

import rv.api  # noqa: F401  (registers every module class)
from rv import errors
from rv.controller import (
    CompactRange,
    Controller,
    DependentRange,
    NoOffsetRange,
    Range,
    WarnOnlyRange,
)
from rv.errors import (
    ControllerValueError,
    RangeValidationError,
    override_raise_controller_value_errors,
)
from rv.modules import MODULE_CLASSES
from rv.modules.module import Module

OBSERVATIONS = []
MISMATCH = set()


def note(*parts):
    OBSERVATIONS.append(" | ".join(str(p) for p in parts))


def check(cond, *msg):
    if not cond:
        print("FAIL:", *msg)
        sys.exit(1)


class Capture(logging.Handler):
    def __init__(self):
        super().__init__(level=logging.DEBUG)
        self.records = []

    def emit(self, record):
        self.records.append(record)

    def drain(self):
        out = [
            (r.name, r.levelname, r.getMessage(), bool(r.exc_info))
            for r in self.records
        ]
        self.records = []
        return out


CAPTURE = Capture()
for logger_name in ("rv.controller", "rv.modules.module"):
    lg = logging.getLogger(logger_name)
    lg.addHandler(CAPTURE)
    lg.setLevel(logging.DEBUG)
    lg.propagate = False


def attempt(fn):
    """Run fn, describe the outcome (value or exception) deterministically."""
    try:
        result = fn()
    except Exception as e:  # noqa: BLE001
        cause = e.__cause__
        return (
            "EXC",
            type(e).__name__,
            repr(e.args),
            type(cause).__name__ if cause is not None else None,
            repr(cause.args) if cause is not None else None,
        )
    return ("OK", repr(result))


EXPECTED_ERRORS = ("ControllerValueError", "KeyError", "ValueError")


def foreign(outcome):
    return outcome[0] == "EXC" and outcome[1] not in EXPECTED_ERRORS


def describe(value):
    return f"{type(value).__name__}:{value!r}"


def candidates(m, name, ctl):
    t = ctl.instance_value_type(m)
    if isinstance(t, Range):
        lo, hi = t.min, t.max
        mid = (lo + hi) // 2
        return t, [lo - 1, lo, lo + 1, mid, hi - 1, hi, hi + 1, lo - 1000, hi + 100000]
    if isinstance(t, type) and issubclass(t, Enum):
        values = []
        for member in t:
            values += [member, member.value, member.name]
        values += ["no_such_member", "", max(x.value for x in t) + 1, -1]
        return t, values
    if t is bool:
        return t, [True, False, 0, 1, 2, "x", ""]
    return t, [0, 1]


def exercise_module_type(mtype, cls):
    fresh = cls()
    check(fresh.controllers is cls.controllers, mtype, "controllers dict identity")
    check(list(fresh.controller_values) != [] or not cls.controllers, mtype)
    check(fresh.controllers_loaded == set(cls.controllers), mtype, "loaded set")
    dependent_seen = False
    order = list(fresh.controller_values)
    independent = [
        k
        for k, c in cls.controllers.items()
        if not isinstance(c.value_type, DependentRange)
    ]
    dependent = [
        k for k, c in cls.controllers.items() if isinstance(c.value_type, DependentRange)
    ]
    check(order == independent + dependent, mtype, "seeding order", order)
    for i, (name, ctl) in enumerate(cls.controllers.items(), 1):
        check(isinstance(ctl, Controller), mtype, name)
        check(ctl.name == name, mtype, name, "name")
        if not (name.startswith("user_defined_") and name != "user_defined_controllers"):
            check(ctl.number == i, mtype, name, "number", ctl.number, i)
            check(ctl.label == name.replace("_", " ").title(), mtype, name, "label")
        default = getattr(fresh, name)
        check(default == ctl.default, mtype, name, "default", default, ctl.default)
        check(fresh.controller_values[name] == ctl.default, mtype, name)
        note(mtype, i, name, ctl.number, repr(ctl.value_type), describe(default))
        if isinstance(ctl.value_type, DependentRange):
            dependent_seen = True
        t, values = candidates(fresh, name, ctl)
        proxy = name.startswith("user_defined_") and name != "user_defined_controllers"
        for strict in (True, False):
            for v in values:
                # attribute assignment
                m = cls()
                before = getattr(m, name)
                with override_raise_controller_value_errors(strict):
                    outcome = attempt(lambda: setattr(m, name, v))
                after = getattr(m, name)
                logs = CAPTURE.drain()
                note(mtype, name, "set", strict, describe(v), outcome, describe(after), logs)
                if proxy or foreign(outcome):
                    # MetaModule user-defined slots proxy to per-instance
                    # controllers; only record what happens.
                    pass
                elif outcome[0] == "EXC":
                    check(after == before and type(after) is type(before), mtype, name, v)
                    if isinstance(t, Range):
                        check(strict, mtype, name, v, "lenient must not raise")
                        check(outcome[1] == "ControllerValueError", mtype, name, outcome)
                        check(outcome[3] == "RangeValidationError", mtype, name, outcome)
                        check(not (t.min <= v <= t.max), mtype, name, v)
                        check(not isinstance(t, WarnOnlyRange), mtype, name, v)
                else:
                    if isinstance(t, Range):
                        check(after == v, mtype, name, v, after)
                        inside = t.min <= v <= t.max
                        if not inside:
                            check(
                                isinstance(t, WarnOnlyRange) or not strict,
                                mtype, name, v, "out-of-range accepted in strict mode",
                            )
                            check(len(logs) == 1 and logs[0][1] == "WARNING", mtype, name, logs)
                        else:
                            check(logs == [], mtype, name, v, logs)
                    elif isinstance(t, type) and issubclass(t, Enum):
                        check(isinstance(after, t), mtype, name, v, after)
                        if isinstance(v, str):
                            check(after is t[v], mtype, name, v)
                        else:
                            check(after == v, mtype, name, v)
                    elif t is bool:
                        check(after is bool(v), mtype, name, v, after)
                # constructor keyword
                with override_raise_controller_value_errors(strict):
                    outcome2 = attempt(lambda: getattr(cls(**{name: v}), name))
                logs2 = CAPTURE.drain()
                note(mtype, name, "kw", strict, describe(v), outcome2, logs2)
                if proxy or foreign(outcome) or foreign(outcome2):
                    # module-specific side effects (callbacks, array-backed
                    # controllers): recorded in the digest, not asserted here.
                    pass
                elif outcome2[0] != outcome[0]:
                    check(False, mtype, name, v, outcome, outcome2)
                elif outcome2[0] == "EXC":
                    check(outcome2[1:] == outcome[1:], mtype, name, v, outcome, outcome2)
                elif outcome2[1] != repr(after):
                    MISMATCH.add((mtype, name))
                # raw round trip
                with override_raise_controller_value_errors(strict):
                    m2 = cls()
                    if outcome[0] == "OK" and not isinstance(v, str):
                        setattr(m2, name, v)
                        CAPTURE.drain()
                        raw = attempt(lambda: m2.get_raw(name))
                        note(mtype, name, "get_raw", strict, describe(v), raw)
                    if isinstance(v, int) and not isinstance(v, (bool, Enum)):
                        m3 = cls()
                        res = attempt(lambda: m3.set_raw(name, v))
                        note(
                            mtype, name, "set_raw", strict, v, res,
                            describe(getattr(m3, name)), CAPTURE.drain(),
                        )
    return dependent_seen


def digest():
    h = hashlib.sha256()
    for line in OBSERVATIONS:
        h.update(line.encode("utf-8"))
        h.update(b"\n")
    return h.hexdigest()


def run_core():
    check(errors.RAISE_CONTROLLER_VALUE_ERRORS is True, "strict by default")
    check(len(MODULE_CLASSES) == 43, "43 module types", len(MODULE_CLASSES))
    total = 0
    any_dependent = False
    for mtype in sorted(MODULE_CLASSES):
        cls = MODULE_CLASSES[mtype]
        total += len(cls.controllers)
        any_dependent |= bool(exercise_module_type(mtype, cls))
    check(total == 603, "controller count", total)
    check(any_dependent, "dependent ranges visited")
    # SpectraVoice's per-harmonic controllers are views on its harmonic arrays,
    # so the constructor re-seeds them; every other pair behaves uniformly.
    check(
        sorted(MISMATCH)
        == [("SpectraVoice", n) for n in ("h_type", "h_volume", "h_width")],
        "constructor/assignment mismatch",
        sorted(MISMATCH),
    )
    check(errors.RAISE_CONTROLLER_VALUE_ERRORS is True, "strictness restored")
    # base Module has no controllers and constructs cleanly
    base = Module()
    check(base.controllers == {} and base.controller_values == {}, "base module")


# --------------------------------------------------------------------------
# Specific to this refactoring: descriptor access, change propagation and its
# callbacks, tolerant vs strict reporting, raw access, range helpers
# --------------------------------------------------------------------------
def run_specific():
    from rv.errors import raise_or_warn_controller_value_validation
    from rv.modules.amplifier import Amplifier
    from rv.modules.analoggenerator import AnalogGenerator
    from rv.modules.lfo import Lfo
    from rv.modules.multisynth import MultiSynth
    from rv.modules.vorbisplayer import VorbisPlayer

    # descriptor protocol
    check(Amplifier.volume is Amplifier.controllers["volume"], "class access")
    check(Amplifier.volume.__get__(None, Amplifier) is Amplifier.volume, "__get__(None)")
    check(Amplifier.volume.__set__(None, 1) is None, "__set__(None) ignored")
    a = Amplifier()
    check(Amplifier.volume.__get__(a, Amplifier) == 256, "__get__(instance)")
    check(Amplifier.volume.__set__(a, 300) is None and a.volume == 300, "__set__(instance)")
    del a.controller_values["volume"]
    check(attempt(lambda: a.volume)[1] == "KeyError", "missing value is a KeyError")

    # propagation: specific callback first, then the general one; neither runs
    # when the value is rejected; constructor seeding runs no callbacks
    events = []

    class Probe(Amplifier):
        def on_volume_changed(self, value, down, up):
            events.append(("volume", value, down, up, self.volume))

        def on_controller_changed(self, controller, value, down, up):
            events.append(("any", controller.name, value, down, up))
            super().on_controller_changed(controller, value, down, up)

    class FakeParent:
        def __init__(self):
            self.seen = []

        def on_controller_changed(self, module, controller, value, down, up):
            self.seen.append((module.mtype, controller.name, value, down, up))

    try:
        parent = FakeParent()
        p = Probe(volume=7, parent=parent)
        check(events == [] and parent.seen == [], "constructor is silent")
        p.volume = 9
        check(events == [("volume", 9, True, True, 9), ("any", "volume", 9, True, True)], events)
        check(parent.seen == [("Amplifier", "volume", 9, False, True)], parent.seen)
        del events[:], parent.seen[:]
        res = attempt(lambda: setattr(p, "volume", 5000))
        check(res[1] == "ControllerValueError" and events == [] and parent.seen == [], "rejected")
        check(p.volume == 9, "previous value remains")
        Probe.volume.propagate(p, 11)
        check(events == [("volume", 11, False, False, 11), ("any", "volume", 11, False, False)], events)
        check(parent.seen == [], "up=False stays local")
        del events[:]
        Probe.volume.propagate(p, 12, up=True)
        check(parent.seen == [("Amplifier", "volume", 12, False, True)], parent.seen)
        del events[:], parent.seen[:]
        p.parent = None
        p.balance = -3
        check(events == [("any", "balance", -3, True, True)] and parent.seen == [], events)
        del events[:]
        p.on_volume_changed = "not callable"
        p.on_controller_changed = None
        p.volume = 13
        check(events == [] and p.volume == 13, "non-callable hooks are skipped")
        with override_raise_controller_value_errors(False):
            q = Probe(parent=parent)
            q.volume = 5000
            logs = CAPTURE.drain()
            check(q.volume == 5000 and len(logs) == 1, "tolerated")
            check(events == [("volume", 5000, True, True, 5000),
                             ("any", "volume", 5000, True, True)], events)
            check(parent.seen == [("Amplifier", "volume", 5000, False, True)], parent.seen)
    finally:
        MODULE_CLASSES["Amplifier"] = Amplifier

    # set_initial: enum by name / value / member, bool coercion, None type
    g = AnalogGenerator()
    W = AnalogGenerator.Waveform
    for v in list(W) + [w.name for w in W] + [w.value for w in W]:
        AnalogGenerator.waveform.set_initial(g, v)
        want = W[v] if isinstance(v, str) else W(v)
        check(g.waveform is want, "enum", v)
    check(attempt(lambda: AnalogGenerator.waveform.set_initial(g, "nope"))
          == ("EXC", "KeyError", repr(("nope",)), None, None), "bad name")
    res = attempt(lambda: AnalogGenerator.waveform.set_initial(g, 999))
    check(res[1] == "ValueError" and g.waveform is W(max(w.value for w in W)), "bad value", res)
    res = attempt(lambda: setattr(g, "volume", "12"))
    note("str into range", res, describe(g.volume))
    check(res[1] == "TypeError", "a string is not a range value")
    untyped = Controller(None, 5)
    untyped.name = "untyped"
    untyped.set_initial(g, 123)
    check(g.controller_values["untyped"] is None, "None value type stores None")
    check(untyped.pattern_value(g, 9) == 9, "non-range pattern value")
    del g.controller_values["untyped"]
    flag = Controller(bool, False)
    flag.name = "flag"
    for v, want in ((1, True), (0, False), ("", False), ("x", True), ([], False)):
        flag.set_initial(g, v)
        check(g.controller_values["flag"] is want, "bool", v)
    del g.controller_values["flag"]

    # messages and chaining, strict and tolerant, via attribute / kw / set_raw
    for index in (None, 0, 31):
        m = Amplifier(index=index)
        prefix = "{:x}(Amplifier).".format(index or 0)
        for how in ("attr", "raw", "kw"):
            if how == "attr":
                res = attempt(lambda: setattr(m, "balance", 129))
            elif how == "raw":
                res = attempt(lambda: m.set_raw("balance", 257))
            else:
                res = attempt(lambda: Amplifier(index=index, balance=129))
            check(res == ("EXC", "ControllerValueError",
                          repr((prefix + "balance=129 is not within [-128, 128]",)),
                          "RangeValidationError", repr((129, -128, 128))), how, res)
            check(m.balance == 0, "previous value remains")
        try:
            m.balance = -129
        except ControllerValueError as e:
            check(isinstance(e, ValueError), "is a ValueError")
            check(e.__cause__ is e.__context__, "cause is the range error being handled")
            check(e.__suppress_context__ is True, "explicit chaining")
        else:
            check(False, "no error")
        with override_raise_controller_value_errors(False):
            m.balance = 129
            l1 = CAPTURE.drain()
            m.set_raw("balance", 258)
            l2 = CAPTURE.drain()
            check(m.balance == 130, "tolerant set_raw keeps the decoded value")
            n = Amplifier(index=index, balance=-200)
            l3 = CAPTURE.drain()
            check(n.balance == -200, "tolerant constructor")
        check(l1 == [("rv.controller", "WARNING", prefix + "balance=129 is not within [-128, 128]", True)], l1)
        check(l2 == [("rv.modules.module", "WARNING", prefix + "balance=130 is not within [-128, 128]", True)], l2)
        check(l3 == [("rv.controller", "WARNING", prefix + "balance=-200 is not within [-128, 128]", True)], l3)
    # nested overrides unwind properly, also on error
    with override_raise_controller_value_errors(False):
        with override_raise_controller_value_errors(True):
            check(errors.RAISE_CONTROLLER_VALUE_ERRORS is True, "inner")
            try:
                with override_raise_controller_value_errors(False):
                    raise RuntimeError("boom")
            except RuntimeError:
                pass
            check(errors.RAISE_CONTROLLER_VALUE_ERRORS is True, "inner restored")
        check(errors.RAISE_CONTROLLER_VALUE_ERRORS is False, "outer restored")
    check(errors.RAISE_CONTROLLER_VALUE_ERRORS is True, "all restored")

    class FakeLog:
        def __init__(self):
            self.calls = []

        def warning(self, *args, **kw):
            self.calls.append((args, kw))

    cause = RangeValidationError(1, 2, 3)
    fake = FakeLog()
    for args in ((), ("only",), ("fmt %s", 1)):
        res = attempt(lambda: raise_or_warn_controller_value_validation(cause, fake, *args))
        note("raise_or_warn strict", args, res)
        check(res[:3] == ("EXC", "ControllerValueError", repr(args)), res)
    check(fake.calls == [], "strict never logs")
    with override_raise_controller_value_errors(False):
        check(raise_or_warn_controller_value_validation(cause, fake, "fmt %s", 1) is None, "tolerant")
    check(fake.calls == [(("fmt %s", 1), {"exc_info": cause})], fake.calls)

    # get_raw / set_raw for every controller kind
    for mtype in sorted(MODULE_CLASSES):
        cls = MODULE_CLASSES[mtype]
        m = cls()
        raws = {}
        for name in cls.controllers:
            raws[name] = attempt(lambda: m.get_raw(name))
        note("get_raw defaults", mtype, raws)
        for name, ctl in cls.controllers.items():
            t = ctl.instance_value_type(m)
            if raws[name][0] != "OK" or name.startswith("user_defined_"):
                continue
            raw = m.get_raw(name)
            m2 = cls()
            m2.set_raw(name, raw)
            check(getattr(m2, name) == getattr(m, name), mtype, name, "raw round trip")
            check(type(getattr(m2, name)) is type(getattr(m, name)), mtype, name, "raw type")
            if isinstance(t, Range) and t.min < 0 and not isinstance(t, NoOffsetRange):
                check(raw == getattr(m, name) - t.min, mtype, name, "offset raw")
    v = VorbisPlayer()
    v.finetune = -7
    check(v.get_raw("finetune") == -7, "no-offset range raw")
    ms = MultiSynth()
    ms.transpose = -2
    check(ms.get_raw("transpose") == 126 and MultiSynth.transpose.pattern_value(ms, -2) == 126, "compact")
    check(MultiSynth.finetune.pattern_value(ms, 0) == 0x4000, "stretched")
    m = Amplifier()
    m.controller_values["volume"] = None
    check(m.get_raw("volume") == 0, "None reads as raw zero")
    check(attempt(lambda: m.get_raw("nope"))[1] == "KeyError", "unknown controller")
    check(attempt(lambda: m.set_raw("nope", 1))[1] == "KeyError", "unknown controller")
    res = attempt(lambda: m.set_raw("inverse", 5))
    check(res[0] == "OK" and m.inverse is True, "bool raw")
    g = AnalogGenerator()
    res = attempt(lambda: g.set_raw("waveform", 250))
    check(res[1] == "ValueError" and g.waveform is AnalogGenerator.waveform.default, "enum raw", res)

    # Range helpers
    for kind in (Range, WarnOnlyRange, CompactRange, NoOffsetRange):
        r = kind(-4, 4)
        check(r == kind(-4, 4) and r != kind(-4, 5) and r != kind(-3, 4), "eq")
        check((r == Range(-4, 4)) is (kind is Range), "eq is type-exact")
        check((r == "x") is False and (r == None) is False, "eq foreign")  # noqa: E711
        check(repr(r) == "<{} -4..4>".format(kind.__name__), "repr")
        for v in (-6, -5, -4, 0, 4, 5, 4.5, -4.5, True):
            res = attempt(lambda: r(v))
            res2 = attempt(lambda: r.validate(v))
            logs = CAPTURE.drain()
            note("range", kind.__name__, describe(v), res, res2, logs)
            if -4 <= v <= 4:
                check(res == ("OK", repr(v)) and res2 == ("OK", "None") and logs == [], "inside")
            elif kind is WarnOnlyRange:
                check(res == ("OK", repr(v)) and res2 == ("OK", "None"), "warn only")
                check(logs == [("rv.controller", "WARNING", str(RangeValidationError(v, -4, 4)), False)] * 2, logs)
            else:
                check(res == res2 == ("EXC", "RangeValidationError", repr((v, -4, 4)), None, None), res)
                check(logs == [], "no log when raising")
    nan = float("nan")
    check(Range(0, 1)(nan) is nan, "nan compares false both ways")

    # dependent ranges
    lfo = Lfo()
    dep = Lfo.freq.value_type
    check(isinstance(dep, DependentRange) and repr(dep) == "<DependentRange (varies)>", "dep")
    for unit in Lfo.FrequencyUnit:
        lfo.frequency_unit = unit
        check(Lfo.freq.instance_value_type(lfo) is dep.range_map[unit], "selected range", unit)
        check(dep.parent(lfo) is dep.range_map[unit], "parent()", unit)
    bare = Lfo.__new__(Lfo)
    bare.controller_values = {}
    for loaded in (set(), {"other"}, {"frequency_unit"}):
        bare.controllers_loaded = loaded
        check(dep.parent(bare) is dep.default, "falls back to default", loaded)
    bare.controller_values["frequency_unit"] = None
    check(dep.parent(bare) is dep.default, "None value falls back")
    bare.controller_values["frequency_unit"] = "bogus"
    check(attempt(lambda: dep.parent(bare))[1] == "KeyError", "unknown unit")
    # kwargs: the unit given to the constructor selects the range for freq
    for unit in Lfo.FrequencyUnit:
        r = dep.range_map[unit]
        l = Lfo(frequency_unit=unit, freq=r.max + 1)
        logs = CAPTURE.drain()
        check(l.freq == r.max + 1, "advisory limit accepted")
        check([x[2] for x in logs] == [str(RangeValidationError(r.max + 1, r.min, r.max))], unit, logs)


EXPECTED_DIGEST = "5bd5696b6569f1d82ddc48562d11694adfa18653b63e7033f8a2afbd00c9fb8b"

if __name__ == "__main__":
    run_core()
    run_specific()
    actual = digest()
    if "--print-digest" in sys.argv:
        print(len(OBSERVATIONS), actual)
        sys.exit(0)
    check(actual == EXPECTED_DIGEST, "observation digest changed", actual)
    print("PASS", len(OBSERVATIONS), "observations")
