"""Behaviour check for Controller.pattern_value, Controller.instance_value_type,
Range.validate and DependentRange.parent (rv/controller.py).

Runs against whatever `rv` is importable via PYTHONPATH; prints PASS on success.
"""
import logging
import sys
from enum import Enum

import rv.controller as rc
from rv.controller import (
    CompactRange,
    Controller,
    DependentRange,
    NoOffsetRange,
    Range,
    WarnOnlyRange,
)
from rv.errors import RangeValidationError
from rv.modules import MODULE_CLASSES

failures = []


def expect(cond, msg):
    if not cond:
        failures.append(msg)


def sample_values(lo, hi):
    if hi - lo <= 2048:
        return list(range(lo, hi + 1))
    vals = set(range(lo, lo + 300)) | set(range(hi - 300, hi + 1))
    vals |= set(range(lo, hi + 1, 97))
    mid = (lo + hi) // 2
    vals |= set(range(mid - 50, mid + 50))
    if lo <= 0 <= hi:
        vals |= set(range(max(lo, -50), min(hi, 50) + 1))
    return sorted(vals)


def ref_pattern(t, v):
    """Independent statement of the expected pattern-column encoding."""
    if not isinstance(t, Range):
        return v
    if isinstance(t, CompactRange):
        return v - t.min
    return int((v - t.min) / ((t.max - t.min) / 32768))


class FakeInstance:
    def __init__(self, loaded=None, values=None):
        self.controllers_loaded = loaded
        self.controller_values = values if values is not None else {}


# --- 1. pattern_value on synthetic ranges -------------------------------------
fake = FakeInstance(set(), {})
for lo, hi in [(0, 256), (0, 1), (-128, 128), (1, 2048), (0, 32768), (-100, 100),
               (0, 3), (0, 7), (1, 4000), (0, 44100), (-1, 1), (5, 6), (0, 16384),
               (-32768, 32768), (0, 1000), (0, 511)]:
    for cls in (Range, WarnOnlyRange, NoOffsetRange, CompactRange):
        ctl = Controller(cls(lo, hi), lo)
        t = ctl.value_type
        prev = None
        for v in sample_values(lo, hi):
            pv = ctl.pattern_value(fake, v)
            expect(pv == ref_pattern(t, v), f"pattern {cls.__name__}({lo},{hi}) v={v}: {pv}")
            expect(type(pv) is int, f"pattern type {cls.__name__}({lo},{hi}) v={v}")
            if prev is not None:
                expect(pv >= prev, f"pattern not monotone {cls.__name__}({lo},{hi}) v={v}")
            prev = pv
        expect(ctl.pattern_value(fake, lo) == 0, f"min->0 {cls.__name__}({lo},{hi})")
        if cls is CompactRange:
            expect(ctl.pattern_value(fake, hi) == hi - lo, f"compact max {lo},{hi}")
        else:
            expect(ctl.pattern_value(fake, hi) == 0x8000, f"max->0x8000 {cls.__name__}({lo},{hi})")

# tuple shorthand builds a plain Range
ctl = Controller((0, 256), 0)
expect(type(ctl.value_type) is Range and ctl.value_type == Range(0, 256), "tuple shorthand")
expect(ctl.pattern_value(fake, 128) == 16384, "tuple shorthand pattern")

# float values are scaled/truncated the same way
ctl = Controller((-100, 100), 0)
expect(ctl.pattern_value(fake, 0.5) == int(100.5 / (200 / 32768)), "float value")
expect(ctl.pattern_value(fake, -100.0) == 0, "float min")
# out-of-range values are not clamped
expect(ctl.pattern_value(fake, 101) == int(201 / (200 / 32768)), "above max")
expect(ctl.pattern_value(fake, -101) == int(-1 / (200 / 32768)), "below min")

# degenerate range: division by zero is reported as ZeroDivisionError
ctl = Controller((3, 3), 3)
try:
    ctl.pattern_value(fake, 3)
except ZeroDivisionError:
    pass
else:
    expect(False, "degenerate range should raise ZeroDivisionError")
ctl = Controller(CompactRange(3, 3), 3)
expect(ctl.pattern_value(fake, 3) == 0, "degenerate compact range")


# non-range kinds pass through untouched
class Colour(Enum):
    red = 0
    green = 1


for vt, vals in [(bool, [True, False]), (Colour, list(Colour)), (None, [None, 5])]:
    ctl = Controller(vt, vals[0])
    for v in vals:
        expect(ctl.pattern_value(fake, v) is v, f"passthrough {vt} {v}")
    expect(ctl.instance_value_type(fake) is vt, f"instance_value_type {vt}")

# --- 2. DependentRange.parent / instance_value_type ----------------------------
r_a, r_b, r_def = WarnOnlyRange(0, 256), WarnOnlyRange(0, 4000), WarnOnlyRange(0, 100)
dep = DependentRange("unit", {Colour.red: r_a, Colour.green: r_b}, r_def)
ctl = Controller(dep, 1)
expect(repr(dep) == "<DependentRange (varies)>", "dep repr")
cases = [
    (FakeInstance(None, {"unit": Colour.green}), r_def),
    (FakeInstance(set(), {"unit": Colour.green}), r_def),
    (FakeInstance([], {"unit": Colour.green}), r_def),
    (FakeInstance({"other"}, {"unit": Colour.green}), r_def),
    (FakeInstance({"unit"}, {}), r_def),
    (FakeInstance({"unit"}, {"unit": None}), r_def),
    (FakeInstance({"unit"}, {"unit": Colour.red}), r_a),
    (FakeInstance({"unit", "x"}, {"unit": Colour.green}), r_b),
    (FakeInstance(["unit"], {"unit": Colour.green}), r_b),
]
for inst, want in cases:
    expect(dep.parent(inst) is want, f"dep.parent {inst.controllers_loaded} {inst.controller_values}")
    expect(ctl.instance_value_type(inst) is want, "instance_value_type via dep")
    expect(ctl.pattern_value(inst, want.max) == 0x8000, "dep pattern max")
    expect(ctl.pattern_value(inst, want.min) == 0, "dep pattern min")
try:
    dep.parent(FakeInstance({"unit"}, {"unit": "bogus"}))
except KeyError:
    pass
else:
    expect(False, "unknown unit should raise KeyError")


# a value_type whose `parent` attribute lookup fails is used as-is
class NoParent:
    def __getattr__(self, item):
        raise AttributeError(item)


np_ = NoParent()
ctl = Controller(np_, 0)
expect(ctl.instance_value_type(fake) is np_, "no-parent value type")
expect(ctl.pattern_value(fake, 7) == 7, "no-parent passthrough")

# --- 3. Range.validate / __call__ ---------------------------------------------
records = []


class Catch(logging.Handler):
    def emit(self, record):
        records.append(record)


h = Catch()
rc.log.addHandler(h)
rc.log.setLevel(logging.WARNING)
rc.log.propagate = False
for cls in (Range, CompactRange, NoOffsetRange):
    r = cls(-5, 9)
    for v in range(-5, 10):
        expect(r(v) == v and r.validate(v) is None, f"{cls.__name__} accept {v}")
    for v in (-6, 10, -1000, 1000, 9.5, -5.5):
        try:
            r(v)
        except RangeValidationError as e:
            expect(e.args == (v, -5, 9), f"error args {e.args}")
        else:
            expect(False, f"{cls.__name__} should reject {v}")
    expect(r(8.5) == 8.5, "float inside accepted")
    nan = float("nan")
    expect(r(nan) is nan, "nan is not rejected (neither < min nor > max)")
expect(not records, "no warnings from strict ranges")
w = WarnOnlyRange(1, 4)
for v in (1, 2, 3, 4):
    expect(w(v) == v, "warnonly accept")
expect(not records, "no warnings inside range")
for n, v in enumerate((0, 5, -7), 1):
    expect(w(v) == v, "warnonly returns value")
    expect(len(records) == n, "warnonly logs once")
    expect(records[-1].getMessage() == str(RangeValidationError(v, 1, 4)), "warn message")
    expect(records[-1].levelno == logging.WARNING, "warn level")
rc.log.removeHandler(h)

# --- 4. every real controller of every module type -----------------------------
n_ctl = 0
for mtype, cls in sorted(MODULE_CLASSES.items()):
    mod = cls()
    for name, ctl in cls.controllers.items():
        vt = ctl.value_type
        variants = []
        if isinstance(vt, DependentRange):
            for unit, rng in vt.range_map.items():
                m = cls()
                setattr(m, vt.ctl_name, unit)
                expect(ctl.instance_value_type(m) is rng, f"{mtype}.{name} unit {unit}")
                variants.append((m, rng))
            m = cls()
            m.controllers_loaded = set()
            expect(ctl.instance_value_type(m) is vt.default, f"{mtype}.{name} default range")
        else:
            t = ctl.controller(mod).instance_value_type(mod)
            variants.append((mod, t))
        for m, t in variants:
            n_ctl += 1
            if isinstance(t, Range):
                vals = sample_values(t.min, t.max)
                for v in vals:
                    pv = ctl.controller(m).pattern_value(m, v)
                    if pv != ref_pattern(t, v):
                        expect(False, f"{mtype}.{name} pattern({v})={pv}")
                        break
                c = ctl.controller(m)
                expect(c.pattern_value(m, t.min) == 0, f"{mtype}.{name} min")
                if isinstance(t, CompactRange):
                    expect(c.pattern_value(m, t.max) == t.max - t.min, f"{mtype}.{name} cmax")
                else:
                    expect(c.pattern_value(m, t.max) == 0x8000, f"{mtype}.{name} max")
            elif isinstance(t, type) and issubclass(t, Enum):
                for member in t:
                    expect(ctl.pattern_value(m, member) is member, f"{mtype}.{name} enum")
            elif t is bool:
                for b in (True, False):
                    expect(ctl.pattern_value(m, b) is b, f"{mtype}.{name} bool")
expect(n_ctl > 300, f"expected many controllers, saw {n_ctl}")

if failures:
    print("FAIL")
    for f in failures[:40]:
        print("  ", f)
    sys.exit(1)
print(f"PASS ({n_ctl} controller variants)")
