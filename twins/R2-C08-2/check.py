"""Behaviour check for the module-level link chunk readers of property C08
(ModuleReader.process_SLNK / process_SLnK).

The handlers are driven directly with hand-made payloads (empty, freed entries
at the start / middle / end, payloads whose size is not a multiple of four,
repeated chunks), through the generic chunk dispatcher, and through complete
files in which SLnK is present, absent, or present for only some modules.

Run:  cd <root> && PYTHONPATH=<root>/src/python /venv/bin/python check.py
"""
import io
import logging
import random
import struct
import sys

from rv.api import Project, m, read_sunvox_file
from rv.lib.iff import write_chunk
from rv.readers.module import ModuleReader
from rv.readers.reader import ReaderFinished

FAILURES = []


def expect(cond, msg):
    if not cond:
        FAILURES.append(msg)


def i32(*values):
    return struct.pack("<" + "i" * len(values), *values)


def ref_append(table, data):
    """Reference semantics of one SLNK/SLnK chunk applied to ``table``."""
    if not data:
        return
    n = len(data) // 4
    values = struct.unpack("<" + "i" * n, data)
    table.extend(values)
    while table and table[-1] == -1:
        table.pop()


def new_reader(index=1):
    reader = ModuleReader(None, index=index)
    reader._object = m.Amplifier()
    return reader


PAYLOADS = [
    (),
    (-1,),
    (-1, -1, -1),
    (0,),
    (3,),
    (3, -1),
    (3, -1, -1, -1),
    (-1, 3),
    (-1, -1, 3, -1, -1),
    (1, 2, 3),
    (1, -1, 3),
    (1, -1, 3, -1),
    (0, 0, 0),
    (0, -1, 0, -1),
    (-2,),
    (5, -2, -1),
    (2**31 - 1, -(2**31)),
    tuple(range(40)),
    tuple([-1] * 39 + [7]),
    tuple([7] + [-1] * 39),
    (255, 256, 65535, 65536),
]


def scenario_direct_calls():
    for handler, attr, other in (
        ("process_SLNK", "in_links", "in_link_slots"),
        ("process_SLnK", "in_link_slots", "in_links"),
    ):
        for payload in PAYLOADS:
            reader = new_reader()
            table = getattr(reader.object, attr)
            expected = []
            ref_append(expected, i32(*payload))
            result = getattr(reader, handler)(i32(*payload))
            expect(result is None, f"{handler}{payload}: returns None")
            expect(
                getattr(reader.object, attr) is table,
                f"{handler}{payload}: table list object is updated in place",
            )
            expect(table == expected, f"{handler}{payload}: {table} != {expected}")
            expect(
                all(type(v) is int for v in table), f"{handler}{payload}: int entries"
            )
            expect(
                getattr(reader.object, other) == [],
                f"{handler}{payload}: the other table is untouched",
            )
            expect(
                reader.object.out_links == [] and reader.object.out_link_slots == [],
                f"{handler}{payload}: out tables untouched",
            )


def scenario_repeated_chunks():
    # A second chunk of the same kind appends to what is there; trailing freed
    # entries are removed from the combined table, even pre-existing ones.
    rng = random.Random(7)
    for handler, attr in (("process_SLNK", "in_links"), ("process_SLnK", "in_link_slots")):
        for _ in range(200):
            reader = new_reader()
            table = getattr(reader.object, attr)
            expected = []
            for _ in range(rng.randint(1, 4)):
                payload = tuple(
                    rng.choice([-1, -1, 0, 1, 2, 9]) for _ in range(rng.randint(0, 6))
                )
                getattr(reader, handler)(i32(*payload))
                ref_append(expected, i32(*payload))
                expect(table == expected, f"{handler} repeated: {table} != {expected}")
        # pre-seeded table with freed tail and a chunk that is entirely freed
        reader = new_reader()
        table = getattr(reader.object, attr)
        table.extend([4, -1, -1])
        getattr(reader, handler)(i32(-1, -1))
        expect(table == [4], f"{handler}: pre-existing freed tail is trimmed too")
        # pre-seeded table, empty payload: nothing happens (not even trimming)
        reader = new_reader()
        table = getattr(reader.object, attr)
        table.extend([4, -1, -1])
        getattr(reader, handler)(b"")
        expect(table == [4, -1, -1], f"{handler}: empty payload is a no-op")
        # all freed: table ends up empty
        reader = new_reader()
        table = getattr(reader.object, attr)
        table.extend([-1])
        getattr(reader, handler)(i32(-1, -1, -1))
        expect(table == [], f"{handler}: everything freed leaves an empty table")


def scenario_bad_sizes():
    for handler, attr in (("process_SLNK", "in_links"), ("process_SLnK", "in_link_slots")):
        for size in (1, 2, 3, 5, 6, 7, 9, 41):
            reader = new_reader()
            table = getattr(reader.object, attr)
            table.extend([8, -1])
            data = bytes(range(size))
            want = None
            try:
                struct.unpack("<" + "i" * (size // 4), data)
            except struct.error as e:
                want = str(e)
            try:
                getattr(reader, handler)(data)
            except struct.error as e:
                expect(str(e) == want, f"{handler} size {size}: message {e!s} != {want}")
            else:
                expect(False, f"{handler} size {size}: expected struct.error")
            expect(table == [8, -1], f"{handler} size {size}: table left alone on error")
        # bytearray / memoryview payloads work like bytes
        reader = new_reader()
        getattr(reader, handler)(bytearray(i32(1, -1, 2, -1)))
        expect(getattr(reader.object, attr) == [1, -1, 2], f"{handler}: bytearray")
        reader = new_reader()
        getattr(reader, handler)(memoryview(i32(1, -1, 2, -1)))
        expect(getattr(reader.object, attr) == [1, -1, 2], f"{handler}: memoryview")


def scenario_dispatch():
    # Through Reader.process_chunks: chunk names map onto the handlers,
    # case-sensitively, and the handlers are plain callables on the instance.
    reader = new_reader()
    for name in ("process_SLNK", "process_SLnK"):
        expect(callable(getattr(reader, name, None)), f"{name} is callable")
        expect(name in vars(ModuleReader), f"{name} defined on ModuleReader")
    f = io.BytesIO()
    write_chunk(f, b"SFFF", struct.pack("<I", 0x49))
    write_chunk(f, b"SNAM", b"amp".ljust(32, b"\0"))
    write_chunk(f, b"STYP", b"Amplifier\0")
    write_chunk(f, b"SLNK", i32(3, -1, 2, -1, -1))
    write_chunk(f, b"SLnK", i32(1, -1, 4, -1, -1))
    write_chunk(f, b"CVAL", struct.pack("<i", 77))
    write_chunk(f, b"SEND", b"")
    write_chunk(f, b"SLNK", i32(9, 9, 9))  # after SEND: must not be consumed
    f.seek(0)
    reader = ModuleReader(f, index=3)
    mod = reader.object
    expect(type(mod).__name__ == "Amplifier", "dispatch: module type")
    expect(mod.in_links == [3, -1, 2], f"dispatch: in_links {mod.in_links}")
    expect(mod.in_link_slots == [1, -1, 4], f"dispatch: in_link_slots {mod.in_link_slots}")
    expect(mod.out_links == [] and mod.out_link_slots == [], "dispatch: out tables")
    expect(mod.volume == 77, "dispatch: controller after link chunks still loads")
    expect(f.read(4) == b"SLNK", "dispatch: reader stopped at SEND")
    # STYP after SLNK replaces the module object: links read before are lost,
    # links read after land on the new object (documented quirk of chunk order).
    f = io.BytesIO()
    write_chunk(f, b"SFFF", struct.pack("<I", 0x49))
    write_chunk(f, b"SNAM", b"amp".ljust(32, b"\0"))
    write_chunk(f, b"SLNK", i32(5))
    write_chunk(f, b"STYP", b"Amplifier\0")
    write_chunk(f, b"SLnK", i32(6))
    write_chunk(f, b"SEND", b"")
    f.seek(0)
    mod = ModuleReader(f, index=1).object
    expect(mod.in_links == [] and mod.in_link_slots == [6], "dispatch: STYP ordering")
    # Output module (index 0) takes the same path
    f = io.BytesIO()
    write_chunk(f, b"SFFF", struct.pack("<I", 0x43))
    write_chunk(f, b"SNAM", b"Output".ljust(32, b"\0"))
    write_chunk(f, b"SLNK", i32(-1, 1, -1))
    write_chunk(f, b"SEND", b"")
    f.seek(0)
    mod = ModuleReader(f, index=0).object
    expect(type(mod).__name__ == "Output", "dispatch: output type")
    expect(mod.in_links == [-1, 1] and mod.in_link_slots == [], "dispatch: output links")


# --------------------------------------------------------------------------
# whole-file behaviour
# --------------------------------------------------------------------------


def strip(lst):
    lst = list(lst)
    while lst and lst[-1] == -1:
        lst.pop()
    return lst


def tables(project):
    return [
        None
        if mod is None
        else (
            strip(mod.in_links),
            strip(mod.in_link_slots),
            strip(mod.out_links),
            strip(mod.out_link_slots),
        )
        for mod in project.modules
    ]


def consistent(project):
    for mod in project.modules:
        if mod is None:
            continue
        if len(mod.in_links) != len(mod.in_link_slots):
            return False
        for i, (src, slot) in enumerate(zip(mod.in_links, mod.in_link_slots)):
            if src == -1:
                if slot != -1:
                    return False
                continue
            other = project.modules[src]
            if other.out_links[slot] != mod.index or other.out_link_slots[slot] != i:
                return False
        for i, (dst, slot) in enumerate(zip(mod.out_links, mod.out_link_slots)):
            if dst == -1:
                continue
            other = project.modules[dst]
            if other.in_links[slot] != mod.index or other.in_link_slots[slot] != i:
                return False
    return True


def edges(project):
    return sorted(
        (src, mod.index)
        for mod in project.modules
        if mod is not None
        for src in mod.in_links
        if src != -1
    )


def random_project(seed):
    rng = random.Random(seed)
    p = Project()
    mods = [p.output]
    kinds = [m.Amplifier, m.Generator, m.MultiCtl, m.Filter, m.Lfo]
    for _ in range(rng.randint(1, 7)):
        mods.append(p.new_module(rng.choice(kinds)))
    for _ in range(rng.randint(0, 30)):
        a, b = rng.choice(mods), rng.choice(mods)
        if rng.random() < 0.3:
            p.connect(~a, b)
        else:
            p.connect(a, b)
    return p


def load(chunks):
    f = io.BytesIO()
    for name, data in chunks:
        write_chunk(f, name, data)
    f.seek(0)
    return read_sunvox_file(f)


def scenario_files():
    for seed in range(120):
        p = random_project(seed)
        chunks = [tuple(c) for c in p.chunks()]
        q = load(chunks)
        expect(tables(q) == tables(p), f"file[{seed}]: full round trip")
        expect(consistent(q), f"file[{seed}]: consistent")
        for mod_p, mod_q in zip(p.modules, q.modules):
            # loaded in-tables never end with a freed entry
            expect(mod_q.in_links[-1:] != [-1], f"file[{seed}]: in_links trimmed")
            expect(mod_q.in_link_slots[-1:] != [-1], f"file[{seed}]: slots trimmed")
        # SLnK removed everywhere / for a random subset of modules
        rng = random.Random(seed)
        for label, keep in (
            ("none", lambda: False),
            ("some", lambda: rng.random() < 0.5),
        ):
            subset = [c for c in chunks if c[0] != b"SLnK" or keep()]
            q = load(subset)
            expect(edges(q) == edges(p), f"file[{seed}]/{label}: same edges")
            expect(
                [strip(x.in_links) for x in q.modules]
                == [strip(x.in_links) for x in p.modules],
                f"file[{seed}]/{label}: same in_links order",
            )
        # trailing freed entries padded onto every SLNK/SLnK make no difference
        padded = [
            (n, d + i32(-1, -1)) if n in (b"SLNK", b"SLnK") and d else (n, d)
            for n, d in chunks
        ]
        q = load(padded)
        expect(tables(q) == tables(p), f"file[{seed}]: padded link chunks")


def scenario_issue109():
    import pathlib

    path = pathlib.Path("tests/files/issue109/filter_lfo.sunvox")
    if not path.exists():
        return
    p = read_sunvox_file(str(path))
    expect(consistent(p), "issue109: consistent")
    q = load(p.chunks())
    expect(tables(q) == tables(p), "issue109: round trip")


def main():
    logging.disable(logging.CRITICAL)
    scenario_direct_calls()
    scenario_repeated_chunks()
    scenario_bad_sizes()
    scenario_dispatch()
    scenario_files()
    scenario_issue109()
    if FAILURES:
        for msg in FAILURES[:40]:
            print("FAIL:", msg)
        print(f"{len(FAILURES)} failure(s)")
        sys.exit(1)
    print("PASS")


if __name__ == "__main__":
    main()
