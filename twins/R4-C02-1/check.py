"""Behaviour check for the rv.chunks (ArrayChunk / WaveformChunk) code paths.

Passes on the unchanged tree and with the refactoring applied.
"""
import io
import contextlib
import random
import struct
import sys
from types import SimpleNamespace

from rv.api import Project, Synth, read_sunvox_file
from rv import modules as m
from rv.chunks import ArrayChunk, DrawnWaveformChunk, WaveformChunk
from rv.modules.metamodule import MetaModule

rnd = random.Random(20260402)
failures = []


def check(cond, msg):
    if not cond:
        failures.append(msg)


def quiet(fn, *a, **kw):
    with contextlib.redirect_stdout(io.StringIO()):
        return fn(*a, **kw)


# ---------------------------------------------------------------- ArrayChunk
class U8(ArrayChunk):
    chnm = 0
    length = 5
    type = "B"
    element_size = 1
    min_value = 0
    max_value = 200
    default = 7


class S16(ArrayChunk):
    chnm = 1
    length = 4
    type = "h"
    element_size = 2
    min_value = -5
    max_value = 9


class Pair:
    def __init__(self, v):
        self.a, self.b = v


class Pairs(ArrayChunk):
    chnm = 2
    length = 3
    type = "HB"
    element_size = 3

    def default(self, i):
        return Pair((i, i + 1))

    python_type = Pair

    @property
    def encoded_values(self):
        out = []
        for p in self.values:
            out += [p.a, p.b]
        return out


class ListDefault(ArrayChunk):
    chnm = 3
    length = 3
    type = "I"
    element_size = 4
    default = [1, 2, 3]


class PropDefault(ArrayChunk):
    chnm = 3
    length = 2
    type = "B"
    element_size = 1

    @property
    def default(self):
        return [4, 5]


class FnDefault(ArrayChunk):
    chnm = 4
    length = 6
    type = "b"
    element_size = 1
    min_value = 0  # falsy: historically means "no lower bound"
    max_value = 3

    def default(self, x):
        return x - 2


class Picky(ArrayChunk):
    chnm = 5
    length = 4
    type = "B"
    element_size = 1

    @staticmethod
    def python_type(v):
        if v == 99:
            raise ValueError("bad element")
        return v * 2


c = U8()
check(c.values == [7] * 5, "scalar default")
check(c.bytes == bytes([7] * 5), "U8 bytes")
check(c.chdt() == c.bytes, "chdt is bytes")
check(list(c.chunks()) == [(b"CHNM", struct.pack("<I", 0)), (b"CHDT", bytes([7] * 5))],
      "U8 chunks")
c.bytes = b"\x00\x01\xff"
check(c.values == [0, 1, 255], "short data accepted as-is (no padding)")
c.bytes = b""
check(c.values == [], "empty data -> no values")
c.reset()
check(c.values == [7] * 5, "reset restores")

s = S16()
check(s.values == [0, 0, 0, 0], "None default -> zeros")
s.bytes = struct.pack("<4h", -32768, -1, 0, 32767) + b"\x55"
check(s.values == [-32768, -1, 0, 32767], "trailing partial element ignored")
check(s.bytes == struct.pack("<4h", -32768, -1, 0, 32767), "S16 repack")
s.bytes = b"\x01"
check(s.values == [], "less than one element -> empty")
s.set_via_fn(lambda x: (x - 2) * 10)
check(s.values == [-5, -5, 0, 9], "set_via_fn clamps both ends: %r" % s.values)
before = list(s.values)


def boom(x):
    if x == 2:
        raise KeyError("boom")
    return x


try:
    s.set_via_fn(boom)
    check(False, "set_via_fn must propagate")
except KeyError:
    check(s.values == before, "values untouched when fn raises")

p = Pairs()
check([(x.a, x.b) for x in p.values] == [(0, 1), (1, 2), (2, 3)], "callable default")
check(p.bytes == struct.pack("<HBHBHB", 0, 1, 1, 2, 2, 3), "multi-field pack")
p.bytes = struct.pack("<HBHB", 65535, 255, 256, 0) + b"\x01\x02"
check([(x.a, x.b) for x in p.values] == [(65535, 255), (256, 0)], "multi-field unpack")
check(all(isinstance(x, Pair) for x in p.values), "python_type applied to tuple")

ld = ListDefault()
check(ld.values == [1, 2, 3] and ld.values is not ListDefault.default, "list default copied")
ld.values[0] = 99
check(ListDefault.default == [1, 2, 3], "class default not aliased")
check(PropDefault().values == [4, 5], "property default")

f = FnDefault()
check(f.values == [-2, -1, 0, 1, 2, 3], "min_value 0 does not clamp: %r" % f.values)
f.set_via_fn(lambda x: x * 2)
check(f.values == [0, 2, 3, 3, 3, 3], "max clamp")

k = Picky()
k.bytes = bytes([1, 2, 3])
check(k.values == [2, 4, 6], "python_type callable")
try:
    k.bytes = bytes([5, 6, 99, 7])
    check(False, "python_type error must propagate")
except ValueError:
    check(k.values == [10, 12], "elements decoded before the failure are kept: %r" % k.values)


class NoSize(ArrayChunk):
    length = 2
    type = "B"


n = NoSize()
try:
    n.bytes = b"\x01\x02"
    check(False, "missing element_size must fail")
except TypeError:
    check(n.values == [], "values cleared before failure")


class BadType(ArrayChunk):
    length = 2
    element_size = 1


try:
    BadType().bytes
    check(False, "missing type must fail")
except TypeError:
    pass


class Mismatch(ArrayChunk):
    length = 2
    type = "H"
    element_size = 1


try:
    Mismatch().bytes = b"\x01\x02"
    check(False, "size mismatch must raise struct.error")
except struct.error:
    pass

# MetaModule mapping array pads to full length after load
ma = MetaModule.MappingArray()
ma.bytes = struct.pack("<HHHH", 1, 2, 3, 4)
check(len(ma.values) == ma.length, "MetaModule mappings padded")
check([(x.module, x.controller) for x in ma.values[:3]] == [(1, 2), (3, 4), (0, 0)],
      "MetaModule mappings decoded")

# randomised pack/unpack on the real chunk classes
real = [
    (m.MultiSynth.note_velocity_curve_chunk, 0, 255),
    (m.MultiSynth.velocity_velocity_curve_chunk, 0, 255),
    (m.MultiSynth.note_pitch_curve_chunk, 0, 65535),
    (m.WaveShaper.curve_chunk, 0, 65535),
    (m.MultiCtl.curve_chunk, 0, 65535),
    (m.SpectraVoice.harmonic_freqs_chunk, 0, 65535),
    (m.SpectraVoice.harmonic_volumes_chunk, 0, 255),
    (m.SpectraVoice.harmonic_widths_chunk, 0, 255),
]
for cls, lo, hi in real:
    for trial in range(4):
        ch = cls()
        vals = [rnd.choice([lo, hi, rnd.randint(lo, hi)]) for _ in range(ch.length)]
        ch.values = list(vals)
        raw = ch.bytes
        check(len(raw) == ch.length * ch.element_size, cls.__name__ + " size")
        ch2 = cls()
        ch2.bytes = raw
        check(ch2.values == vals, cls.__name__ + " round trip")
        check(ch2.bytes == raw, cls.__name__ + " stable")

fw = m.Fmx.custom_waveform_chunk()
fvals = [struct.unpack("<f", struct.pack("<f", rnd.uniform(-1, 1)))[0] for _ in range(256)]
fvals[0], fvals[1], fvals[2] = -1.0, 1.0, 0.0
fw.values = list(fvals)
fw2 = m.Fmx.custom_waveform_chunk()
fw2.bytes = fw.bytes
check(fw2.values == fvals and all(type(v) is float for v in fw2.values), "Fmx floats")

# ------------------------------------------------------------- WaveformChunk
d = DrawnWaveformChunk()
d.chnm = 0
check(d.is_default and list(d.chunks()) == [], "default drawn waveform not written")
check(d.samples is not DrawnWaveformChunk.default, "default copied")
d.samples = [0, -1, -128, 127, 1, -127, 128, 255, 256, -129] + [3] * 22
check(d.bytes == bytes([0, 255, 128, 127, 1, 129, 128, 255, 0, 127] + [3] * 22), "8-bit masking")
check(list(d.chunks()) == [
    (b"CHNM", struct.pack("<I", 0)),
    (b"CHDT", d.bytes),
    (b"CHFR", struct.pack("<I", 44100)),
], "drawn waveform chunks")
w = WaveformChunk()
check(w.samples == [] and w.format is None and w.bytes == b"", "plain waveform chunk")
for fmt in WaveformChunk.Format:
    w.format = fmt
    w.samples = [1, 2]
    if fmt is WaveformChunk.Format.mono_8bit:
        check(w.bytes == b"\x01\x02", "mono8 ok")
        check(w.chff() == struct.pack("<I", 1), "chff")
    else:
        try:
            w.bytes
            check(False, "format %s must be unsupported" % fmt)
        except NotImplementedError:
            pass

# load_drawn_waveform on both generator flavours
all_bytes = bytes(range(256))
expected_signed = list(range(128)) + list(range(-128, 0))
for cls in (m.Generator, m.AnalogGenerator):
    mod = quiet(cls)
    mod.load_drawn_waveform(SimpleNamespace(chnm=0, chdt=all_bytes, chff=0, chfr=22050))
    dw = mod.drawn_waveform
    check(dw.samples == expected_signed, cls.__name__ + " signed conversion")
    check(dw.format is WaveformChunk.Format.mono_8bit and dw.freq == 22050,
          cls.__name__ + " format/freq defaults")
    check(dw.bytes == all_bytes, cls.__name__ + " re-encode")
    mod.load_drawn_waveform(SimpleNamespace(chnm=0, chdt=[300, -1, 128.9], chff=1, chfr=None))
    check(dw.samples == [44, -1, -128] and dw.freq is None, cls.__name__ + " odd inputs")
    mod.load_drawn_waveform(SimpleNamespace(chnm=0, chdt=b"\x01", chff=0x0A, chfr=1))
    check(dw.format is WaveformChunk.Format.stereo_16bit, cls.__name__ + " other format")
    try:
        mod.load_drawn_waveform(SimpleNamespace(chnm=0, chdt=b"\x80\x7f", chff=3, chfr=5))
        check(False, "invalid chff must raise")
    except ValueError:
        check(dw.samples == [-128, 127] and dw.freq == 1,
              cls.__name__ + " samples set, freq untouched before format error")


# ------------------------------------------------- whole-module round trips
def rt_synth(mod):
    buf = io.BytesIO()
    Synth(mod).write_to(buf)
    buf.seek(0)
    return quiet(read_sunvox_file, buf).module


def rt_project(mod_factory):
    proj = Project()
    mod = proj.attach_module(mod_factory())
    buf = io.BytesIO()
    proj.write_to(buf)
    buf.seek(0)
    return quiet(read_sunvox_file, buf).modules[mod.index]


wave_sets = [
    [rnd.randint(-128, 127) for _ in range(32)],
    [-128] * 32,
    [127] * 32,
    [0, -1] * 16,
    list(DrawnWaveformChunk.default),
]
for samples in wave_sets:
    for cls in (m.Generator, m.AnalogGenerator):
        make = lambda: quiet(cls, samples=list(samples))
        for back in (rt_synth(make()), make().clone(), rt_project(make)):
            check(type(back) is cls, "type kept")
            check(back.drawn_waveform.samples == samples, cls.__name__ + " waveform rt")

nv = [rnd.randint(0, 255) for _ in range(128)]
vv = [rnd.randint(0, 255) for _ in range(257)]
np_ = [rnd.choice([0, 65535, 16384]) for _ in range(128)]


def make_ms():
    ms = m.MultiSynth(nv_values=list(nv), vv_values=list(vv), transpose=-128)
    ms.np_curve.values = list(np_)
    return ms


for back in (rt_synth(make_ms()), make_ms().clone(), rt_project(make_ms)):
    check(back.nv_curve.values == nv and back.vv_curve.values == vv
          and back.np_curve.values == np_ and back.transpose == -128, "MultiSynth rt")
plain = m.MultiSynth().clone()
check(plain.np_curve.values == m.MultiSynth.note_pitch_curve_chunk.default, "np default rt")

ws_vals = [rnd.choice([0, 65535, rnd.randint(0, 65535)]) for _ in range(256)]
for back in (rt_synth(m.WaveShaper(values=list(ws_vals))),
             rt_project(lambda: m.WaveShaper(values=list(ws_vals)))):
    check(back.curve.values == ws_vals, "WaveShaper rt")

for back in (rt_synth(m.Fmx(custom_waveform_values=list(fvals))),
             rt_project(lambda: m.Fmx(custom_waveform_values=list(fvals)))):
    check(back.custom_waveform.values == fvals, "Fmx rt")

maps = [(rnd.randint(0, 0x8000), rnd.randint(0, 0x8000), rnd.randint(0, 255), i % 2, 0, 0, 0, 0)
        for i in range(16)]
mc_curve = [rnd.randint(0, 32768) for _ in range(257)]
for back in (rt_synth(m.MultiCtl(mappings=maps, curve=list(mc_curve))),
             rt_project(lambda: m.MultiCtl(mappings=maps, curve=list(mc_curve)))):
    got = [(x.min, x.max, x.controller, x.flags, x.future_use2, x.future_use3,
            x.future_use4, x.future_use5) for x in back.mappings.values]
    check(got == maps and back.curve.values == mc_curve, "MultiCtl rt")

HT = m.SpectraVoice.HarmonicType
harm = [(rnd.randint(0, 22050), rnd.randint(0, 255), rnd.randint(0, 3), rnd.choice(list(HT)))
        for _ in range(16)]
for back in (rt_synth(m.SpectraVoice(harmonics=harm)),
             rt_project(lambda: m.SpectraVoice(harmonics=harm))):
    got = [(h.freq_hz, h.volume, h.width, h.type) for h in back.harmonics]
    check(got == harm, "SpectraVoice rt")

if failures:
    print("FAIL")
    for f_ in failures:
        print(" -", f_)
    sys.exit(1)
print("PASS")
