"""Behaviour check for C06-1: the write side of rv.modules.sampler.Sampler."""
import hashlib
import logging
import struct
import sys
import traceback
from io import BytesIO
from pathlib import Path

import rv
from rv.api import NOTE, Project, Synth, m, read_sunvox_file

logging.disable(logging.CRITICAL)

ROOT = Path(rv.__file__).resolve().parents[3]
FILES = ROOT / "tests" / "files"
Sampler = m.Sampler

FAILURES = []
OBSERVED = {}


def check(cond, label):
    if not cond:
        FAILURES.append(label)
        print("FAIL:", label)


def sha(data):
    return hashlib.sha256(data).hexdigest()[:20]


def golden(key, data):
    """Compare a digest of `data` with the value recorded on the original tree."""
    digest = sha(data if isinstance(data, bytes) else repr(data).encode())
    OBSERVED[key] = digest
    if "--record" in sys.argv:
        return
    check(key in GOLDEN, "golden value missing for %s" % key)
    check(GOLDEN.get(key) == digest, "golden mismatch for %s" % key)


def raises(exc_type, fn, label):
    try:
        fn()
    except exc_type as e:
        check(type(e) is exc_type, "%s: raised %r" % (label, type(e)))
        return
    except Exception as e:  # noqa
        check(False, "%s: raised %r instead of %r" % (label, type(e), exc_type))
        return
    check(False, "%s: did not raise" % label)


# ---------------------------------------------------------------- IFF helpers


def parse_iff(data):
    out = []
    pos = 0
    while pos < len(data):
        name = data[pos : pos + 4]
        (size,) = struct.unpack("<I", data[pos + 4 : pos + 8])
        out.append((name, data[pos + 8 : pos + 8 + size]))
        pos += 8 + size
    return out


def build_iff(chunks):
    return b"".join(n + struct.pack("<I", len(d)) + d for n, d in chunks)


def module_chunk_sections(data):
    """Return, per CHNK found at this nesting level, the list of chunks after it
    up to (not including) SEND."""
    sections = []
    current = None
    for name, payload in parse_iff(data):
        if name == b"CHNK":
            current = []
            sections.append(current)
        elif name == b"SEND":
            current = None
        elif current is not None:
            current.append((name, payload))
    return sections


def rewrite_config_record(data, fn, which=0):
    """Apply fn to the CHDT of CHNM 0 of the `which`-th module with a CHNK."""
    chunks = parse_iff(data)
    out = []
    section = -1
    in_section = False
    pending = False
    for name, payload in chunks:
        if name == b"CHNK":
            section += 1
            in_section = True
        elif name == b"SEND":
            in_section = False
        elif in_section and section == which and name == b"CHNM":
            pending = payload == b"\0\0\0\0"
        elif pending and name == b"CHDT":
            payload = fn(payload)
            pending = False
        out.append((name, payload))
    return build_iff(out)


SIGN_OFFSET = 0xFC  # 4 + 22 + 2 + 2 + 2 + 4 + 96 + 48 + 48 + 10 + 4 + 2 + 4 + 4


def break_signature(record):
    assert record[SIGN_OFFSET : SIGN_OFFSET + 4] == b"PMAS", record[SIGN_OFFSET:][:4]
    return record[:SIGN_OFFSET] + b"XMAS" + record[SIGN_OFFSET + 4 :]


def overlong(record):
    return record + b"\0" * (0x191 - len(record)) if len(record) <= 0x190 else record


def exactly_0x190(record):
    return record.ljust(0x190, b"\0")


def truncated(record):
    # stops right before max_version / editor_cursor / editor_selected_size
    return record[:0x184]


def truncated_mid(record):
    # keeps max_version, drops both editor fields
    return record[:0x188]


# ------------------------------------------------------------- object helpers


def save(obj):
    f = BytesIO()
    obj.write_to(f)
    return f.getvalue()


def load(data):
    return read_sunvox_file(BytesIO(data))


def env_state(env):
    return (
        env.chnm,
        env.enable,
        env.sustain,
        env.loop,
        env.ctl_index,
        env.gain_pct,
        env.velocity,
        env.sustain_point,
        env.loop_start_point,
        env.loop_end_point,
        list(env.points),
        env.loaded,
    )


def sample_state(s):
    if s is None:
        return None
    return (
        s.data,
        s.loop_start,
        s.loop_len,
        s.volume,
        s.finetune,
        s.format,
        s.channels,
        s.rate,
        s.loop_type,
        s.loop_sustain,
        s.panning,
        s.relative_note,
        s.reserved2,
        s.name,
        s.start_pos,
    )


def effect_state(effect):
    if effect is None:
        return None
    mod = effect.module
    return (type(mod).__name__, dict(mod.controller_values), dict(mod.option_values))


def sampler_state(mod):
    st = {}
    for name in mod.controllers:
        st["ctl." + name] = getattr(mod, name)
    for name in mod.options:
        st["opt." + name] = getattr(mod, name)
    for name in (
        "name flags mod_finetune mod_relative_note mod_scale color midi_in_always "
        "midi_in_channel midi_out_name midi_out_channel midi_out_bank "
        "midi_out_program instrument_name version max_version volume_old "
        "ins_finetune ins_relative_note editor_cursor editor_selected_size "
        "unused1 unused2 unused3 unused4 unused5 unused6 is_legacy"
    ).split():
        st[name] = getattr(mod, name)
    st["legacy_chunks"] = (
        None
        if mod.legacy_chunks is None
        else [(c.chnm, c.chdt, c.chff, c.chfr) for c in mod.legacy_chunks]
    )
    st["env.volume"] = env_state(mod.volume_envelope)
    st["env.panning"] = env_state(mod.panning_envelope)
    st["env.pitch"] = env_state(mod.pitch_envelope)
    for i, env in enumerate(mod.effect_control_envelopes):
        st["env.effect%d" % i] = env_state(env)
    st["note_samples"] = mod.note_samples.bytes
    for i, s in enumerate(mod.samples):
        if s is not None:
            st["sample%d" % i] = sample_state(s)
    st["sample_slots"] = [s is not None for s in mod.samples]
    st["effect"] = effect_state(mod.effect)
    return st


def changed_keys(before, after):
    keys = set(before) | set(after)
    return sorted(k for k in keys if before.get(k, "<absent>") != after.get(k, "<absent>"))


def wave(n, seed=1):
    return bytes((i * 37 + seed * 11) % 256 for i in range(n))


def make_sample(fmt, channels, frames=8, seed=1, **kw):
    s = Sampler.Sample()
    s.format = fmt
    s.channels = channels
    s.data = wave(frames * s.frame_size, seed)
    s.rate = 22050 + seed
    s.name = b"smp%d" % seed
    for k, v in kw.items():
        setattr(s, k, v)
    return s


def build_sampler(with_effect=True, slots=(0, 3, 6)):
    mod = Sampler(instrument_name=b"built")
    mod.volume = 300
    mod.polyphony = 5
    mod.vibrato_type = mod.VibratoType.saw
    mod.vibrato_attack = 17
    mod.vibrato_depth = 99
    mod.vibrato_rate = 33
    mod.volume_fadeout = 1234
    mod.record_in_mono = True
    mod.volume_envelope.points = [(0, 0x8000), (10, 0x2000), (200, 0)]
    mod.volume_envelope.sustain_point = 1
    mod.panning_envelope.enable = True
    mod.panning_envelope.points = [(0, -0x2000), (50, 0x2000)]
    mod.pitch_envelope.loop = True
    mod.pitch_envelope.loop_end_point = 1
    mod.effect_control_envelopes[2].gain_pct = 55
    combos = [
        (Sampler.Format.int8, Sampler.Channels.mono),
        (Sampler.Format.int16, Sampler.Channels.stereo),
        (Sampler.Format.float32, Sampler.Channels.mono),
        (Sampler.Format.int16, Sampler.Channels.mono),
        (Sampler.Format.float32, Sampler.Channels.stereo),
        (Sampler.Format.int8, Sampler.Channels.stereo),
    ]
    for n, slot in enumerate(slots):
        fmt, ch = combos[n % len(combos)]
        mod.samples[slot] = make_sample(
            fmt,
            ch,
            frames=4 + n,
            seed=slot + 1,
            loop_type=list(Sampler.LoopType)[n % 3],
            loop_sustain=bool(n % 2),
            loop_start=n,
            loop_len=n + 1,
            volume=30 + n % 30,
            finetune=-5 + n % 100,
            panning=-20 + 10 * (n % 9),
            relative_note=n % 50 - 2,
            start_pos=n,
        )
    mod.note_samples[NOTE.C4] = slots[-1] if slots else 0
    if with_effect:
        reverb = m.Reverb()
        reverb.wet = 77
        mod.effect = Synth(reverb)
    return mod


def fixture_bytes(name="sampler.sunsynth"):
    return (FILES / name).read_bytes()


def finish():
    if "--record" in sys.argv:
        print("GOLDEN = {")
        for k in sorted(OBSERVED):
            print("    %r: %r," % (k, OBSERVED[k]))
        print("}")
        return
    if FAILURES:
        print("FAILED (%d)" % len(FAILURES))
        sys.exit(1)
    print("PASS (%d golden digests)" % len(OBSERVED))

GOLDEN = {
    'built.chunk_names': '3c69b2ff00c141c2ea88',
    'built.edit.add-sample-slot-9': '07d12e8ae5fbcc3f0fe1',
    'built.edit.ctl.volume': '5bf278b5b4d0f482e9ef',
    'built.edit.drop-last-sample': '840ad38c30c734cd0114',
    'built.edit.edit-effect': '9b84f526a56e5a30dcc0',
    'built.edit.editor-cursor': 'b64c68e5fe5032022fb2',
    'built.edit.effect-env': '32b77bbc6cb8b116567a',
    'built.edit.fadeout': '22da526a8fce6dab1759',
    'built.edit.instrument-name': '695e521020083687b715',
    'built.edit.note-map': 'dbd7b433c8a3ca4686c6',
    'built.edit.option': 'aa76d660db8798b46529',
    'built.edit.pan-env-flag': '5b7292504eb04c1d6316',
    'built.edit.remove-effect': '943bfb81ccc0f8849ea5',
    'built.edit.sample-data': '9c01efefa4eeab5e8f71',
    'built.edit.sample-looptype': 'f1c2233b8adc802faf90',
    'built.edit.sample-sustain': '4462af2c8a4a167f17fc',
    'built.edit.sample-volume': '612ffd32bc8d3ccb186d',
    'built.edit.vibrato': 'c62781df60efc3e3f6fc',
    'built.edit.vol-env-points': '562f0d10c9253ca42600',
    'built.effect': '289b4ea1dc96931fbb8d',
    'built.legacy.len190.rewrite': '289b4ea1dc96931fbb8d',
    'built.legacy.len190.state': 'fb1a2a787f622da550b9',
    'built.legacy.long.edited': '47316e9462f9be08257e',
    'built.legacy.long.rewrite': 'f0e3fedce8c414a2eb13',
    'built.legacy.long.state': '0f7912429dbfa9bc70d3',
    'built.legacy.long.unlegacy': '8935c5ab9cf5aa57d436',
    'built.legacy.short.rewrite': '289b4ea1dc96931fbb8d',
    'built.legacy.short.state': 'fb1a2a787f622da550b9',
    'built.legacy.short2.rewrite': '289b4ea1dc96931fbb8d',
    'built.legacy.short2.state': 'fb1a2a787f622da550b9',
    'built.legacy.sign.edited': 'd60c45a32bd9b990517b',
    'built.legacy.sign.rewrite': '20b7578a7e1ba73aee00',
    'built.legacy.sign.state': '9721eb73aaabfc523793',
    'built.legacy.sign.unlegacy': '8935c5ab9cf5aa57d436',
    'built.noeffect': 'f3db2409e4a83ed9dea2',
    'fixture.chunk_names': '8e949968770c7a03f9e3',
    'fixture.edit.add-sample-slot-9': '4172157a5cb483a9a06c',
    'fixture.edit.ctl.volume': '9d432aceb5a70008af2a',
    'fixture.edit.drop-last-sample': 'f7a49f142c4626d27ec1',
    'fixture.edit.edit-effect': 'f8afe0a605fdee09be6e',
    'fixture.edit.editor-cursor': 'b5052d85a838602ec6d8',
    'fixture.edit.effect-env': 'b0f84e6cf70ee7ac5d0b',
    'fixture.edit.fadeout': '35c1df410bc51097473b',
    'fixture.edit.instrument-name': '5a17b872ab801901768a',
    'fixture.edit.note-map': '467f5944bbcb4159a936',
    'fixture.edit.option': '0e5e04d7aec3faf448df',
    'fixture.edit.pan-env-flag': 'e4c80d272c0fbb1b67e1',
    'fixture.edit.remove-effect': 'ee310b26860b8d4d1950',
    'fixture.edit.sample-data': '2843e74a150151e65e8a',
    'fixture.edit.sample-looptype': '9fd636c72eecc3873163',
    'fixture.edit.sample-sustain': '31884256b18b131b12c2',
    'fixture.edit.sample-volume': '1cc00b0b024255a0e543',
    'fixture.edit.vibrato': 'ade757db3fe8444a2356',
    'fixture.edit.vol-env-points': 'b6e4bdde8ac8f6ba28d7',
    'fixture.legacy.len190.rewrite': '3b0f2915c2ec0456c093',
    'fixture.legacy.len190.state': '0a843ec00a89752fb822',
    'fixture.legacy.long.edited': '175207f083007df7ac3d',
    'fixture.legacy.long.rewrite': '4871bffb9b8daefa7bd4',
    'fixture.legacy.long.state': 'e827b750af32f637e92b',
    'fixture.legacy.long.unlegacy': '408f3a130749c41b4670',
    'fixture.legacy.short.rewrite': '129245352a380a8273ca',
    'fixture.legacy.short.state': 'f18ae51613c99e5a8ec7',
    'fixture.legacy.short2.rewrite': '129245352a380a8273ca',
    'fixture.legacy.short2.state': 'f18ae51613c99e5a8ec7',
    'fixture.legacy.sign.edited': '437677c4bf5d9a8bc06c',
    'fixture.legacy.sign.rewrite': '938b4627cca2732de796',
    'fixture.legacy.sign.state': 'a08a691d64eceabd4756',
    'fixture.legacy.sign.unlegacy': '408f3a130749c41b4670',
    'fixture.rewrite': '3b0f2915c2ec0456c093',
    'project': '0336094ab04592df17f7',
    'project.rewrite': '10a8017b7c61575cf2f9',
    'samples_num.0.0': 'b12d95418eea10ba55a1',
    'samples_num.1.1': '6ccae3fcfba8548f38d3',
    'samples_num.1.128': 'f517af6a7eca08408dc5',
    'samples_num.1.6': '565ffb9129a10946b125',
    'samples_num.128.128': '986eb6a969c4020c9d02',
    'samples_num.3.128': '0f769e86fa22ae5c5b92',
    'samples_num.3.7': 'f3db2409e4a83ed9dea2',
    'type_bytes': '618878fce6ddf768e9a4',
}



# =========================================================== C06-1 scenarios
# Write side of the Sampler: specialized_iff_chunks (legacy replay branch and
# live branch), global_config_chunks (samples_num), sample_chunks (type byte),
# effect chunk.


def chunk_names(mod):
    gen = mod.specialized_iff_chunks()
    check(hasattr(gen, "__next__"), "specialized_iff_chunks is an iterator")
    return [(n, d[:4] if n == b"CHNM" else len(d)) for n, d in gen]


def scenario_fixture_roundtrip():
    data = fixture_bytes()
    synth = load(data)
    mod = synth.module
    check(mod.is_legacy is False, "fixture: not legacy")
    check(mod.legacy_chunks is None, "fixture: no captured chunks")
    out = save(synth)
    golden("fixture.rewrite", out)
    golden("fixture.chunk_names", chunk_names(mod))
    again = load(out).module
    check(changed_keys(sampler_state(mod), sampler_state(again)) == [], "fixture rt")
    check(save(Synth(again)) == out, "fixture: second write is identical")


EDITS = [
    ("ctl.volume", lambda s: setattr(s, "volume", 123), ["ctl.volume"]),
    ("vibrato", lambda s: setattr(s, "vibrato_depth", 7), ["ctl.vibrato_depth"]),
    ("fadeout", lambda s: setattr(s, "volume_fadeout", 8000), ["ctl.volume_fadeout"]),
    ("option", lambda s: setattr(s, "record_in_mono", False), ["opt.record_in_mono"]),
    (
        "vol-env-points",
        lambda s: setattr(s.volume_envelope, "points", [(0, 0), (9, 0x4000)]),
        ["env.volume"],
    ),
    ("pan-env-flag", lambda s: setattr(s.panning_envelope, "loop", True), ["env.panning"]),
    (
        "effect-env",
        lambda s: setattr(s.effect_control_envelopes[3], "velocity", 9),
        ["env.effect3"],
    ),
    ("sample-volume", lambda s: setattr(s.samples[1], "volume", 3), ["sample1"]),
    (
        "sample-looptype",
        lambda s: setattr(s.samples[0], "loop_type", s.LoopType.ping_pong),
        ["sample0"],
    ),
    ("sample-sustain", lambda s: setattr(s.samples[2], "loop_sustain", not s.samples[2].loop_sustain), ["sample2"]),
    (
        "sample-data",
        lambda s: setattr(s.samples[0], "data", wave(5, 9)),
        ["sample0"],
    ),
    (
        "drop-last-sample",
        lambda s: s.samples.__setitem__(2, None),
        ["sample2", "sample_slots"],
    ),
    (
        "add-sample-slot-9",
        lambda s: s.samples.__setitem__(
            9, make_sample(s.Format.int16, s.Channels.stereo, seed=4)
        ),
        ["sample9", "sample_slots"],
    ),
    ("note-map", lambda s: s.note_samples.__setitem__(NOTE.C1, 2), ["note_samples"]),
    ("instrument-name", lambda s: setattr(s, "instrument_name", b"abc"), ["instrument_name"]),
    ("editor-cursor", lambda s: setattr(s, "editor_cursor", -4), ["editor_cursor"]),
    ("remove-effect", lambda s: setattr(s, "effect", None), ["effect"]),
    (
        "edit-effect",
        lambda s: setattr(s.effect.module, "wet", 1),
        ["effect"],
    ),
]


def scenario_edits(source_name, source_bytes):
    for label, edit, expected in EDITS:
        synth = load(source_bytes)
        mod = synth.module
        before = sampler_state(mod)
        edit(mod)
        edited = sampler_state(mod)
        out = save(synth)
        golden("%s.edit.%s" % (source_name, label), out)
        after = sampler_state(load(out).module)
        check(
            changed_keys(before, after) == sorted(expected),
            "%s edit %s: changed keys %r" % (source_name, label, changed_keys(before, after)),
        )
        check(
            changed_keys(edited, after) == [],
            "%s edit %s: saved state differs from edited object" % (source_name, label),
        )


def samples_num_of(data, which=0):
    section = module_chunk_sections(data)[which]
    for (n1, d1), (n2, d2) in zip(section, section[1:]):
        if n1 == b"CHNM" and d1 == b"\0\0\0\0" and n2 == b"CHDT":
            return struct.unpack("<H", d2[0x1C:0x1E])[0]
    raise AssertionError("no config record")


def scenario_samples_num():
    for slots, expected in [
        ((), 0),
        ((0,), 1),
        ((0, 3, 6), 7),
        ((5,), 6),
        ((127,), 128),
        ((0, 126, 127), 128),
        (tuple(range(128)), 128),
    ]:
        mod = build_sampler(with_effect=False, slots=slots)
        out = save(Synth(mod))
        check(samples_num_of(out) == expected, "samples_num for %r" % (slots,))
        golden("samples_num.%d.%s" % (len(slots), expected), out)
        again = load(out).module
        check(
            [i for i, s in enumerate(again.samples) if s is not None] == list(slots),
            "slots preserved %r" % (slots,),
        )
        check(len(mod.samples) == 128, "samples list is not shortened by writing")
    # a shorter / longer list is accepted as is
    mod = build_sampler(with_effect=False, slots=(1,))
    mod.samples = mod.samples[:2] + [None, None]
    check(samples_num_of(save(Synth(mod))) == 2, "short list")
    check(mod.samples[2:] == [None, None], "list untouched")
    mod.samples = []
    check(samples_num_of(save(Synth(mod))) == 0, "empty list")
    # a tuple has no .copy(): writing fails the same way as before
    mod.samples = (None, None)
    raises(AttributeError, lambda: save(Synth(mod)), "tuple samples")


def scenario_type_byte():
    seen = {}
    for loop_type in Sampler.LoopType:
        for fmt in Sampler.Format:
            for channels in Sampler.Channels:
                for sustain in (False, True, 0, 1, "yes", None):
                    mod = Sampler()
                    smp = make_sample(
                        fmt, channels, loop_type=loop_type, loop_sustain=sustain
                    )
                    mod.samples[2] = smp
                    chunks = list(mod.sample_chunks(2, smp))
                    check(
                        [n for n, _ in chunks]
                        == [b"CHNM", b"CHDT", b"CHNM", b"CHDT", b"CHFF", b"CHFR"],
                        "sample chunk names",
                    )
                    check(chunks[0][1] == struct.pack("<I", 5), "meta chnm")
                    check(chunks[2][1] == struct.pack("<I", 6), "data chnm")
                    type_byte = chunks[1][1][0x0E]
                    expected = (
                        loop_type.value
                        | {1: 0x00, 2: 0x10, 4: 0x20}[fmt.value]
                        | (0x40 if channels.value else 0)
                        | (4 if sustain else 0)
                    )
                    check(type_byte == expected, "type byte %r" % ((loop_type, fmt, channels, sustain),))
                    seen[(loop_type, fmt, channels, bool(sustain))] = type_byte
                    again = load(save(Synth(mod))).module.samples[2]
                    check(
                        (again.loop_type, again.format, again.channels, again.loop_sustain)
                        == (loop_type, fmt, channels, bool(sustain)),
                        "type byte round trip",
                    )
    golden("type_bytes", sorted((tuple(map(int, k)), v) for k, v in seen.items()))
    # unknown format / channels / loop type: same errors as before
    mod = Sampler()
    smp = make_sample(Sampler.Format.int8, Sampler.Channels.mono)
    smp.format = None
    raises(KeyError, lambda: list(mod.sample_chunks(0, smp)), "format None")
    smp.format = Sampler.Format.int8
    smp.channels = 3
    raises(KeyError, lambda: list(mod.sample_chunks(0, smp)), "channels 3")
    smp.channels = Sampler.Channels.mono
    smp.loop_type = 1
    raises(AttributeError, lambda: list(mod.sample_chunks(0, smp)), "loop type int")
    # plain ints equal to the enum values are accepted for format/channels
    smp.loop_type = Sampler.LoopType.forward
    smp.format = 2
    smp.channels = 8
    gen = mod.sample_chunks(0, smp)
    check([next(gen), next(gen)][1][1][0x0E] == 0x51, "int format/channels")
    raises(AttributeError, lambda: list(gen), "int format has no .value for CHFF")


def scenario_effect():
    mod = build_sampler(with_effect=False)
    out = save(Synth(mod))
    names = [d for n, d in module_chunk_sections(out)[0] if n == b"CHNM"]
    check(b"\x0a\x01\0\0" not in names, "no effect chunk")
    golden("built.noeffect", out)
    mod = build_sampler(with_effect=True)
    out = save(Synth(mod))
    section = module_chunk_sections(out)[0]
    names = [d for n, d in section if n == b"CHNM"]
    check(names[-1] == b"\x0a\x01\0\0", "effect chunk is last")
    check(section[-1][0] == b"CHDT" and section[-1][1][:4] == b"SSYN", "effect data")
    check(section[-1][1] == save(mod.effect), "effect data is the live effect")
    golden("built.effect", out)
    golden("built.chunk_names", chunk_names(mod))
    expected_order = (
        [struct.pack("<I", 0)]
        + [struct.pack("<I", c) for s in (0, 3, 6) for c in (2 * s + 1, 2 * s + 2)]
        + [struct.pack("<I", c) for c in range(0x101, 0x109)]
        + [b"\x0a\x01\0\0"]
    )
    check(names == expected_order, "chunk order")
    loaded = load(out)
    loaded.module.effect.module.wet = 5
    loaded.module.effect.module.dry = 6
    again = load(save(loaded)).module
    check((again.effect.module.wet, again.effect.module.dry) == (5, 6), "effect edits saved")
    # an empty Synth as effect fails while writing, as before
    mod.effect = Synth()
    from rv.errors import EmptySynthError

    raises(EmptySynthError, lambda: save(Synth(mod)), "empty effect synth")
    # the chunks before the effect are produced before the effect is serialized
    gen = mod.specialized_iff_chunks()
    first = [next(gen) for _ in range(4)]
    check(first[0] == (b"CHNM", struct.pack("<I", 0)), "lazy: first chunk")


def scenario_legacy(source_name, source_bytes):
    variants = {
        "sign": break_signature,
        "long": overlong,
        "len190": exactly_0x190,
        "short": truncated,
        "short2": truncated_mid,
    }
    for vname, fn in variants.items():
        data = rewrite_config_record(source_bytes, fn)
        synth = load(data)
        mod = synth.module
        legacy_expected = vname in ("sign", "long")
        check(mod.is_legacy is legacy_expected, "%s %s: is_legacy" % (source_name, vname))
        golden("%s.legacy.%s.state" % (source_name, vname), sorted(sampler_state(mod).items(), key=lambda kv: kv[0]).__repr__())
        out = save(synth)
        golden("%s.legacy.%s.rewrite" % (source_name, vname), out)
        in_section = module_chunk_sections(data)[0]
        out_section = module_chunk_sections(out)[0]
        if legacy_expected:
            check(mod.legacy_chunks is not None, "captured chunks kept")
            check(
                len(mod.legacy_chunks) == sum(1 for n, _ in in_section if n == b"CHNM"),
                "every chunk captured",
            )
            check(
                [(n, d) for n, d in out_section if n in (b"CHNM", b"CHDT")]
                == [(n, d) for n, d in in_section if n in (b"CHNM", b"CHDT")],
                "%s %s: raw chunks replayed" % (source_name, vname),
            )
            # every replayed chunk carries CHFF and CHFR
            check(
                [n for n, _ in out_section] == [b"CHNM", b"CHDT", b"CHFF", b"CHFR"] * len(mod.legacy_chunks),
                "replay layout",
            )
            # pin the current behaviour of the replay branch for an edited object
            mod.vibrato_depth = 200
            mod.volume_envelope.points = [(0, 0)]
            mod.volume = 1
            golden("%s.legacy.%s.edited" % (source_name, vname), save(synth))
            # the replayed list itself is live
            dropped = mod.legacy_chunks.pop()
            rewritten = module_chunk_sections(save(synth))[0]
            check(len(rewritten) == 4 * len(mod.legacy_chunks), "popped chunk not written")
            mod.legacy_chunks.append(dropped)
            # leaving legacy mode writes the live object
            mod.is_legacy = False
            live = load(save(synth)).module
            check(live.vibrato_depth == 200 and live.volume_envelope.points == [(0, 0)], "live after leaving legacy mode")
            golden("%s.legacy.%s.unlegacy" % (source_name, vname), save(synth))
        else:
            check(mod.legacy_chunks is None, "captured chunks dropped")
            mod.vibrato_depth = 200
            check(load(save(synth)).module.vibrato_depth == 200, "edit saved")


def scenario_project():
    project = Project()
    project.name = "c06"
    a = project.new_module(Sampler, name="a")
    b = project.attach_module(build_sampler(with_effect=True))
    meta = project.new_module(m.MetaModule, name="meta")
    inner = meta.project.attach_module(build_sampler(with_effect=False, slots=(2,)))
    inner >> meta.project.output
    a >> project.output
    b >> project.output
    meta >> project.output
    out = save(project)
    golden("project", out)
    # make module b legacy, then rewrite the project
    legacy_data = rewrite_config_record(out, break_signature, which=1)
    loaded = load(legacy_data)
    check(loaded.modules[1].is_legacy is False, "project: a stays live")
    check(loaded.modules[2].is_legacy is True, "project: b legacy")
    inner_loaded = loaded.modules[3].project.modules[1]
    check(inner_loaded.is_legacy is False, "project: inner live")
    loaded.modules[1].vibrato_rate = 40
    inner_loaded.samples[2].volume = 1
    inner_loaded.volume_envelope.gain_pct = 12
    out2 = save(loaded)
    golden("project.rewrite", out2)
    final = load(out2)
    check(final.modules[1].vibrato_rate == 40, "project: edit of a saved")
    check(final.modules[3].project.modules[1].samples[2].volume == 1, "inner sample edit saved")
    check(final.modules[3].project.modules[1].volume_envelope.gain_pct == 12, "inner env edit saved")
    check(final.modules[2].is_legacy is True, "b still legacy")


def main():
    scenario_fixture_roundtrip()
    scenario_edits("fixture", fixture_bytes())
    scenario_edits("built", save(Synth(build_sampler(slots=(0, 1, 2)))))
    scenario_samples_num()
    scenario_type_byte()
    scenario_effect()
    scenario_legacy("fixture", fixture_bytes())
    scenario_legacy("built", save(Synth(build_sampler())))
    scenario_project()


try:
    main()
except Exception:
    traceback.print_exc()
    print("FAILED (exception)")
    sys.exit(1)
finish()
