"""Behaviour check for Pattern.set_via_fn / Pattern.set_via_gen (property C19).

Run as:  cd <root> && PYTHONPATH=<root>/src/python /venv/bin/python check.py
"""
import itertools
import sys

from rv.api import Project, m
from rv.note import NOTE, NOTECMD, Note
from rv.pattern import Pattern

FAILS = []


def check(cond, msg):
    if not cond:
        FAILS.append(msg)


class Boom(Exception):
    pass


def make(lines, tracks, attached):
    p = Pattern(lines=lines, tracks=tracks)
    proj = None
    if attached:
        proj = Project()
        proj.attach_module(m.Generator())
        proj.attach_pattern(p)
    # seed with recognisable content
    for l in range(lines):
        for t in range(tracks):
            n = p.data[l][t]
            n.note = NOTE(1 + (l * tracks + t) % 100)
            n.vel = 1 + (l + t) % 128
            n.module = (l + t) % 3
            n.ctl = l * 256 + t
            n.val = (l * 31 + t * 7) & 0xFFFF
    return p, proj


def snapshot(p):
    data = p._data
    return (
        data,
        [row for row in data],
        [[n for n in row] for row in data],
        p.raw_data,
    )


def same_as(p, snap):
    data, rows, notes, raw = snap
    if p._data is not data:
        return False
    if len(p._data) != len(rows) or any(a is not b for a, b in zip(p._data, rows)):
        return False
    for row, old in zip(p._data, notes):
        if len(row) != len(old) or any(a is not b for a, b in zip(row, old)):
            return False
    return p.raw_data == raw


def owned(p):
    return all(n.pattern is p for row in p.data for n in row)


def fresh_note(l, t):
    return Note(note=NOTE(10 + l), vel=1 + t, module=1, ctl=0x0102, val=l * 16 + t)


SHAPES = [(1, 1), (1, 3), (2, 2), (3, 1), (3, 4), (4, 3)]

for (lines, tracks), attached in itertools.product(SHAPES, (False, True)):
    tag = f"{lines}x{tracks} attached={attached}"
    ncells = lines * tracks

    # ---- set_via_fn: success ------------------------------------------------
    p, proj = make(lines, tracks, attached)
    old = snapshot(p)
    made = {}
    calls = []

    def fn(pat, l, t):
        check(pat is p, f"{tag}: fn got wrong pattern")
        check(same_as(p, old), f"{tag}: pattern changed while fn running")
        calls.append((l, t))
        made[(l, t)] = fresh_note(l, t)
        return made[(l, t)]

    ret = p.set_via_fn(fn)
    check(ret is p, f"{tag}: set_via_fn must return self")
    check(
        calls == [(l, t) for l in range(lines) for t in range(tracks)],
        f"{tag}: fn call order {calls}",
    )
    check(p._data is not old[0], f"{tag}: set_via_fn should install a new array")
    check(
        all(p.data[l][t] is made[(l, t)] for l in range(lines) for t in range(tracks)),
        f"{tag}: set_via_fn notes not installed by identity",
    )
    check(len(p.data) == lines and all(len(r) == tracks for r in p.data), f"{tag}: shape")
    check(owned(p), f"{tag}: ownership after set_via_fn")
    check(
        p.raw_data == b"".join(made[(l, t)].raw_data for l in range(lines) for t in range(tracks)),
        f"{tag}: raw_data after set_via_fn",
    )
    for row in p.data:
        for n in row:
            check(n.project is proj, f"{tag}: note.project")
            if attached:
                check(n.mod is proj.modules[0], f"{tag}: note.mod")

    # ---- set_via_fn: failure at every cell ----------------------------------
    for k in range(ncells):
        for exc_type in (Boom, StopIteration, KeyboardInterrupt):
            p, proj = make(lines, tracks, attached)
            old = snapshot(p)
            count = [0]

            def fn(pat, l, t):
                if count[0] == k:
                    raise exc_type("x")
                count[0] += 1
                return fresh_note(l, t)

            try:
                p.set_via_fn(fn)
            except exc_type:
                pass
            except BaseException as e:  # noqa
                check(False, f"{tag}: fn fail@{k} wrong exception {type(e).__name__}")
            else:
                check(False, f"{tag}: fn fail@{k} did not raise")
            check(count[0] == k, f"{tag}: fn fail@{k} call count")
            check(same_as(p, old), f"{tag}: fn fail@{k} {exc_type.__name__} changed pattern")
            check(owned(p), f"{tag}: fn fail@{k} ownership")

    # ---- set_via_fn: bad return value at every cell --------------------------
    for k in range(ncells):
        p, proj = make(lines, tracks, attached)
        old = snapshot(p)
        count = [0]

        def fn(pat, l, t):
            count[0] += 1
            return None if count[0] - 1 == k else fresh_note(l, t)

        try:
            p.set_via_fn(fn)
        except AttributeError:
            pass
        else:
            check(False, f"{tag}: None note @{k} should raise AttributeError")
        check(count[0] == ncells, f"{tag}: None note: all cells still visited")
        check(same_as(p, old), f"{tag}: None note @{k} changed pattern")

    # ---- set_via_gen: sparse success ----------------------------------------
    for step in (1, 2, 3):
        p, proj = make(lines, tracks, attached)
        old = snapshot(p)
        cells = [(l, t) for l in range(lines) for t in range(tracks)][::step]
        made = {}
        seen = {}

        def gen(pat, new):
            check(pat is p, f"{tag}: gen got wrong pattern")
            check(new is not old[0], f"{tag}: gen must get a copy")
            check(
                b"".join(n.raw_data for r in new for n in r) == old[3],
                f"{tag}: gen copy content",
            )
            check(
                all(a is not b for ra, rb in zip(new, old[2]) for a, b in zip(ra, rb)),
                f"{tag}: gen copy must be deep",
            )
            seen["new"] = new
            for (l, t) in cells:
                check(same_as(p, old), f"{tag}: pattern changed while gen running")
                made[(l, t)] = fresh_note(l, t)
                yield l, t, made[(l, t)]
                check(new[l][t] is made[(l, t)], f"{tag}: staged array not updated")

        ret = p.set_via_gen(gen)
        check(ret is p, f"{tag}: set_via_gen must return self")
        check(p._data is seen["new"], f"{tag}: set_via_gen installs the staged array")
        for l in range(lines):
            for t in range(tracks):
                n = p.data[l][t]
                if (l, t) in made:
                    check(n is made[(l, t)], f"{tag}: gen note identity")
                else:
                    check(n is not old[2][l][t], f"{tag}: untouched note is a copy")
                    check(n.raw_data == old[2][l][t].raw_data, f"{tag}: untouched content")
        check(owned(p), f"{tag}: ownership after set_via_gen step={step}")
        for row in p.data:
            for n in row:
                check(n.project is proj, f"{tag}: gen note.project")

    # ---- set_via_gen: failure at every yield index ---------------------------
    order = [(l, t) for l in reversed(range(lines)) for t in range(tracks)]
    for k in range(ncells + 1):
        for exc_type in (Boom, KeyboardInterrupt):
            p, proj = make(lines, tracks, attached)
            old = snapshot(p)

            def gen(pat, new):
                for i, (l, t) in enumerate(order):
                    if i == k:
                        raise exc_type("x")
                    yield l, t, fresh_note(l, t)
                if k == len(order):
                    raise exc_type("late")

            try:
                p.set_via_gen(gen)
            except exc_type:
                pass
            else:
                check(False, f"{tag}: gen fail@{k} did not raise")
            check(same_as(p, old), f"{tag}: gen fail@{k} changed pattern")
            check(owned(p), f"{tag}: gen fail@{k} ownership")

    # ---- set_via_gen: bad coordinates / bad items ----------------------------
    for bad in ((lines, 0, "n"), (0, tracks, "n"), (0, 0, None), (0, 0), 5):
        p, proj = make(lines, tracks, attached)
        old = snapshot(p)

        def gen(pat, new):
            yield 0, 0, fresh_note(0, 0)
            if isinstance(bad, tuple) and len(bad) == 3 and bad[2] == "n":
                yield bad[0], bad[1], fresh_note(0, 0)
            else:
                yield bad

        try:
            p.set_via_gen(gen)
        except (IndexError, AttributeError, ValueError, TypeError) as e:
            expected = {
                (lines, 0, "n"): IndexError,
                (0, tracks, "n"): IndexError,
                (0, 0, None): AttributeError,
                (0, 0): ValueError,
                5: TypeError,
            }[bad]
            check(type(e) is expected, f"{tag}: bad item {bad!r}: {type(e).__name__}")
        else:
            check(False, f"{tag}: bad item {bad!r} did not raise")
        check(same_as(p, old), f"{tag}: bad item {bad!r} changed pattern")

    # ---- set_via_gen: direct mutation of staged array, empty generator -------
    p, proj = make(lines, tracks, attached)
    old = snapshot(p)
    direct = fresh_note(0, 0)

    def gen(pat, new):
        new[lines - 1][tracks - 1] = direct
        return iter(())

    p.set_via_gen(gen)
    check(p.data[lines - 1][tracks - 1] is direct, f"{tag}: direct staged mutation")
    check(direct.pattern is p, f"{tag}: direct note ownership")
    check(owned(p), f"{tag}: ownership after empty gen")
    check(p._data is not old[0], f"{tag}: empty gen still installs copy")

    # gen may be any callable returning an iterable
    p, proj = make(lines, tracks, attached)
    n0 = fresh_note(0, 0)
    p.set_via_gen(lambda pat, new: [(0, 0, n0)])
    check(p.data[0][0] is n0 and owned(p), f"{tag}: list-returning gen")

    # ---- histories: successive bulk edits ------------------------------------
    p, proj = make(lines, tracks, attached)
    for rnd in range(4):
        before = p.raw_data
        if rnd % 2 == 0:
            p.set_via_fn(lambda pat, l, t: Note(note=NOTE(1 + rnd), val=l + t))
        else:
            p.set_via_gen(
                lambda pat, new: ((l, 0, Note(vel=rnd + 1)) for l in range(lines))
            )
        check(owned(p), f"{tag}: history round {rnd} ownership")
        snap = snapshot(p)
        try:
            p.set_via_fn(lambda pat, l, t: (_ for _ in ()).throw(Boom()))
        except Boom:
            pass
        check(same_as(p, snap), f"{tag}: history round {rnd} failed edit changed data")
        try:
            p.set_via_gen(lambda pat, new: (_ for _ in ()).throw(Boom()))
        except Boom:
            pass
        check(same_as(p, snap), f"{tag}: history round {rnd} failed gen changed data")
        for row in p.data:
            for n in row:
                check(n.project is proj, f"{tag}: history note.project")

    # a note moved from another pattern is re-owned
    p, proj = make(lines, tracks, attached)
    q, _ = make(lines, tracks, False)
    p.set_via_fn(lambda pat, l, t: q.data[l][t])
    check(owned(p), f"{tag}: moved notes re-owned")
    check(all(n.pattern is p for row in q.data for n in row), f"{tag}: shared notes point to p")

# ---- lazy initialisation: bulk setters on a pattern with no _data yet --------
p = Pattern(lines=2, tracks=2)
check(not hasattr(p, "_data"), "fresh pattern has no _data")
p.set_via_fn(lambda pat, l, t: Note(val=l * 2 + t))
check([[n.val for n in r] for r in p.data] == [[0, 1], [2, 3]], "lazy set_via_fn")
check(owned(p), "lazy set_via_fn ownership")
p = Pattern(lines=2, tracks=2)
try:
    p.set_via_fn(lambda pat, l, t: 1 / 0)
except ZeroDivisionError:
    pass
check(hasattr(p, "_data") and p.raw_data == bytes(32), "lazy failed set_via_fn leaves cleared data")
p = Pattern(lines=2, tracks=2)
p.set_via_gen(lambda pat, new: iter([(1, 1, Note(val=9))]))
check([[n.val for n in r] for r in p.data] == [[0, 0], [0, 9]], "lazy set_via_gen")
check(owned(p), "lazy set_via_gen ownership")

# fn that changes the track count midway: the inner range is re-read per line
p = Pattern(lines=3, tracks=3)
p.data
calls = []


def shrink(pat, l, t):
    calls.append((l, t))
    if (l, t) == (0, 1):
        pat.tracks = 2
    return Note(val=1)


p.set_via_fn(shrink)
check(calls == [(0, 0), (0, 1), (0, 2), (1, 0), (1, 1), (2, 0), (2, 1)], f"shrink calls {calls}")
check([[n.val for n in r] for r in p.data] == [[1, 1, 1], [1, 1, 0], [1, 1, 0]], "shrink data")

# more lines declared than stored: fn is called, then IndexError, nothing changes
p = Pattern(lines=2, tracks=1)
p.data
p.lines = 3
snap = snapshot(p)
calls = []
try:
    p.set_via_fn(lambda pat, l, t: calls.append((l, t)) or Note())
except IndexError:
    pass
else:
    check(False, "expected IndexError for oversize lines")
check(calls == [(0, 0), (1, 0), (2, 0)], f"oversize calls {calls}")
check(same_as(p, snap), "oversize lines changed data")

if FAILS:
    print("FAIL")
    for f in FAILS[:40]:
        print("  ", f)
    sys.exit(1)
print("PASS")
