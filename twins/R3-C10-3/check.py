"""Behaviour check for Range / WarnOnlyRange / CompactRange / NoOffsetRange:
to_raw_value, from_raw_value, validate and __call__ (property C10: stored
controller encodings are exact bijections on each controller's range).

All value types of all controllers of all module types (every unit variant of
unit-dependent ranges) are enumerated over ALL their values and compared with
an independent reference; a grid of synthetic ranges, non-int inputs,
validation errors / warnings and Module.get_raw/set_raw spot checks follow.

Run: cd <root> && PYTHONPATH=<root>/src/python /venv/bin/python check.py
"""
import logging
import sys
from enum import Enum

from rv.controller import (
    CompactRange,
    Controller,
    DependentRange,
    NoOffsetRange,
    Range,
    WarnOnlyRange,
)
from rv.errors import ControllerValueError, RadiantVoicesError, RangeValidationError
from rv.modules import MODULE_CLASSES

failures = []


def check(cond, msg):
    if not cond:
        failures.append(msg)
        if len(failures) > 30:
            print("\n".join(failures))
            print("FAIL (too many failures)")
            sys.exit(1)


class Capture(logging.Handler):
    def __init__(self):
        super().__init__(level=logging.DEBUG)
        self.records = []

    def emit(self, record):
        self.records.append(record)

    def take(self):
        out, self.records = self.records, []
        return out


capture = Capture()
rv_logger = logging.getLogger("rv")
rv_logger.addHandler(capture)
rv_logger.setLevel(logging.DEBUG)
rv_logger.propagate = False


def ref_offset(t):
    """Independent statement of the offset convention."""
    if isinstance(t, NoOffsetRange):
        return 0
    return t.min if t.min < 0 else 0


def check_codec(t, label):
    """Complete enumeration of one range: raw <-> value is an exact bijection."""
    off = ref_offset(t)
    values = range(t.min, t.max + 1)
    raws = [t.to_raw_value(v) for v in values]
    check(raws == [v - off for v in values], f"{label}: to_raw_value")
    check(all(type(r) is int for r in raws), f"{label}: raw not int")
    check([t.from_raw_value(r) for r in raws] == list(values), f"{label}: round trip")
    check(len(set(raws)) == len(raws), f"{label}: raw values collide")
    if isinstance(t, NoOffsetRange):
        check(raws[0] == t.min, f"{label}: no-offset min")
    else:
        check(raws[0] == (0 if t.min < 0 else t.min), f"{label}: raw of min")
        check(min(raws) >= 0 or t.min >= 0, f"{label}: negative raw")
    # validation accepts exactly the range and returns the value unchanged
    capture.take()
    for v in (t.min, t.max, (t.min + t.max) // 2):
        check(t(v) is v or t(v) == v, f"{label}: call({v})")
        check(t.validate(v) is None, f"{label}: validate({v})")
    check(capture.take() == [], f"{label}: logged for valid value")
    for bad in (t.min - 1, t.max + 1):
        if isinstance(t, WarnOnlyRange):
            check(t(bad) == bad, f"{label}: warn-only call({bad})")
            recs = capture.take()
            check(
                len(recs) == 1
                and recs[0].levelno == logging.WARNING
                and recs[0].name == "rv.controller"
                and recs[0].getMessage() == str((bad, t.min, t.max)),
                f"{label}: warn-only log {[r.getMessage() for r in recs]}",
            )
            check(t.validate(bad) is None, f"{label}: warn-only validate")
            check(len(capture.take()) == 1, f"{label}: warn-only validate log")
        else:
            for fn in (t, t.validate):
                try:
                    fn(bad)
                except RangeValidationError as e:
                    check(e.args == (bad, t.min, t.max), f"{label}: args {e.args}")
                    check(type(e) is RangeValidationError, f"{label}: error type")
                    check(not isinstance(e, ValueError), f"{label}: is ValueError")
                    check(isinstance(e, RadiantVoicesError), f"{label}: base")
                else:
                    check(False, f"{label}: {bad} accepted")
            check(capture.take() == [], f"{label}: logged while raising")
        # conversion itself never validates
        check(t.to_raw_value(bad) == bad - off, f"{label}: to_raw({bad})")
        check(t.from_raw_value(bad - off) == bad, f"{label}: from_raw of {bad}")
    return len(raws)


# --- every value type used by the library ------------------------------------
pairs = 0
kinds_seen = set()
for mtype, cls in sorted(MODULE_CLASSES.items()):
    mod = cls()
    for name, ctl in mod.controllers.items():
        label = f"{mtype}.{name}"
        vt = ctl.value_type
        if isinstance(vt, DependentRange):
            todo = [(f"{label}[{u.name}]", r) for u, r in vt.range_map.items()]
            todo.append((f"{label}[default]", vt.default))
        else:
            todo = [(label, ctl.instance_value_type(mod))]
        for sub_label, t in todo:
            if isinstance(t, Range):
                kinds_seen.add(type(t))
                pairs += check_codec(t, sub_label)
            else:
                check(not hasattr(t, "to_raw_value"), f"{sub_label}: has to_raw")
                check(not hasattr(t, "from_raw_value"), f"{sub_label}: has from_raw")
                pairs += len(t) if issubclass(t, Enum) else 2
check(pairs > 5_000_000, f"only {pairs} pairs enumerated")
check(
    kinds_seen == {Range, WarnOnlyRange, CompactRange, NoOffsetRange},
    f"range kinds in use: {kinds_seen}",
)

# --- synthetic grid: every sign combination of the bounds --------------------
bounds = [-300, -129, -128, -2, -1, 0, 1, 2, 127, 128, 300]
for kind in (Range, WarnOnlyRange, CompactRange, NoOffsetRange):
    for lo in bounds:
        for hi in bounds:
            if lo <= hi:
                check_codec(kind(lo, hi), f"{kind.__name__}({lo}, {hi})")


class SignedWarnOnly(NoOffsetRange, WarnOnlyRange):
    pass


class Derived(Range):
    pass


check_codec(SignedWarnOnly(-5, 5), "SignedWarnOnly(-5, 5)")
check_codec(Derived(-5, 5), "Derived(-5, 5)")
check(Derived(-5, 5).to_raw_value(-5) == 0, "derived range offsets")
check(SignedWarnOnly(-5, 5).to_raw_value(-5) == -5, "signed warn-only no offset")

# --- the result is the very input when nothing is shifted --------------------
for t in (Range(0, 10), Range(3, 10), NoOffsetRange(-10, 10), NoOffsetRange(0, 5)):
    for v in (True, False, 3, 3.0, 2.5, 10**30):
        check(t.to_raw_value(v) is v, f"{t!r}.to_raw_value({v!r}) identity")
        check(t.from_raw_value(v) is v, f"{t!r}.from_raw_value({v!r}) identity")
for t in (Range(-4, 4), CompactRange(-4, 4), WarnOnlyRange(-4, 4)):
    for v, raw in ((True, 5), (False, 4), (2.5, 6.5), (-4, 0), (4, 8), (-0.0, 4.0)):
        got = t.to_raw_value(v)
        check(got == raw and type(got) is type(raw), f"{t!r}.to_raw_value({v!r})={got!r}")
    for raw, v in ((True, -3), (0, -4), (8, 4), (6.5, 2.5), (100, 96), (-1, -5)):
        got = t.from_raw_value(raw)
        check(got == v and type(got) is type(v), f"{t!r}.from_raw_value({raw!r})={got!r}")
# bounds are read at call time
t = Range(0, 10)
check(t.to_raw_value(3) == 3, "before re-bounding")
t.min = -10
check(t.to_raw_value(3) == 13 and t.from_raw_value(0) == -10, "after re-bounding")
t = Range(-0.5, 0.5)
check(t.to_raw_value(0.25) == 0.75 and t.from_raw_value(0.75) == 0.25, "float bounds")

# --- identity / representation ------------------------------------------------
check(Range(-1, 1) == Range(-1, 1), "eq")
check(Range(-1, 1) != Range(-1, 2), "ne max")
check(Range(-1, 1) != NoOffsetRange(-1, 1), "ne kind")
check(NoOffsetRange(-1, 1) == NoOffsetRange(-1, 1), "eq no-offset")
check(Range(0, 1) != (0, 1), "ne tuple")
check(repr(Range(-1, 1)) == "<Range -1..1>", "repr Range")
check(repr(NoOffsetRange(-128, 128)) == "<NoOffsetRange -128..128>", "repr NoOffset")
check(repr(CompactRange(0, 2)) == "<CompactRange 0..2>", "repr Compact")
check(repr(WarnOnlyRange(1, 2)) == "<WarnOnlyRange 1..2>", "repr WarnOnly")
for kind in (WarnOnlyRange, CompactRange, NoOffsetRange):
    check(issubclass(kind, Range), f"{kind.__name__} is a Range")
    check(callable(kind(0, 1).to_raw_value), f"{kind.__name__}.to_raw_value")
    check(callable(kind(0, 1).from_raw_value), f"{kind.__name__}.from_raw_value")
check(not issubclass(NoOffsetRange, CompactRange), "NoOffset is not Compact")
check(not issubclass(CompactRange, WarnOnlyRange), "Compact is not WarnOnly")

# --- through the module API ---------------------------------------------------
amp = MODULE_CLASSES["Amplifier"]()
vorbis = MODULE_CLASSES["Vorbis player"]()
multi = MODULE_CLASSES["MultiSynth"]()
lfo = MODULE_CLASSES["LFO"]()
for mod, name, pairs_ in (
    (amp, "dc_offset", [(0, -128), (128, 0), (256, 128)]),
    (amp, "volume", [(0, 0), (1024, 1024)]),
    (vorbis, "finetune", [(-128, -128), (0, 0), (128, 128)]),
    (vorbis, "transpose", [(0, -128), (128, 0), (256, 128)]),
    (multi, "transpose", [(0, -128), (126, -2), (256, 128)]),
    (lfo, "freq", [(1, 1), (2048, 2048)]),
):
    for raw, value in pairs_:
        mod.set_raw(name, raw)
        check(getattr(mod, name) == value, f"{mod.mtype}.{name} raw {raw}")
        check(mod.get_raw(name) == raw, f"{mod.mtype}.{name} get_raw {raw}")
        setattr(mod, name, value)
        check(mod.get_raw(name) == raw, f"{mod.mtype}.{name} value {value}")
try:
    amp.dc_offset = 129
except ControllerValueError as e:
    check(e.args == ("0(Amplifier).dc_offset=129 is not within [-128, 128]",), str(e))
    check(type(e.__cause__) is RangeValidationError, "cause of assignment error")
else:
    check(False, "Amplifier.dc_offset=129 accepted")
try:
    vorbis.set_raw("finetune", 129)
except ControllerValueError as e:
    check(
        e.args == ("0(Vorbis player).finetune=129 is not within [-128, 128]",), str(e)
    )
else:
    check(False, "Vorbis player finetune raw 129 accepted")
capture.take()
lfo.freq = 5000  # warn-only: kept and logged
recs = capture.take()
check(lfo.freq == 5000 and lfo.get_raw("freq") == 5000, "LFO.freq warn-only kept")
check(
    [r.getMessage() for r in recs] == [str((5000, 1, 2048))]
    and recs[0].levelno == logging.WARNING,
    f"LFO.freq warn-only log {[r.getMessage() for r in recs]}",
)
c = Controller((-3, 3), 0)
check(type(c.value_type) is Range and c.value_type == Range(-3, 3), "tuple -> Range")

if failures:
    print("\n".join(failures))
    print("FAIL")
    sys.exit(1)
print(f"PASS ({pairs} (controller, value) pairs)")
