"""Behaviour check for the reader expression clean-up (C01-2).

Exercises SunVoxReader / ModuleReader / PatternReader handlers and
rv.lib.iff.write_chunk with

 - projects built through the public API (golden SHA-256 of the written bytes
   recorded on the unchanged tree, full field-by-field round trip),
 - hand-assembled chunk streams that hit the edge cases of the rewritten
   expressions: NUL-terminated text (no NUL, several NULs, leading NUL, empty),
   SLNK/SLnK payloads with trailing / leading / only -1 entries and malformed
   sizes, VERS/BVER byte order, SFGS bit fields, SMII packing, surplus CVAL
   chunks, sparse out-link slots, legacy (< 1.9.5) note module masking,
   trailing empty module slots,
 - the order in which raw controller values are applied (via the debug log),
 - write_chunk name padding / truncation and its write() call pattern.
"""
import hashlib
import sys
from io import BytesIO
from struct import pack, unpack

from rv.api import NOTECMD, Pattern, PatternClone, Project, m, read_sunvox_file
from rv.cmidmap import MidiMessageType, Slope
from rv.lib.iff import chunks as iff_chunks
from rv.modules import MODULE_CLASSES

FAILURES = []


def expect(cond, msg):
    if not cond:
        FAILURES.append(msg)


def digest(data):
    return hashlib.sha256(data).hexdigest()


def write(project):
    f = BytesIO()
    project.write_to(f)
    return f.getvalue()


def load(data):
    return read_sunvox_file(BytesIO(data))


def chunk_names(data):
    return [name for name, _ in iff_chunks(BytesIO(data))]


PROJECT_FIELDS = [
    "flags",
    "initial_bpm",
    "initial_tpl",
    "global_volume",
    "name",
    "time_grid",
    "time_grid2",
    "modules_scale",
    "modules_zoom",
    "modules_x_offset",
    "modules_y_offset",
    "modules_layer_mask",
    "modules_current_layer",
    "timeline_position",
    "restart_position",
    "selected_module",
    "selected_generator",
    "current_pattern",
    "current_track",
    "current_line",
    "based_on_version",
]

MODULE_FIELDS = [
    "mtype",
    "name",
    "flags",
    "x",
    "y",
    "layer",
    "mod_scale",
    "mod_finetune",
    "mod_relative_note",
    "midi_in_always",
    "midi_in_channel",
    "midi_out_name",
    "midi_out_channel",
    "midi_out_bank",
    "midi_out_program",
    "in_links",
    "index",
]


def stored_name(name):
    return name.encode("utf-8")[:32].decode("utf-8", "ignore")


def trim(seq, filler):
    seq = list(seq)
    while seq and seq[-1] == filler:
        seq.pop()
    return seq


def compare_projects(tag, a, b):
    for field in PROJECT_FIELDS:
        expect(
            getattr(a, field) == getattr(b, field),
            f"{tag}: project.{field} {getattr(a, field)!r} != {getattr(b, field)!r}",
        )
    expect(int(a.receive_sync_midi) == int(b.receive_sync_midi), f"{tag}: sync midi")
    expect(int(a.receive_sync_other) == int(b.receive_sync_other), f"{tag}: sync other")
    # Documented normalisation on load: trailing empty module slots are dropped
    # and trailing -1 (disconnected) links are trimmed.
    a_modules, b_modules = trim(a.modules, None), trim(b.modules, None)
    expect(len(a_modules) == len(b_modules), f"{tag}: module count")
    for ma, mb in zip(a_modules, b_modules):
        if ma is None or mb is None:
            expect(ma is None and mb is None, f"{tag}: empty slot mismatch")
            continue
        expect(type(ma) is type(mb), f"{tag}: module type {ma!r} {mb!r}")
        for field in MODULE_FIELDS:
            va, vb = getattr(ma, field), getattr(mb, field)
            if field == "name":
                va = stored_name(va)
            if field == "in_links":
                va, vb = trim(va, -1), trim(vb, -1)
            expect(va == vb, f"{tag}: {ma!r}.{field} {va!r} != {vb!r}")
        expect(tuple(ma.color) == tuple(mb.color), f"{tag}: {ma!r}.color")
        expect(
            int(ma.visualization) == int(mb.visualization), f"{tag}: {ma!r}.visualization"
        )
        for cname, ctl in ma.controllers.items():
            if ctl.attached(ma):
                expect(
                    ma.get_raw(cname) == mb.get_raw(cname),
                    f"{tag}: {ma!r}.{cname} raw value",
                )
                expect(
                    ma.controller_midi_maps[cname].cmid_data
                    == mb.controller_midi_maps[cname].cmid_data,
                    f"{tag}: {ma!r}.{cname} midi map",
                )
        expect(ma.option_values == mb.option_values, f"{tag}: {ma!r}.option_values")
    expect(len(a.patterns) == len(b.patterns), f"{tag}: pattern count")
    for pa, pb in zip(a.patterns, b.patterns):
        if pa is None or pb is None:
            expect(pa is None and pb is None, f"{tag}: empty pattern slot mismatch")
            continue
        expect(type(pa) is type(pb), f"{tag}: pattern type")
        if isinstance(pa, Pattern):
            for field in (
                "name tracks lines y_size flags_PFLG icon flags_PFFF x y".split()
            ):
                expect(
                    getattr(pa, field) == getattr(pb, field), f"{tag}: pattern.{field}"
                )
            expect(tuple(pa.fg_color) == tuple(pb.fg_color), f"{tag}: pattern.fg_color")
            expect(tuple(pa.bg_color) == tuple(pb.bg_color), f"{tag}: pattern.bg_color")
            expect(pa.raw_data == pb.raw_data, f"{tag}: pattern note cells")
        else:
            for field in "source flags_PFFF x y".split():
                expect(
                    getattr(pa, field) == getattr(pb, field), f"{tag}: clone.{field}"
                )


# ---------------------------------------------------------------------------
# project builders


def build_default():
    return Project()


def build_settings():
    p = Project()
    p.name = "Projekt üñî ☃"
    p.flags = 0x1234
    p.initial_bpm = 777
    p.initial_tpl = 31
    p.global_volume = 256
    p.time_grid = 7
    p.time_grid2 = 3
    p.modules_scale = 300
    p.modules_zoom = 128
    p.modules_x_offset = -77
    p.modules_y_offset = 2**31 - 1
    p.modules_layer_mask = 0xFFFFFFFF
    p.modules_current_layer = 5
    p.timeline_position = -3
    p.restart_position = 16
    p.selected_module = 2
    p.selected_generator = 1
    p.current_pattern = 1
    p.current_track = 3
    p.current_line = 9
    p.receive_sync_midi = Project.SyncCommand.tempo | Project.SyncCommand.position
    p.receive_sync_other = 7
    p.sunvox_version = (2, 1, 2, 0)
    p.based_on_version = (1, 9, 6, 1)
    return p


def build_all_types():
    p = Project()
    for i, mtype in enumerate(sorted(MODULE_CLASSES)):
        if mtype == "Output":
            continue
        mod = p.new_module(MODULE_CLASSES[mtype], x=16 * i, y=-8 * i, layer=i % 8)
        mod.color = (i, 255 - i, (i * 7) % 256)
        mod.mod_finetune = i - 20
        mod.mod_relative_note = 20 - i
        if i % 3 == 0:
            mod.midi_out_name = f"midi-{i}"
            mod.midi_out_channel = i % 16
            mod.midi_out_bank = i
            mod.midi_out_program = i % 128
        if i % 4 == 0:
            mod.midi_in_always = True
            mod.midi_in_channel = i % 17
    return p


def build_links():
    p = Project()
    gen = p.new_module(m.Generator, name="gen")
    fm = p.new_module(m.Fm, name="fm")
    amp = p.new_module(m.Amplifier, name="amp", volume=300, balance=-5)
    rev = p.new_module(m.Reverb, name="rev")
    echo = p.new_module(m.Echo, name="echo")
    p.connect([gen, fm], amp)
    amp >> [rev, echo] >> p.output
    gen >> p.output
    amp >> ~rev  # rev.in_links becomes [-1]
    p.connect(~gen, amp)  # -1 in first position of amp.in_links
    fm >> echo
    echo >> gen  # feedback edge, produces non-trivial in_link_slots
    return p


def build_empty_slots_and_names():
    p = Project()
    names = [
        "",
        "a" * 31,
        "b" * 32,
        "c" * 40,
        "é" * 16,
        "x" + "é" * 16,  # 2-byte char straddles byte 32
        "☃" * 11,  # 33 bytes, 3-byte char straddles
        "\U0001f600" * 8 + "z",
        "xx" + "\U0001f600" * 8,  # 4-byte char straddles
    ]
    for i, name in enumerate(names):
        p.new_module(m.Amplifier, name=name, volume=i * 100)
    # punch holes: middle and last
    p.modules[3] = None
    p.modules[len(p.modules) - 1] = None
    p.new_module(m.Lfo, name="fills slot 3")
    p.attach_module(None)
    p.new_module(m.Filter, name="tail")
    return p


def build_patterns():
    p = Project()
    gen = p.new_module(m.Generator)
    gen >> p.output
    pat = Pattern(name="Intro ♫", tracks=3, lines=5, x=-32, y=64)
    pat.y_size = 48
    pat.flags_PFLG = 3
    pat.flags_PFFF = 0x18
    pat.icon = bytes(range(32))
    pat.fg_color = (1, 2, 3)
    pat.bg_color = (250, 251, 252)
    p.attach_pattern(pat)
    for line in range(5):
        for track in range(3):
            n = pat.data[line][track]
            n.note = (line * 3 + track) % 120 + 1
            n.vel = (line * 30 + track) % 130
            n.module = int(gen) if track else 0xFFFF
            n.ctl = (line << 8) | track
            n.val = 0xFFFF - line * 1000 - track
    pat.data[4][2].note = NOTECMD.NOTE_OFF
    p.attach_pattern(None)
    p.attach_pattern(PatternClone(source=0, x=100, y=-100))
    p.attach_pattern(Pattern(tracks=1, lines=1))
    p.attach_pattern(None)
    big = Pattern(tracks=32, lines=2)
    p.attach_pattern(big)
    big.data[1][31].val = 0xABCD
    clone2 = PatternClone(source=5, x=2**31 - 1, y=-(2**31))
    clone2.flags_PFFF = 0x1B
    p.attach_pattern(clone2)
    return p


def build_controllers_and_midi_maps():
    p = Project()
    gen = p.new_module(m.AnalogGenerator, volume=0, attack=256, polyphony=32)
    vol_map = gen.controller_midi_maps["volume"]
    vol_map.channel = 3
    vol_map.message_type = MidiMessageType.control_change
    vol_map.message_parameter = 0x1234
    vol_map.slope = Slope.s_curve
    rel_map = gen.controller_midi_maps["release"]
    rel_map.channel = 15
    rel_map.message_type = MidiMessageType.pitch_bend
    rel_map.slope = Slope.toggle
    dist = p.new_module(m.Distortion, volume=256, bit_depth=1)
    multi = p.new_module(m.MultiSynth)
    multi.static_note_c5 = True if "static_note_c5" in multi.options else None
    samp = p.new_module(m.Sampler)
    meta = p.new_module(m.MetaModule)
    ctl = p.new_module(m.MultiCtl, value=12345)
    gen >> dist >> p.output
    multi >> [gen, samp]
    samp >> p.output
    meta >> p.output
    ctl >> dist
    return p


BUILDERS = [
    build_default,
    build_settings,
    build_all_types,
    build_links,
    build_empty_slots_and_names,
    build_patterns,
    build_controllers_and_midi_maps,
]

GOLDEN = {
    "build_default": "406949941dae172bfd71f9013c6cb8c005715845af60d03e478800b54ccf4691",
    "build_settings": "5b405fc691eedddded12978ef04858650419550e4a4b02f75b3cf5e5174d3ddf",
    "build_all_types": "7751d44ba6cc6b3909fef5bf13aaa0170c99e147dd103234421dd23f8aba9f28",
    "build_links": "199b6b03b396fbec1148f0301bd60e8863e7f8883f34ae01df2bbc1a31f144fe",
    "build_empty_slots_and_names": "75132a1d8ab2dd0ed7670307ba0f66b7b9c8101ad8efdc6b45d11519a60ba047",
    "build_patterns": "c2dac9bc57106ce95732b4debb925b24dc6f8116e6019c7a772afaff50a89626",
    "build_controllers_and_midi_maps": "cd1e2c806ffc779c6a6ac361983b4d3597a11ccd13fe43b3cee7a09eb08078b8",
}

HEADER_NAMES = (
    "SVOX VERS BVER FLGS SFGS BPM  SPED TGRD TGD2 GVOL NAME MSCL MZOO MXOF MYOF "
    "LMSK CURL"
)


def header_prefix():
    return [HEADER_NAMES[i : i + 4].encode() for i in range(0, len(HEADER_NAMES), 5)]


def check_structure(tag, project, data):
    names = chunk_names(data)
    prefix = header_prefix()
    expect(names[: len(prefix)] == prefix, f"{tag}: header chunk order")
    rest = names[len(prefix) :]
    optional = []
    if project.timeline_position != 0:
        optional.append(b"TIME")
    if project.restart_position != 0:
        optional.append(b"REPS")
    tail = optional + [b"SELS", b"LGEN", b"PATN", b"PATT", b"PATL"]
    expect(rest[: len(tail)] == tail, f"{tag}: selection chunk order")
    expect(names.count(b"PEND") == len(project.patterns), f"{tag}: one PEND per slot")
    expect(names.count(b"SEND") == len(project.modules), f"{tag}: one SEND per slot")
    expect(
        names.count(b"SFFF") == sum(mod is not None for mod in project.modules),
        f"{tag}: one SFFF per module",
    )
    expect(names.count(b"SLNK") == names.count(b"SFFF"), f"{tag}: one SLNK per module")
    expect(names[-1] == b"SEND", f"{tag}: file ends with SEND")
    if b"PEND" in names and b"SFFF" in names:
        last_pend = len(names) - 1 - names[::-1].index(b"PEND")
        expect(last_pend < names.index(b"SFFF"), f"{tag}: patterns precede modules")


def check_lazy_generator():
    p = build_links()
    gen = p.chunks()
    expect(iter(gen) is gen, "chunks() returns an iterator")
    first = next(gen)
    expect(first == (b"SVOX", b""), "first chunk is the magic chunk")
    expect(first is Project.MAGIC_CHUNK, "magic chunk is the class constant")
    # Laziness: a change made after the header was consumed is still reflected
    # in chunks that have not been produced yet.
    for name, data in gen:
        if name == b"CURL":
            p.selected_module = 41
            p.modules[2].name = "renamed late"
            break
    remaining = list(gen)
    rest = dict((n, d) for n, d in remaining if n == b"SELS")
    expect(rest[b"SELS"] == pack("<I", 41), "chunks are produced lazily (SELS)")
    snams = [d for n, d in remaining if n == b"SNAM"]
    expect(snams[2] == b"renamed late".ljust(32, b"\0"), "modules serialised lazily")
    for name, data in remaining:
        expect(isinstance(name, bytes) and isinstance(data, bytes), "chunk types")


def check_slnk_encoding():
    p = build_links()
    data = write(p)
    slnk = [d for n, d in iff_chunks(BytesIO(data)) if n == b"SLNK"]
    expect(len(slnk) == len(p.modules), "SLNK per module")
    for mod, raw in zip(p.modules, slnk):
        links = list(unpack("<" + "i" * (len(raw) // 4), raw))
        expect(links == list(mod.in_links), f"SLNK payload for {mod!r}")
    slots = [d for n, d in iff_chunks(BytesIO(data)) if n == b"SLnK"]
    expected_slots = [
        pack("<" + "i" * len(mod.in_link_slots), *mod.in_link_slots)
        for mod in p.modules
        if any(s not in (-1, 0) for s in mod.in_link_slots)
    ]
    expect(slots == expected_slots, "SLnK only for modules with non-zero slots")
    expect(len(slots) >= 1, "test project exercises SLnK")


def check_errors():
    from rv.modules.module import Module

    p = Project()
    try:
        p.attach_module(Module())
    except RuntimeError:
        pass
    else:
        expect(False, "attaching base Module must raise RuntimeError")
    p2 = Project()
    p2.initial_bpm = -1
    try:
        write(p2)
    except Exception as e:  # struct.error
        expect(type(e).__name__ == "error", f"out of range bpm error type {type(e)}")
    else:
        expect(False, "negative bpm must fail to pack")


# ---------------------------------------------------------------------------
# hand-assembled chunk streams


def raw(*chunk_list):
    out = BytesIO()
    for name, data in chunk_list:
        out.write(name)
        out.write(pack("<I", len(data)))
        out.write(data)
    return out.getvalue()


def ints(*values):
    return pack("<" + "i" * len(values), *values)


def module_chunks(mtype=None, name=b"mod", extra=(), flags=0x49):
    result = [(b"SFFF", pack("<I", flags)), (b"SNAM", name)]
    if mtype is not None:
        result.append((b"STYP", mtype))
    result.extend(extra)
    result.append((b"SEND", b""))
    return result


def project_stream(*groups, vers=(1, 2, 1, 2), head=()):
    chunk_list = [(b"SVOX", b""), (b"VERS", bytes(vers))]
    chunk_list.extend(head)
    for group in groups:
        chunk_list.extend(group)
    return raw(*chunk_list)


class LogCapture:
    def __init__(self, level):
        import logging

        self.records = []
        self.level = level
        self.logging = logging

    def __enter__(self):
        outer = self

        class Handler(self.logging.Handler):
            def emit(self, record):
                outer.records.append((record.levelname, record.getMessage()))

        self.handler = Handler()
        self.logger = self.logging.getLogger("rv")
        self.old_level = self.logger.level
        self.logger.setLevel(self.level)
        self.logger.addHandler(self.handler)
        return self

    def __exit__(self, *exc):
        self.logger.removeHandler(self.handler)
        self.logger.setLevel(self.old_level)

    def messages(self, levelname, prefix=""):
        return [m for lv, m in self.records if lv == levelname and m.startswith(prefix)]


TEXT_CASES = [
    (b"plain", "plain"),
    (b"plain\0", "plain"),
    (b"ab\0cd\0ef", "ab"),
    (b"\0hidden", ""),
    (b"", ""),
    (b"\0", ""),
    (b"\0\0\0", ""),
    ("ünï ☃".encode() + b"\0" * 5, "ünï ☃"),
    (b"x" * 32, "x" * 32),
    (b"y" * 31 + b"\0", "y" * 31),
]


def check_text_fields():
    for payload, expected in TEXT_CASES:
        tag = f"text {payload!r}"
        data = project_stream(
            [(b"PDTA", bytes(8)), (b"PNME", payload), (b"PCHN", pack("<I", 1)),
             (b"PLIN", pack("<I", 1)), (b"PEND", b"")],
            module_chunks(name=b"Output"),
            module_chunks(b"Amplifier\0", name=payload, extra=[(b"SMIN", payload)]),
            head=[(b"NAME", payload)],
        )
        p = load(data)
        expect(p.name == expected, f"{tag}: project name {p.name!r}")
        expect(p.modules[1].name == expected, f"{tag}: module name")
        expect(p.modules[1].midi_out_name == expected, f"{tag}: midi out name")
        expect(p.patterns[0].name == expected, f"{tag}: pattern name")
        expect(type(p.modules[1]).__name__ == "Amplifier", f"{tag}: module class")
    # STYP without terminator and with trailing garbage after the terminator
    for styp in (b"Echo", b"Echo\0", b"Echo\0Amplifier\0"):
        p = load(project_stream(module_chunks(name=b"Output"), module_chunks(styp)))
        expect(p.modules[1].mtype == "Echo", f"STYP {styp!r}")
    try:
        load(project_stream(module_chunks(name=b"Output"), module_chunks(b"\0Echo")))
    except KeyError:
        pass
    else:
        expect(False, "empty module type must raise KeyError")
    try:
        load(project_stream(head=[(b"NAME", b"\xff\xfe")]))
    except UnicodeDecodeError:
        pass
    else:
        expect(False, "undecodable NAME must raise UnicodeDecodeError")


LINK_CASES = [
    ((), []),
    ((0,), [0]),
    ((0, -1), [0]),
    ((0, -1, -1, -1), [0]),
    ((-1,), []),
    ((-1, -1), []),
    ((-1, 0), [-1, 0]),
    ((-1, 0, -1, 2, -1), [-1, 0, -1, 2]),
    ((2, 0, 2), [2, 0, 2]),
]


def check_link_chunks():
    for values, expected in LINK_CASES:
        tag = f"links {values!r}"
        data = project_stream(
            module_chunks(name=b"Output"),
            module_chunks(b"Amplifier\0", extra=[(b"SLNK", ints(*values))]),
            module_chunks(b"Echo\0"),
        )
        p = load(data)
        expect(p.modules[1].in_links == expected, f"{tag}: {p.modules[1].in_links}")
        # same payload for the slot chunk (links kept simple so the file loads)
        data = project_stream(
            module_chunks(name=b"Output"),
            module_chunks(
                b"Amplifier\0",
                extra=[(b"SLNK", ints(*([0] * len(expected)))), (b"SLnK", ints(*values))],
            ),
        )
        if any(v < -1 for v in expected):
            continue
        p = load(data)
        slots = p.modules[1].in_link_slots
        if expected:
            expect(slots == expected, f"{tag}: slots {slots}")
    for name in (b"SLNK", b"SLnK"):
        for size in (1, 2, 3, 5, 6, 7):
            data = project_stream(
                module_chunks(name=b"Output"),
                module_chunks(b"Amplifier\0", extra=[(name, bytes(size))]),
            )
            try:
                load(data)
            except Exception as e:
                expect(
                    type(e).__module__ == "struct" and type(e).__name__ == "error",
                    f"{name!r} size {size}: error type {type(e)!r}",
                )
            else:
                expect(False, f"{name!r} size {size}: expected struct.error")


def check_out_link_reconstruction():
    # Module 2 declares that its two incoming links use out slots 3 and 1 of
    # modules 1 and 3: the sources' out_links lists are padded with -1.
    data = project_stream(
        module_chunks(name=b"Output", extra=[(b"SLNK", ints(2))]),
        module_chunks(b"Generator\0"),
        module_chunks(
            b"Amplifier\0", extra=[(b"SLNK", ints(1, 3)), (b"SLnK", ints(3, 1))]
        ),
        module_chunks(b"FM\0"),
        [(b"SEND", b""), (b"SEND", b"")],
    )
    p = load(data)
    expect(len(p.modules) == 4, f"trailing empty slots dropped: {len(p.modules)}")
    expect(p.modules[1].out_links == [-1, -1, -1, 2], f"out {p.modules[1].out_links}")
    expect(p.modules[1].out_link_slots == [-1, -1, -1, 0], "out slots of module 1")
    expect(p.modules[3].out_links == [-1, 2], f"out {p.modules[3].out_links}")
    expect(p.modules[3].out_link_slots == [-1, 1], "out slots of module 3")
    expect(p.modules[2].out_links == [0], f"out {p.modules[2].out_links}")
    expect(p.modules[2].out_link_slots == [0], "out slots of module 2")
    expect(p.modules[0].in_link_slots == [0], "in slots of output initialised")
    # an empty slot in the middle survives, only the tail is trimmed
    data = project_stream(
        module_chunks(name=b"Output"),
        [(b"SEND", b"")],
        module_chunks(b"Echo\0"),
        [(b"SEND", b"")] * 3,
    )
    p = load(data)
    expect([mod is None for mod in p.modules] == [False, True, False], "middle hole")
    expect(p.modules[2].index == 2, "index after hole")
    p = load(project_stream([(b"SEND", b"")] * 2))
    expect(p.modules == [], "only empty slots -> no modules")


def check_versions_and_sync():
    for vers in [(0, 0, 0, 0), (1, 2, 3, 4), (255, 254, 253, 252), (0, 5, 9, 1)]:
        p = load(project_stream(module_chunks(name=b"Output"), vers=vers))
        expect(p.loaded_sunvox_version == tuple(reversed(vers)), f"VERS {vers}")
        expect(type(p.loaded_sunvox_version) is tuple, "VERS type")
        expect(p.based_on_version == (1, 7, 0, 0), "missing BVER default")
        p = load(project_stream(module_chunks(name=b"Output"), head=[(b"BVER", bytes(vers))]))
        expect(p.based_on_version == tuple(reversed(vers)), f"BVER {vers}")
        expect(type(p.based_on_version) is tuple, "BVER type")
    for val in list(range(64)) + [64, 0xC0, 0x1FF, 0xFFFFFFC0 | 0b101011, 0xFFFFFFFF]:
        p = load(project_stream(head=[(b"SFGS", pack("<I", val))]))
        expect(p.receive_sync_midi == val % 8, f"SFGS {val:#x} midi")
        expect(p.receive_sync_other == (val // 8) % 8, f"SFGS {val:#x} other")
        expect(type(p.receive_sync_midi) is int, "SFGS type")


def check_smii():
    for val in [0, 1, 2, 3, 32, 33, 0x7FFFFFFF, 0xFFFFFFFE, 0xFFFFFFFF]:
        data = project_stream(
            module_chunks(name=b"Output"),
            module_chunks(b"Echo\0", extra=[(b"SMII", pack("<I", val))]),
        )
        mod = load(data).modules[1]
        expect(mod.midi_in_always is bool(val & 1), f"SMII {val:#x} always")
        expect(mod.midi_in_channel == val >> 1, f"SMII {val:#x} channel")
        expect(type(mod.midi_in_channel) is int, "SMII channel type")


def check_cval_application():
    import logging

    cvals = [(b"CVAL", pack("<i", v)) for v in (10, 20, 1, 0, 5, 6, 7, 8, 9, 10)]
    data = project_stream(
        module_chunks(name=b"Output", extra=[(b"CVAL", pack("<i", 99))]),
        module_chunks(b"Amplifier\0", extra=cvals),
    )
    with LogCapture(logging.DEBUG) as cap:
        p = load(data)
    amp = p.modules[1]
    amp_keys = [n for n, c in amp.controllers.items() if c.attached(amp)]
    setting = cap.messages("DEBUG", "Setting ")
    expect(
        setting == [
            f"Setting {name} from raw {pack_v}"
            for name, pack_v in reversed(list(zip(amp_keys, (10, 20, 1, 0, 5, 6, 7, 8, 9, 10))))
        ],
        f"controller values applied last-to-first: {setting}",
    )
    surplus = 10 - len(amp_keys)
    warnings = cap.messages("WARNING", "Unsupported controller")
    expected_warnings = [
        f"Unsupported controller at index {i} with raw value {v}"
        for i, v in reversed(list(enumerate((10, 20, 1, 0, 5, 6, 7, 8, 9, 10))))
        if i >= len(amp_keys)
    ] + ["Unsupported controller at index 0 with raw value 99"]
    # Output has no controllers: its CVAL is reported too (modules load in order,
    # so that warning comes first).
    expect(
        sorted(warnings) == sorted(expected_warnings) and len(warnings) == surplus + 1,
        f"surplus CVAL warnings: {warnings}",
    )
    expect(warnings[0] == "Unsupported controller at index 0 with raw value 99", "order")
    expect(warnings[1:] == expected_warnings[:-1], "surplus warnings high-to-low")
    expect(amp.get_raw(amp_keys[0]) == 10 and amp.get_raw(amp_keys[1]) == 20, "values")
    expect(amp.controllers_loaded >= set(amp_keys), "controllers_loaded")
    # the debug log of a full project load is stable as well
    with LogCapture(logging.DEBUG) as cap:
        load(write(build_all_types()))
    log_digest = digest("\n".join(m for _, m in cap.records).encode())
    if "--record" in sys.argv:
        print("LOG_DIGEST =", repr(log_digest))
    else:
        expect(log_digest == LOG_DIGEST, "reader log of build_all_types changed")


def check_legacy_note_masking():
    notes = b"".join(pack("<BBHHH", 1 + i, 2, 0x1234 + i, 0x0102, 0x0304) for i in range(4))
    pat = [(b"PDTA", notes), (b"PCHN", pack("<I", 2)), (b"PLIN", pack("<I", 2)), (b"PEND", b"")]
    # VERS payload bytes are stored in reverse order: (0, 5, 9, 1) is 1.9.5.0
    for vers, masked in [
        ((0, 0, 9, 1), True),
        ((0, 5, 9, 1), False),
        ((9, 4, 9, 1), True),
        ((0, 0, 0, 1), True),
        ((1, 2, 1, 2), False),
    ]:
        version = tuple(reversed(vers))
        p = load(project_stream(pat, [(b"PEND", b"")], module_chunks(name=b"Output"), vers=vers))
        mods = [n.module for line in p.patterns[0].data for n in line]
        want = [(0x1234 + i) & (0xFF if masked else 0xFFFF) for i in range(4)]
        expect(mods == want, f"legacy masking for {version}: {mods}")
        expect(p.patterns[1] is None, "empty pattern slot kept")


def check_write_chunk():
    from rv.lib.iff import write_chunk

    class Recorder:
        def __init__(self):
            self.calls = []

        def write(self, data):
            self.calls.append(bytes(data))

    for name, padded in [
        (b"", b"    "),
        (b"A", b"A   "),
        (b"AB", b"AB  "),
        (b"BPM", b"BPM "),
        (b"BPM ", b"BPM "),
        (b"SLnK", b"SLnK"),
        (b"TOOLONG", b"TOOL"),
    ]:
        for payload in (b"", b"\0", b"payload", bytes(300)):
            rec = Recorder()
            write_chunk(rec, name, payload)
            expect(
                rec.calls == [padded, pack("<I", len(payload)), payload],
                f"write_chunk({name!r}, {len(payload)} bytes): {rec.calls[:2]}",
            )
    rec = Recorder()
    expect(write_chunk(rec, None, None) is None and rec.calls == [], "None is a no-op")
    try:
        write_chunk(Recorder(), "STR", b"")
    except TypeError:
        pass
    else:
        expect(False, "str chunk name must raise TypeError")


def check_styp_emission():
    p = build_all_types()
    data = write(p)
    names = chunk_names(data)
    expect(names.count(b"STYP") == len(p.modules) - 1, "STYP for all but Output")
    styps = [d for n, d in iff_chunks(BytesIO(data)) if n == b"STYP"]
    expect(
        styps == [mod.mtype.encode() + b"\0" for mod in p.modules[1:]], "STYP payloads"
    )
    first_module = names.index(b"SFFF")
    expect(names[first_module : first_module + 3] == [b"SFFF", b"SNAM", b"SFIN"], "Output")
    loaded = load(data)
    expect(type(loaded.modules[0]).__name__ == "Output", "slot 0 loads as Output")
    expect(loaded.output is loaded.modules[0], "project.output rebound on load")
    meta = [mod for mod in loaded.modules if mod.mtype == "MetaModule"][0]
    orig = [mod for mod in p.modules if mod.mtype == "MetaModule"][0]
    expect(
        meta.user_defined_controllers == orig.user_defined_controllers,
        "metamodule user defined controller count",
    )


LOG_DIGEST = "8399dd85d323a6f3d4f5509cc8d2b95570e6abba71bccbdd8c885664f58d2c9b"


def main():
    record = "--record" in sys.argv
    for builder in BUILDERS:
        tag = builder.__name__
        project = builder()
        data = write(project)
        expect(data == project.read(), f"{tag}: read() == write_to() bytes")
        expect(data == write(project), f"{tag}: writing twice gives the same bytes")
        if record:
            print(f'    "{tag}": "{digest(data)}",')
        else:
            expect(digest(data) == GOLDEN[tag], f"{tag}: golden digest differs")
        check_structure(tag, project, data)
        loaded = load(data)
        compare_projects(tag, project, loaded)
        cloned = project.clone()
        compare_projects(tag + "/clone", project, cloned)
        # the loaded project can be written and loaded again
        data2 = write(loaded)
        compare_projects(tag + "/second", loaded, load(data2))
    check_lazy_generator()
    check_slnk_encoding()
    check_errors()
    check_text_fields()
    check_link_chunks()
    check_out_link_reconstruction()
    check_versions_and_sync()
    check_smii()
    check_cval_application()
    check_legacy_note_masking()
    check_write_chunk()
    check_styp_emission()
    if FAILURES:
        for failure in FAILURES:
            print("FAIL:", failure)
        sys.exit(1)
    print("PASS")


if __name__ == "__main__":
    main()
