"""Behaviour check for C17-3 (Module.__init__ and friends, Sampler, Pattern).

Constructs, mutates, saves, loads and clones modules / patterns / projects in
pairs and checks both the exact expected values and that nothing leaks from
one object into another.  Must print PASS on the original and patched tree.
"""
import io
import os
import struct
import sys
from collections import defaultdict
from struct import pack

import rv
import rv.api  # noqa: F401
from rv.cmidmap import ControllerMidiMap, MidiMessageType
from rv.errors import ControllerValueError
from rv.modules import MODULE_CLASSES, Module
from rv.modules.amplifier import Amplifier
from rv.modules.analoggenerator import AnalogGenerator
from rv.modules.lfo import Lfo
from rv.modules.metamodule import MetaModule
from rv.modules.module import Chunk
from rv.modules.multisynth import MultiSynth
from rv.modules.sampler import Sampler
from rv.modules.smooth import Smooth
from rv.note import NOTE, NOTECMD, Note
from rv.pattern import Pattern, PatternClone
from rv.project import Project
from rv.readers.reader import read_sunvox_file
from rv.synth import Synth

ROOT = os.path.dirname(os.path.dirname(os.path.dirname(os.path.dirname(rv.__file__))))
FILES = os.path.join(ROOT, "tests", "files")
checks = 0


def ok(cond, msg):
    global checks
    checks += 1
    if not cond:
        print("FAIL:", msg)
        sys.exit(1)


def raises(exc, fn, msg):
    try:
        fn()
    except exc as e:
        ok(True, msg)
        return e
    except BaseException as e:  # noqa
        ok(False, f"{msg}: expected {exc.__name__}, got {type(e).__name__}: {e}")
    else:
        ok(False, f"{msg}: expected {exc.__name__}, nothing raised")


def synth_bytes(mod):
    f = io.BytesIO()
    Synth(mod).write_to(f)
    return f.getvalue()


def project_bytes(p):
    f = io.BytesIO()
    p.write_to(f)
    return f.getvalue()


def load_synth(name):
    with open(os.path.join(FILES, name + ".sunsynth"), "rb") as fh:
        return read_sunvox_file(fh).module


def load_project(name):
    with open(os.path.join(FILES, name + ".sunvox"), "rb") as fh:
        return read_sunvox_file(fh)


PLAIN = ("index", "parent", "mod_finetune", "mod_relative_note", "x", "y", "layer", "mod_scale",
         "color", "midi_in_always", "midi_in_channel", "midi_out_name", "midi_out_channel",
         "midi_out_bank", "midi_out_program", "name", "_visualization")
CONTAINERS = ("controller_values", "controllers_loaded", "controller_midi_maps", "option_values",
              "in_links", "in_link_slots", "out_links", "out_link_slots")

# --------------------------------------------------------------------------
# Module.__init__: defaults for every module class, per-instance containers
# --------------------------------------------------------------------------
for mtype in sorted(MODULE_CLASSES):
    cls = MODULE_CLASSES[mtype]
    a, b = cls(), cls()
    default_name = "Output" if mtype == "Output" else cls.name
    ok([getattr(a, k) for k in PLAIN] ==
       [None, None, 0, 0, 512, 512, 0, 256, (255, 255, 255), False, 0, None, 0, -1, -1,
        default_name, 0x000C0101], f"{mtype}: plain defaults")
    ok(("name" in vars(a)) == (mtype != "Output"), f"{mtype}: name stored on the instance")
    for k in CONTAINERS:
        ok(k in vars(a) and getattr(a, k) is not getattr(b, k), f"{mtype}: own {k}")
    ok(len({id(getattr(a, k)) for k in CONTAINERS}) == len(CONTAINERS), f"{mtype}: 8 containers")
    ok((a.in_links, a.in_link_slots, a.out_links, a.out_link_slots) == ([], [], [], [])
       and all(type(getattr(a, k)) is list for k in CONTAINERS[4:]), f"{mtype}: empty links")
    ok(type(a.controller_values) is dict and type(a.controllers_loaded) is set
       and type(a.controller_midi_maps) is defaultdict
       and a.controller_midi_maps.default_factory is ControllerMidiMap
       and len(a.controller_midi_maps) == 0 and type(a.option_values) is dict, f"{mtype}: types")
    ok(list(a.controller_values) == [k for dep in (False, True) for k, c in cls.controllers.items()
                                     if (type(c.value_type).__name__ == "DependentRange") == dep],
       f"{mtype}: controller init order (dependent ranges last)")
    ok(a.controllers_loaded == set(cls.controllers), f"{mtype}: all controllers marked loaded")
    ok(a.controller_values == b.controller_values and a.option_values == b.option_values,
       f"{mtype}: equal defaults")
    ok(set(a.option_values) >= set(cls.options), f"{mtype}: every option has a value")
    for name, opt in cls.options.items():
        ok(getattr(a, name) == opt.default or opt.exclusive_of or opt.min is not None,
           f"{mtype}.{name} default")
    if mtype != "MetaModule":
        ok(all(a.controller_values[k] == c.default for k, c in cls.controllers.items()),
           f"{mtype}: controller defaults")
    snap = synth_bytes(b) if mtype != "Output" else None
    # mutate everything reachable on a
    a.in_links.append(3), a.in_link_slots.append(0), a.out_links.append(4)
    a.out_link_slots.append(1)
    a.controllers_loaded.clear()
    a.controller_midi_maps["zz"].channel = 3
    for k in list(a.controller_values):
        a.controller_values[k] = None
    for k in list(a.option_values):
        a.option_values[k] = 1
    a.x, a.y, a.name, a.color = 1, 2, "mutated", (1, 2, 3)
    ok(a.name == ("Output" if mtype == "Output" else "mutated"), f"{mtype}: rename")
    ok((b.in_links, b.in_link_slots, b.out_links, b.out_link_slots) == ([], [], [], [])
       and b.controllers_loaded == set(cls.controllers) and "zz" not in b.controller_midi_maps
       and (b.x, b.y, b.name, b.color) == (512, 512, default_name, (255, 255, 255)),
       f"{mtype}: peer untouched")
    c = cls()
    ok(c.controller_values == b.controller_values and c.option_values == b.option_values
       and c.in_links == [], f"{mtype}: later instance pristine")
    if snap is not None:
        ok(synth_bytes(b) == snap and synth_bytes(c) == snap, f"{mtype}: peer bytes stable")

# keyword handling
kw = dict(index=7, parent=None, finetune=-3, relative_note=5, x=10, y=-20, layer=2, mod_scale=300,
          color=[9, 8, 7], midi_in_always=True, midi_in_channel=4, midi_out_name="dev",
          midi_out_channel=2, midi_out_bank=5, midi_out_program=6, name="Amp!",
          visualization=0x01020304, volume=500, balance=-7, inverse=True)
amp = Amplifier(**kw)
ok([getattr(amp, k) for k in PLAIN] == [7, None, -3, 5, 10, -20, 2, 300, [9, 8, 7], True, 4,
                                         "dev", 2, 5, 6, "Amp!", 0x01020304], "kwargs stored")
ok(amp.color is kw["color"], "color object kept as passed")
ok((amp.volume, amp.balance, amp.inverse, amp.dc_offset) == (500, -7, True, 0), "controller kwargs")
ok(int(amp) == 8 and repr(amp) == "<Amplifier index=7 name=Amp!>", "int/repr")
ok(int(amp.visualization) == 0x01020304 and amp.visualization.oscilloscope_size == 2, "vis")
ok(Amplifier(name=None).name == "Amplifier" and Amplifier(name="").name == "", "name None vs ''")
ok(Amplifier(scale=77).mod_scale == 77 and Amplifier(scale=77).scale == 77, "scale -> mod_scale")
ok(Amplifier(scale=77, mod_scale=300).mod_scale == 77, "scale wins over mod_scale")
ok(Amplifier(mod_scale=300).mod_scale == 300, "mod_scale alone")
sm = Smooth(scale=77)
ok(sm.mod_scale == 256 and sm.controller_values["scale"] == 77, "Smooth.scale is a controller")
ok(Smooth(scale=77, mod_scale=9).mod_scale == 9 and Smooth().scale == 100, "Smooth mod_scale")
raises(ControllerValueError, lambda: Amplifier(volume=5000), "controller kwargs validated")
raises(KeyError, lambda: AnalogGenerator(waveform="nope"), "enum names validated")
ok(AnalogGenerator(waveform="saw").waveform is AnalogGenerator.Waveform.saw, "enum by name")
lfo = Lfo(freq=3000, frequency_unit=Lfo.FrequencyUnit.ms)
ok(lfo.freq == 3000 and list(lfo.controller_values)[-1] == "freq", "dependent range set last")
ms = MultiSynth(nv_values=[1] * 128)
ok(ms.nv_curve.values == [1] * 128 and MultiSynth().nv_curve.values != [1] * 128, "subclass kw")
mm1, mm2 = MetaModule(user_defined_controllers=4), MetaModule()
ok(mm1.user_defined_controllers == 4 and [u.attached(mm1) for u in mm1.user_defined[:5]] ==
   [True] * 4 + [False] and not any(u.attached(mm2) for u in mm2.user_defined), "option kwargs")
ok(Amplifier(bogus=1).controller_values == Amplifier().controller_values, "unknown kwargs ignored")
base = Module()
ok(base.name == "" and base.controller_values == {} and base.option_values == {}, "base Module")
raises(RuntimeError, lambda: list(base.iff_chunks()), "base Module not serialisable")

# --------------------------------------------------------------------------
# options chunk, cmid, clone
# --------------------------------------------------------------------------
s1 = Sampler()
oc = dict(s1.options_chunks())
ok(oc[b"CHNM"] == pack("<I", 0x101) and len(oc[b"CHDT"]) == max(o.byte for o in
   Sampler.options.values()) + 1, "options chunk length = highest byte + 1")
for cls in (Sampler, MetaModule, MultiSynth, AnalogGenerator):
    x = cls()
    flips = {}
    for i, (name, opt) in enumerate(cls.options.items()):
        if opt.size == 1 and not opt.exclusive_of and i % 2 == 0:
            setattr(x, name, not getattr(x, name))
            flips[name] = getattr(x, name)
    data = dict(x.options_chunks())[b"CHDT"]
    exp = [0] * 64
    for opt in cls.options.values():
        exp[opt.byte] |= (int(x.option_values[opt.name]) & (2 ** opt.size - 1)) << opt.bit
    n = max(o.byte for o in cls.options.values()) + 1
    ok(data == bytes(exp[:n]), f"{cls.__name__}: options bytes")
    y = cls()
    ch = Chunk()
    ch.chnm, ch.chdt = cls.options_chnm, data
    y.load_options(ch)
    ok(y.option_values == x.option_values and all(getattr(y, k) == v for k, v in flips.items()),
       f"{cls.__name__}: options roundtrip")
    ok(all(type(y.option_values[o.name]) is bool for o in cls.options.values() if o.size == 1),
       "single bit options load as bool")
    ch.chdt = data[:1]
    y.load_options(ch)
    ok(all(y.option_values[o.name] in (0, False) for o in cls.options.values() if o.byte >= 1),
       f"{cls.__name__}: short options chunk reads missing bytes as zero")
    ch.chdt = data + b"\xff" * 70
    z = cls()
    z.load_options(ch)
    ok(z.option_values == x.option_values or any(o.byte >= n for o in cls.options.values()),
       f"{cls.__name__}: long options chunk")
    ok(cls().option_values != x.option_values or not flips, f"{cls.__name__}: class untouched")
x = Sampler()
x.option_values["record_in_mono"] = None
raises(TypeError, lambda: list(x.options_chunks()), "None option value cannot be packed")


class NoOpt(Module):
    mtype = None
    mgroup = "Misc"


ok(list(NoOpt().specialized_iff_chunks()) == [(None, None)], "no options -> placeholder")

a1, a2 = Amplifier(), Amplifier()
rec = pack("<BBBBHBB", 1, 5, 1, 0, 77, 0, 0xC8)
a1.load_cmid(rec + rec[:5])
ok(list(a1.controller_midi_maps) == ["volume"] and a1.controller_midi_maps["volume"].channel == 5
   and a1.controller_midi_maps["volume"].message_parameter == 77
   and a1.controller_midi_maps["volume"].message_type is MidiMessageType(1),
   "cmid: full record loaded, truncated one skipped")
ok(len(a2.controller_midi_maps) == 0, "cmid: peer untouched")
a1.load_cmid(b"")
ok(list(a1.controller_midi_maps) == ["volume"], "cmid: empty data is a no-op")
a1.load_cmid(rec * 20)
ok(list(a1.controller_midi_maps) == list(Amplifier.controllers), "cmid: extra records ignored")

for cls in (Amplifier, AnalogGenerator, Sampler, MetaModule, MultiSynth, Lfo):
    orig = cls(name="orig")
    before = synth_bytes(orig)
    cl = orig.clone()
    ok(type(cl) is cls and cl is not orig and cl.parent is None and cl.name == "orig",
       f"{cls.__name__}: clone type")
    ok(synth_bytes(cl) == before and synth_bytes(orig) == before, f"{cls.__name__}: clone equal")
    ok(all(getattr(cl, k) is not getattr(orig, k) for k in CONTAINERS), "clone owns containers")
    first = next(k for k, c in cls.controllers.items() if type(c.value_type).__name__ == "Range"
                 and not k.startswith("user_defined"))
    setattr(cl, first, cls.controllers[first].value_type.max)
    cl.name = "changed"
    cl.out_links.append(1)
    ok(synth_bytes(orig) == before, f"{cls.__name__}: clone mutation stays in clone")
    after_clone = synth_bytes(cl)
    vt = cls.controllers[first].value_type
    setattr(orig, first, vt.min if getattr(orig, first) != vt.min else vt.max - 1)
    ok(synth_bytes(cl) == after_clone and synth_bytes(orig) != before,
       f"{cls.__name__}: original mutation stays in original")
raises(RuntimeError, lambda: Module().clone(), "base module cannot be cloned")

# --------------------------------------------------------------------------
# Sampler
# --------------------------------------------------------------------------
s1, s2 = Sampler(), Sampler()
ok([e.chnm for e in s1.effect_control_envelopes] == [0x105, 0x106, 0x107, 0x108]
   and all(type(e) is Sampler.EffectControlEnvelope for e in s1.effect_control_envelopes), "fx env")
ok(s1.samples == [None] * 128 and s1.samples is not s2.samples, "sample slots")
ok(type(s1.note_samples) is Sampler.NoteSampleMap and s1.note_samples is not s2.note_samples
   and len(s1.note_samples) == 119, "note map")
ok((s1.volume_envelope.chnm, s1.panning_envelope.chnm, s1.pitch_envelope.chnm) ==
   (0x102, 0x103, 0x104), "main envelopes")
ok((s1.instrument_name, s1.version, s1.max_version, s1.volume_old, s1.ins_finetune,
    s1.ins_relative_note, s1.editor_cursor, s1.editor_selected_size, s1.effect, s1.is_legacy,
    s1.legacy_chunks) == (b"", 6, 6, 64, 0, 0, 0, 0, None, None, []), "sampler scalars")
ok([getattr(s1, f"unused{i}") for i in range(1, 7)] == [0] * 6, "unused fields")
ok(Sampler(instrument_name=b"abc").instrument_name == b"abc", "instrument_name kw")
ok(s1.legacy_chunks is not s2.legacy_chunks, "legacy chunk lists per instance")
envs1 = [s1.volume_envelope, s1.panning_envelope, s1.pitch_envelope] + s1.effect_control_envelopes
envs2 = [s2.volume_envelope, s2.panning_envelope, s2.pitch_envelope] + s2.effect_control_envelopes
for e1, e2 in zip(envs1, envs2):
    t = type(e1)
    ok(e1 is not e2 and e1.points == t.initial_points and e1.points is not t.initial_points
       and e1.points is not e2.points and type(e1.points) is list, f"{t.__name__}: points copied")
    ok((e1.sustain_point, e1.loop_start_point, e1.loop_end_point, e1.enable, e1.sustain, e1.loop,
        e1.ctl_index, e1.gain_pct, e1.velocity, e1.loaded) ==
       (0, 0, 0, t.initial_enable, t.initial_sustain, t.initial_loop, 0, 100, 0, False),
       f"{t.__name__}: scalar defaults")
    ok(set(vars(e1)) >= {"points", "sustain_point", "loop_start_point", "loop_end_point", "enable",
                         "sustain", "loop", "ctl_index", "gain_pct", "velocity", "loaded"},
       "all envelope fields are instance attributes")
    ok(e1.bitmask == (t.initial_enable | t.initial_sustain * 2 | t.initial_loop * 4), "bitmask")
for e in s1.effect_control_envelopes:
    ok(len({id(x.points) for x in s1.effect_control_envelopes}) == 4, "fx envelopes own points")
e = Sampler.VolumeEnvelope()
for v in range(0, 16):
    e.bitmask = v
    ok((e.enable, e.sustain, e.loop) == (bool(v & 1), bool(v & 2), bool(v & 4))
       and e.bitmask == v & 7 and all(type(x) is bool for x in (e.enable, e.sustain, e.loop)),
       f"bitmask {v}")
raises(TypeError, Sampler.Envelope, "abstract envelope has no template")
snap2 = synth_bytes(s2)
s1.volume_envelope.points.append((0x400, 0))
s1.volume_envelope.points[0] = (0, 0x100)
s1.effect_control_envelopes[1].points.clear()
s1.pitch_envelope.loop = True
s1.note_samples[NOTE.C4] = 3
s1.samples[5] = Sampler.Sample()
s1.samples[5].data = b"\0" * 16
ok(synth_bytes(s2) == snap2 and synth_bytes(Sampler()) == snap2, "sampler peers isolated")
ok(Sampler.VolumeEnvelope.initial_points == [(0, 0x8000), (8, 0), (0x80, 0), (0x100, 0)]
   and Sampler.EffectControlEnvelope.initial_points == [(0, 0x8000), (0x40, 0x8000)], "templates")
ok(synth_bytes(s1) != snap2, "mutations are visible in the mutated sampler")

# chunk stream shape
names = [(k, v[:4] if k == b"CHNM" else None) for k, v in s1.specialized_iff_chunks()]
chnms = [struct.unpack("<I", v)[0] for k, v in names if k == b"CHNM"]
ok(chnms == [0, 11, 12, 0x101, 0x102, 0x103, 0x104, 0x105, 0x106, 0x107, 0x108], "chunk order")
sc = list(s1.sample_chunks(5, s1.samples[5]))
ok([k for k, _ in sc] == [b"CHNM", b"CHDT", b"CHNM", b"CHDT", b"CHFF", b"CHFR"], "sample chunks")
ok(sc[0][1] == pack("<I", 11) and sc[2][1] == pack("<I", 12) and sc[3][1] == b"\0" * 16
   and sc[4][1] == pack("<I", 4 | 8) and sc[5][1] == pack("<I", 44100), "sample chunk values")
ok(sc[1][1] == pack("<IIIBbBBbB22sI", 2, 0, 0, 64, 100, 0x60, 0x80, 16, 0, b"", 0), "sample meta")
gc = list(s1.global_config_chunks())
ok([k for k, _ in gc] == [b"CHNM", b"CHDT"] and gc[0][1] == pack("<I", 0)
   and len(gc[1][1]) == 0x190 and gc[1][1][0xFC:0x100] == b"PMAS", "global config record")
ok(gc[1][1][0x1C:0x1E] == pack("<H", 6), "sample count = highest used slot + 1")
# invalid field: nothing at all is yielded
s1.volume_old = 999
it = s1.global_config_chunks()
raises(struct.error, lambda: next(it), "invalid header field fails before the first chunk")
it = s1.specialized_iff_chunks()
raises(struct.error, lambda: next(it), "same through specialized_iff_chunks")
s1.volume_old = 64
s1.samples[5].volume = 999
it = s1.sample_chunks(5, s1.samples[5])
raises(struct.error, lambda: next(it), "invalid sample field fails before the first chunk")
s1.samples[5].volume = 64
# effect synth
s1.effect = Synth(Amplifier(volume=99))
tail = list(s1.specialized_iff_chunks())[-2:]
fx = io.BytesIO()
s1.effect.write_to(fx)
ok(tail == [(b"CHNM", b"\x0a\x01\0\0"), (b"CHDT", fx.getvalue())], "effect chunk")
r = read_sunvox_file(io.BytesIO(synth_bytes(s1))).module
ok(synth_bytes(r) == synth_bytes(s1) and r.effect.module.volume == 99
   and r.samples[5].data == b"\0" * 16 and r.note_samples[NOTE.C4] == 3
   and r.volume_envelope.points == s1.volume_envelope.points and r.pitch_envelope.loop is True
   and r.effect_control_envelopes[1].points == [] and r.is_legacy is False
   and r.legacy_chunks is None, "sampler roundtrip")
r.effect.module.volume = 5
ok(s1.effect.module.volume == 99, "loaded effect is independent")
s1.is_legacy = True
ch = Chunk()
ch.chnm, ch.chdt = 9, b"xyz"
s1.legacy_chunks = [ch]
ok(list(s1.specialized_iff_chunks()) == [(b"CHNM", pack("<I", 9)), (b"CHDT", b"xyz"),
                                         (b"CHFF", pack("<I", 0)), (b"CHFR", pack("<I", 44100))],
   "legacy chunks are replayed verbatim")

f1, f2 = load_synth("sampler"), load_synth("sampler")
fb = synth_bytes(f1)
ok(fb == synth_bytes(f2) and synth_bytes(read_sunvox_file(io.BytesIO(fb)).module) == fb,
   "sampler file roundtrip")
ok(f1.samples[0].format is Sampler.Format(1) and f1.samples[0].channels is Sampler.Channels(0)
   and len(f1.samples[0].data) == 32 and f1.samples[0].rate == 44100, "file sample decoded")
f1.samples[0].data = b"\1" * 32
f1.volume_envelope.points[1] = (34, 9728)
f1.effect.module.controller_values[next(iter(f1.effect.module.controller_values))] = 0
ok(synth_bytes(f2) == fb, "second load isolated from first")
cl = f2.clone()
cl.samples[1] = None
cl.panning_envelope.points.append((0x300, 0))
ok(synth_bytes(f2) == fb, "clone of loaded sampler isolated")

# --------------------------------------------------------------------------
# Pattern
# --------------------------------------------------------------------------
p1, p2 = Pattern(tracks=3, lines=5), Pattern(tracks=3, lines=5)
ok("_data" not in vars(p1), "data is created lazily")
d = p1.data
ok(d is p1.data and vars(p1)["_data"] is d, "data is cached")
ok(len(d) == 5 and all(len(row) == 3 for row in d) and len({id(r) for r in d}) == 5, "shape")
ok(len({id(n) for row in d for n in row}) == 15 and all(n.pattern is p1 and n == Note(pattern=p1)
   for row in d for n in row), "notes are distinct, empty and owned")
ok(not {id(n) for row in p1.data for n in row} & {id(n) for row in p2.data for n in row}
   and p1.data is not p2.data, "patterns do not share notes")
raw0 = p2.raw_data
ok(raw0 == b"\0" * 120, "empty raw data")
p1.data[2][1].note = NOTECMD.C4
p1.data[0][0].vel = 100
p1.data[4][2].module, p1.data[4][2].ctl, p1.data[4][2].val = 3, 0x0102, 0xBEEF
ok(p2.raw_data == raw0 and Pattern(tracks=3, lines=5).raw_data == raw0, "peer pattern isolated")
raw1 = p1.raw_data
ok(raw1[(2 * 3 + 1) * 8] == NOTECMD.C4 and raw1[1] == 100
   and raw1[(4 * 3 + 2) * 8:] == pack("<BBHHH", 0, 0, 3, 0x0102, 0xBEEF), "raw layout")
p2.raw_data = raw1
ok(p2.raw_data == raw1 and p2.data[2][1].note == NOTECMD.C4 and p2.data[4][2].val == 0xBEEF
   and all(n.pattern is p2 for row in p2.data for n in row), "raw setter fills notes in place")
notes_before = [n for row in p2.data for n in row]
p2.raw_data = raw0 + b"junk"
ok([n for row in p2.data for n in row] == notes_before and p2.raw_data == raw0
   and all(a is b for a, b in zip(notes_before, (n for row in p2.data for n in row))),
   "raw setter keeps note objects, ignores extra bytes")
raises(struct.error, lambda: setattr(p2, "raw_data", raw1[:-3]), "short raw data")
ok(p2.raw_data == raw1[:-8] + b"\0" * 8, "notes before the short one were assigned")
old = p1.data
p1.clear()
ok(p1.data is not old and p1.raw_data == raw0 and old[2][1].note is NOTECMD.C4, "clear rebuilds")
p3 = Pattern(tracks=2, lines=2)
p3.tracks = "x"
raises(TypeError, p3.clear, "bad track count")
ok(vars(p3)["_data"] == [[]], "first row was registered before it failed")
p3.tracks = 2
p3.lines = None
raises(TypeError, p3.clear, "bad line count")
ok(vars(p3)["_data"] == [], "data reset before it failed")

# set_via_fn / set_via_gen
p = Pattern(tracks=2, lines=3)
orig_data = p.data
seen = []


def fn(pat, line, track):
    seen.append((line, track))
    ok(pat.data is orig_data and pat.data[line][track] == Note(pattern=p), "old data until done")
    return Note(note=NOTECMD.C1 + line, vel=track + 1)


ok(p.set_via_fn(fn) is p, "set_via_fn returns self")
ok(seen == [(l, t) for l in range(3) for t in range(2)], "fn call order")
ok(p.data is not orig_data and all(n.pattern is p for row in p.data for n in row)
   and [[(int(n.note), n.vel) for n in row] for row in p.data] ==
   [[(13 + l, 1), (13 + l, 2)] for l in range(3)], "fn result committed and adopted")
ok(all(n == Note(pattern=p) for row in orig_data for n in row), "old array left untouched")
cur = p.data


def bad_fn(pat, line, track):
    if (line, track) == (1, 1):
        raise KeyError("stop")
    return Note(vel=9)


raises(KeyError, lambda: p.set_via_fn(bad_fn), "fn failure propagates")
ok(p.data is cur and p.data[0][0].vel == 1, "pattern unchanged when fn fails")
raises(AttributeError, lambda: p.set_via_fn(lambda *a: None), "fn returning None fails at adopt")
ok(p.data is cur, "pattern unchanged when adopting fails")


def gen(pat, new):
    ok(new is not pat.data and new == pat.data, "gen sees a deep copy")
    yield 0, 1, Note(note=NOTECMD.NOTE_OFF)
    ok(new[0][1].note is NOTECMD.NOTE_OFF and pat.data[0][1].note is not NOTECMD.NOTE_OFF,
       "intermediate state only in the new array")
    yield 2, 0, Note(vel=77)


ok(p.set_via_gen(gen) is p, "set_via_gen returns self")
ok(p.data is not cur and p.data[0][1].note is NOTECMD.NOTE_OFF and p.data[2][0].vel == 77
   and p.data[0][0].vel == 1 and all(n.pattern is p for row in p.data for n in row), "gen result")
ok(cur[0][1].note is not NOTECMD.NOTE_OFF and not {id(n) for r in cur for n in r} &
   {id(n) for r in p.data for n in r}, "previous array untouched and disjoint")
cur = p.data


def bad_gen(pat, new):
    yield 0, 0, Note(vel=5)
    raise KeyError("stop")


raises(KeyError, lambda: p.set_via_gen(bad_gen), "gen failure propagates")
ok(p.data is cur and p.data[0][0].vel == 1, "pattern unchanged when gen fails")
raises(IndexError, lambda: p.set_via_gen(lambda pat, new: iter([(9, 9, Note())])), "bad index")
ok(p.set_via_gen(lambda pat, new: iter(())).data == cur and p.data is not cur, "empty gen copies")
chunks = dict(p.iff_chunks())
ok(chunks[b"PDTA"] == p.raw_data and chunks[b"PCHN"] == pack("<I", 2)
   and chunks[b"PLIN"] == pack("<I", 3) and b"PNME" not in chunks, "pattern chunks")
ok(len(p.tabular_repr().splitlines()) == 4 and p.tabular_repr().splitlines()[0] ==
   "   | NN VV MMMM CC EE XXYY | NN VV MMMM CC EE XXYY", "tabular repr")
pc = PatternClone(source=0)
ok(dict(pc.iff_chunks())[b"PPAR"] == pack("<I", 0) and p.source_pattern is p, "pattern clone")

# --------------------------------------------------------------------------
# projects: two loads of the same file, build + connect
# --------------------------------------------------------------------------
for name in ("empty", "single-fm", "supertracks", "module-multiselect"):
    q1, q2 = load_project(name), load_project(name)
    b1 = project_bytes(q1)
    ok(b1 == project_bytes(q2), f"{name}: loads equal")
    ok(project_bytes(read_sunvox_file(io.BytesIO(b1))) == b1, f"{name}: roundtrip")
    for m in q1.modules:
        if m is None:
            continue
        m.x += 1
        for k in list(m.controller_values)[:2]:
            c = m.controllers[k].instance_value_type(m)
            if type(c).__name__ == "Range":
                m.controller_values[k] = c.min
    for pat in q1.patterns:
        if isinstance(pat, Pattern):
            pat.data[0][0].vel = 7
            pat.name = "zz"
    q1.new_module(Amplifier)
    ok(project_bytes(q2) == b1, f"{name}: second load isolated")

pr1, pr2 = Project(), Project()
g1 = pr1.new_module(AnalogGenerator)
x1 = pr1.new_module(Amplifier)
g2 = pr2.new_module(AnalogGenerator)
x2 = pr2.new_module(Amplifier)
before2 = project_bytes(pr2)
g1 >> x1 >> pr1.output
ok(g1.out_links == [x1.index] and x1.in_links == [g1.index] and x1.out_links == [0]
   and pr1.output.in_links == [x1.index], "links recorded")
ok(g2.out_links == [] and x2.in_links == [] and pr2.output.in_links == []
   and project_bytes(pr2) == before2, "other project not linked")
pat1 = Pattern(tracks=2, lines=4)
pr1.attach_pattern(pat1)
pat1.data[1][1].note = NOTECMD.D3
pat1.data[1][1].module = int(g1)
ok(project_bytes(pr2) == before2 and pr2.patterns == [], "patterns are per project")
rt = read_sunvox_file(io.BytesIO(project_bytes(pr1)))
ok(project_bytes(rt) == project_bytes(pr1) and rt.modules[1].out_links == [2]
   and rt.patterns[0].data[1][1].note == NOTECMD.D3, "built project roundtrip")
rt.modules[1].out_links.clear()
rt.patterns[0].data[1][1].vel = 50
ok(g1.out_links == [x1.index] and pat1.data[1][1].vel == 0, "reloaded project is independent")

print(f"PASS ({checks} checks)")
