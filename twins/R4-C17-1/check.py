"""Behaviour check for the ArrayChunk / WaveformChunk tidy-up (property C17).

Run from the repository root with PYTHONPATH=<root>/src/python.
Passes on the unchanged tree and with the patch applied.
"""
import sys
from io import BytesIO
from struct import pack

from rv.api import m
from rv.chunks import ArrayChunk, DrawnWaveformChunk, WaveformChunk
from rv.modules import MODULE_CLASSES
from rv.readers.reader import read_sunvox_file
from rv.synth import Synth

failures = []


def check(cond, msg):
    if not cond:
        failures.append(msg)


def synth_bytes(mod):
    f = BytesIO()
    Synth(mod).write_to(f)
    return f.getvalue()


# --------------------------------------------------------------- ArrayChunk
class NoDefault(ArrayChunk):
    length = 5
    type = "H"
    element_size = 2


class ScalarDefault(ArrayChunk):
    length = 4
    type = "B"
    element_size = 1
    default = 7


class ListDefault(ArrayChunk):
    length = 3
    type = "h"
    element_size = 2
    default = [1, -2, 3]


class FnDefault(ArrayChunk):
    length = 6
    type = "h"
    element_size = 2
    min_value = 2
    max_value = 4

    def default(self, x):
        return x


class FalsyBounds(ArrayChunk):
    # 0 bounds are "falsy" and therefore mean "no clamping at all"
    length = 4
    type = "h"
    element_size = 2
    min_value = 0
    max_value = 0


class Pair:
    def __init__(self, value):
        self.a, self.b = value


class PairArray(ArrayChunk):
    length = 3
    type = "HH"
    element_size = 4
    python_type = Pair

    def default(self, _):
        return Pair((0, 0))


class DictDefault(ArrayChunk):
    length = 3
    default = {"k": 1}


check(NoDefault().values == [0, 0, 0, 0, 0], "None default -> zeros")
check(ScalarDefault().values == [7, 7, 7, 7], "scalar default fill")
check(ListDefault().values == [1, -2, 3], "list default copy")
check(FnDefault().values == [2, 2, 2, 3, 4, 4], "callable default with clamping")
d = DictDefault()
check(d.values == [{"k": 1}] * 3, "non-list object default is repeated")
check(all(v is DictDefault.default for v in d.values), "object default repeated by ref")

# list defaults are copied, never aliased; instances never alias each other
a, b = ListDefault(), ListDefault()
check(a.values is not ListDefault.default, "values must not be the class list")
check(a.values is not b.values, "instances must not share values")
check(type(a.values) is list, "values is a plain list")
a.values[0] = 99
a.values.append(5)
check(b.values == [1, -2, 3], "mutating A leaked into B")
check(ListDefault.default == [1, -2, 3], "mutating A leaked into class default")
check(ListDefault().values == [1, -2, 3], "fresh instance after mutation")
a.reset()
check(a.values == [1, -2, 3] and a.values is not ListDefault.default, "reset()")
for cls in (NoDefault, ScalarDefault, FnDefault):
    x, y = cls(), cls()
    before = list(y.values)
    x.values[0] = 1234
    check(y.values == before, f"{cls.__name__}: leak between instances")
    x.reset()
    check(x.values == before, f"{cls.__name__}: reset restores default")

# set_via_fn: clamping, call order, failure leaves old values in place
calls = []
f = FnDefault()
f.set_via_fn(lambda x: calls.append(x) or (10 - 3 * x))
check(calls == [0, 1, 2, 3, 4, 5], "fn call order")
check(f.values == [4, 4, 4, 2, 2, 2], "fn values clamped")
fb = FalsyBounds()
fb.set_via_fn(lambda x: (x - 2) * 1000)
check(fb.values == [-2000, -1000, 0, 1000], "falsy bounds must not clamp")
old = f.values


def boom(x):
    if x == 3:
        raise KeyError("boom")
    return x


try:
    f.set_via_fn(boom)
except KeyError:
    pass
else:
    check(False, "fn exception must propagate")
check(f.values is old and f.values == [4, 4, 4, 2, 2, 2], "failed fn keeps values")
nd = NoDefault()
nd.set_via_fn(lambda x: x * x)
check(nd.values == [0, 1, 4, 9, 16], "no bounds, no clamp")

# bytes getter/setter
nd = NoDefault()
nd.bytes = pack("<HHH", 1, 2, 65535)
check(nd.values == [1, 2, 65535], "decode 3 elements")
nd.bytes = pack("<HH", 5, 6) + b"\x07"  # trailing partial element ignored
check(nd.values == [5, 6], "trailing byte ignored")
nd.bytes = b""
check(nd.values == [], "empty bytes -> empty values")
nd.bytes = b"\x01"
check(nd.values == [], "single byte -> empty values")
nd.bytes = pack("<7H", *range(7))  # longer than .length is accepted
check(nd.values == list(range(7)), "longer than length")
nd.bytes = bytearray(pack("<HH", 8, 9))
check(nd.values == [8, 9], "bytearray input")
nd.bytes = memoryview(pack("<HH", 10, 11))
check(nd.values == [10, 11], "memoryview input")
nd = NoDefault()
nd.values[2] = 513
check(nd.bytes == pack("<5H", 0, 0, 513, 0, 0), "encode")
check(nd.chdt() == nd.bytes, "chdt is bytes")
ld = ListDefault()
ld.bytes = pack("<hhh", -1, -32768, 32767)
check(ld.values == [-1, -32768, 32767], "signed decode")
check(ListDefault.default == [1, -2, 3], "decode must not touch class default")
other = ListDefault()
check(other.values == [1, -2, 3], "decode must not touch other instance")
# each assignment creates a new list
v1 = ld.values
ld.bytes = pack("<h", 4)
check(ld.values == [4] and ld.values is not v1 and v1 == [-1, -32768, 32767],
      "bytes setter must build a new list")

pa = PairArray()
check([(p.a, p.b) for p in pa.values] == [(0, 0)] * 3, "pair defaults")
check(len({id(p) for p in pa.values}) == 3, "pair defaults are distinct objects")
pa.bytes = pack("<HHHH", 1, 2, 3, 4) + b"\x00\x00"
check([(p.a, p.b) for p in pa.values] == [(1, 2), (3, 4)], "multi-field decode")
check(all(type(p) is Pair for p in pa.values), "python_type applied")

# failure half-way through decoding keeps what was decoded so far
SV = MODULE_CLASSES["SpectraVoice"]
ht = SV.harmonic_types_chunk()
good = SV.HarmonicType.hsin.value
try:
    ht.bytes = bytes([good, good, 250, good])
except ValueError:
    pass
else:
    check(False, "invalid enum byte must raise ValueError")
check(ht.values == [SV.HarmonicType.hsin] * 2, "partial decode state after failure")
nd = NoDefault()
NoDefault.element_size = 0
try:
    try:
        nd.bytes = b"\x00\x00"
    except ZeroDivisionError:
        pass
    else:
        check(False, "element_size 0 -> ZeroDivisionError")
    check(nd.values == [], "values cleared before size error")
finally:
    NoDefault.element_size = 2
nd = DictDefault()  # element_size None
try:
    nd.bytes = b"\x00\x00"
except TypeError:
    pass
else:
    check(False, "element_size None -> TypeError")
check(nd.values == [], "values cleared before type error")

# every ArrayChunk subclass shipped with the library
seen = 0
for mtype, cls in sorted(MODULE_CLASSES.items()):
    for name in dir(cls):
        sub = getattr(cls, name)
        if not (isinstance(sub, type) and issubclass(sub, ArrayChunk)):
            continue
        if sub.type is None:
            continue
        seen += 1
        x, y = sub(), sub()
        check(len(x.values) == sub.length, f"{mtype}.{name} length")
        check(x.values is not y.values, f"{mtype}.{name} shared values")
        class_default = sub.__dict__.get("default")
        if isinstance(class_default, list):
            check(x.values == class_default and x.values is not class_default,
                  f"{mtype}.{name} default copy")
            snapshot = list(class_default)
        else:
            snapshot = None
        raw = y.bytes
        x.values[0] = x.values[-1]
        x.values.reverse()
        x.values.pop()
        check(y.bytes == raw, f"{mtype}.{name} bytes of B changed")
        check(sub().bytes == raw, f"{mtype}.{name} fresh bytes changed")
        if snapshot is not None:
            check(sub.default == snapshot, f"{mtype}.{name} class default changed")
        y.bytes = raw
        check(y.bytes == raw, f"{mtype}.{name} bytes roundtrip")
check(seen >= 10, f"expected >=10 array chunk classes, saw {seen}")

# ------------------------------------------------------------ WaveformChunk
w = WaveformChunk()
check(w.samples == [] and w.format is None and w.freq is None, "plain waveform")
check(w.bytes == b"", "empty waveform bytes")
w.samples = [0, 1, -1, 127, -128, 255, 256, -129]
check(w.bytes == bytes([0, 1, 255, 127, 128, 255, 0, 127]), "8 bit masking")
check(WaveformChunk().samples == [], "fresh waveform still empty")
w2 = WaveformChunk()
check(w2.samples is not WaveformChunk().samples, "default [] not shared")
for fmt in WaveformChunk.Format:
    w.format = fmt
    if fmt is WaveformChunk.Format.mono_8bit:
        check(w.bytes == bytes([0, 1, 255, 127, 128, 255, 0, 127]), "mono 8 bytes")
    else:
        try:
            w.bytes
        except NotImplementedError:
            pass
        else:
            check(False, f"{fmt} must raise NotImplementedError")
w.format = 1  # plain int is not the enum member
try:
    w.bytes
except NotImplementedError:
    pass
else:
    check(False, "int format must raise NotImplementedError")


class OnlyFreq(WaveformChunk):
    fixed_freq = 8000
    default = [1, 2]


class OnlyFormat(WaveformChunk):
    fixed_format = WaveformChunk.Format.stereo_16bit
    freq = 123


class TupleDefault(WaveformChunk):
    default = (1, 2, 3)


o = OnlyFreq()
check(o.freq == 8000 and o.format is None and o.samples == [1, 2], "fixed freq only")
check("format" not in vars(o) and "freq" in vars(o), "only fixed attrs set on instance")
o2 = OnlyFormat()
check(o2.format is WaveformChunk.Format.stereo_16bit and o2.freq == 123, "fixed format")
check("freq" not in vars(o2), "freq stays a class attribute")
check(o2.chff() == pack("<I", 0x0A) and o.chfr() == pack("<I", 8000), "chff/chfr")
check(TupleDefault().samples == (1, 2, 3), "non-list default is sliced, not listed")
check(o.samples is not OnlyFreq.default, "default samples copied")
o.samples.append(3)
o.samples[0] = -5
check(OnlyFreq.default == [1, 2] and OnlyFreq().samples == [1, 2], "default intact")

dw_default = list(DrawnWaveformChunk.default)
a, b = DrawnWaveformChunk(), DrawnWaveformChunk()
check(a.samples == dw_default and a.samples is not DrawnWaveformChunk.default, "dw copy")
check(a.samples is not b.samples, "dw not shared")
check(a.format is WaveformChunk.Format.mono_8bit and a.freq == 44100, "dw fixed attrs")
check(a.is_default and list(a.chunks()) == [], "default waveform is not written")
braw = b.bytes
a.samples[3] = 77
a.samples.extend([1, 2, 3])
check(not a.is_default and b.is_default, "is_default after mutation")
check(b.bytes == braw and b.samples == dw_default, "B unchanged")
check(DrawnWaveformChunk.default == dw_default, "class default unchanged")
check(DrawnWaveformChunk().samples == dw_default, "fresh drawn waveform unchanged")
check(len(braw) == 32 and braw[1] == (-100) & 0xFF, "drawn waveform bytes")

# ------------------------------------------------ through modules and clones
for factory in (m.Generator, m.AnalogGenerator):
    A, B = factory(), factory()
    before = synth_bytes(B)
    A.drawn_waveform.samples[0] = 42
    A.drawn_waveform.samples[31] = -42
    check(synth_bytes(B) == before, f"{factory.__name__}: B bytes changed")
    check(synth_bytes(factory()) == before, f"{factory.__name__}: fresh bytes changed")
    C = A.clone()
    check(C.drawn_waveform.samples[0] == 42, "clone carries samples")
    abytes = synth_bytes(A)
    C.drawn_waveform.samples[5] = 11
    check(synth_bytes(A) == abytes, "mutating clone changed original")
    cbytes = synth_bytes(C)
    A.drawn_waveform.samples[6] = 12
    check(synth_bytes(C) == cbytes, "mutating original changed clone")

A, B = m.MultiSynth(), m.MultiSynth()
before = synth_bytes(B)
A.nv_curve.values[10] = 1
A.vv_curve.values[256] = 2
A.np_curve.values[0] = 3
check(synth_bytes(B) == before, "MultiSynth: B bytes changed")
check(synth_bytes(m.MultiSynth()) == before, "MultiSynth: fresh bytes changed")
C = A.clone()
check((C.nv_curve.values[10], C.vv_curve.values[256], C.np_curve.values[0]) == (1, 2, 3),
      "MultiSynth clone values")
abytes = synth_bytes(A)
C.nv_curve.values[11] = 9
C.np_curve.values[1] = 9
check(synth_bytes(A) == abytes, "MultiSynth clone -> original leak")
check(synth_bytes(read_sunvox_file(BytesIO(abytes)).module) == abytes, "reload stable")

A, B = m.WaveShaper(), m.WaveShaper()
before = synth_bytes(B)
A.curve.values[:] = [0] * 256
check(synth_bytes(B) == before, "WaveShaper: B bytes changed")
check(m.WaveShaper().curve.values[1] == 256, "WaveShaper fresh default")

A, B = m.MultiCtl(), m.MultiCtl()
before = synth_bytes(B)
A.mappings.values[0].max = 5
A.curve.values[5] = 5
check(synth_bytes(B) == before, "MultiCtl: B bytes changed")
check(synth_bytes(m.MultiCtl()) == before, "MultiCtl: fresh bytes changed")

A, B = m.MetaModule(), m.MetaModule()
before = synth_bytes(B)
A.mappings.values[0].module = 3
A.mappings.values[95].controller = 4
check(synth_bytes(B) == before, "MetaModule: B bytes changed")
A.mappings.reset()
check(synth_bytes(A) == before, "MetaModule mappings.reset() restores default bytes")
A.mappings.bytes = pack("<HH", 1, 2)
check(len(A.mappings.values) == 96 and A.mappings.values[0].controller == 2,
      "MetaModule mapping padding")

A, B = m.SpectraVoice(), m.SpectraVoice()
before = synth_bytes(B)
A.harmonics[3].freq_hz = 1000
A.harmonics[3].type = "random"
check(synth_bytes(B) == before, "SpectraVoice: B bytes changed")

if failures:
    print("FAIL")
    for msg in failures:
        print(" -", msg)
    sys.exit(1)
print("PASS")
