"""Behaviour check for Pattern bulk setters / clear / raw_data and Note raw_data / mod.

Emphasis (patch 1, performance tidy-up): byte-level packing and unpacking of
notes and whole patterns, Pattern.clear, the "re-own every note" pass that
follows a successful bulk edit, and Note.mod lookups.

Run as:  cd <root> && PYTHONPATH=<root>/src/python python check.py
"""
import struct
import sys
from itertools import product

from rv.api import NOTE, NOTECMD, Note, Pattern, Project, m
from rv.errors import ModuleOwnershipError, PatternOwnershipError

FAILURES = []


def check(cond, msg):
    if not cond:
        FAILURES.append(msg)


class Boom(Exception):
    pass


def grid_ids(pattern):
    return [[id(n) for n in row] for row in pattern.data]


def mk_note(line, track, salt=0):
    return Note(
        note=NOTE((line * 7 + track * 3 + salt) % 100 + 1),
        vel=(line + track + salt) % 130,
        module=(line * 5 + track + salt) % 40,
        ctl=(line * 0x101 + track * 0x11 + salt) & 0xFFFF,
        val=(line * 0x1234 + track + salt) & 0xFFFF,
    )


def expected_raw(lines, tracks, salt, changed=None, base=None):
    out = []
    for line in range(lines):
        for track in range(tracks):
            if changed is None or (line, track) in changed:
                out.append(mk_note(line, track, salt).raw_data)
            else:
                out.append(base[(line * tracks + track) * 8 :][:8])
    return b"".join(out)


def assert_owned(pattern, label):
    for row in pattern.data:
        for note in row:
            check(note.pattern is pattern, f"{label}: note not owned by pattern")
    check(len(pattern.data) == pattern.lines, f"{label}: line count")
    for row in pattern.data:
        check(len(row) == pattern.tracks, f"{label}: track count")


def make_pattern(lines, tracks, attached):
    pattern = Pattern(lines=lines, tracks=tracks)
    project = None
    if attached:
        project = Project()
        project.attach_module(m.Generator())
        project.attach_module(m.Reverb())
        project.attach_pattern(pattern)
    return pattern, project


SHAPES = [(1, 1), (1, 3), (3, 1), (2, 2), (3, 4), (5, 2)]


# --------------------------------------------------------------- Note bytes
def check_note_bytes():
    n = Note()
    check(n.raw_data == b"\0" * 8, "empty note bytes")
    check(n.is_empty(), "empty note is_empty")
    n = Note(note=NOTE.C5, vel=129, module=0xFFFF, ctl=0xABCD, val=0x1234)
    raw = n.raw_data
    check(raw == struct.pack("<BBHHH", int(NOTE.C5), 129, 0xFFFF, 0xABCD, 0x1234), "pack")
    check(isinstance(raw, bytes) and len(raw) == 8, "raw type/len")
    o = Note()
    o.raw_data = raw
    check((o.note, o.vel, o.module, o.ctl, o.val) == (NOTECMD.C5, 129, 0xFFFF, 0xABCD, 0x1234), "unpack")
    check(o.raw_data == raw, "roundtrip")
    o.raw_data = bytearray(raw)
    check(o.raw_data == raw, "bytearray accepted")
    o.raw_data = memoryview(raw)
    check(o.raw_data == raw, "memoryview accepted")
    for bad in (b"", b"\0" * 7, b"\0" * 9):
        p = Note(note=NOTE.D2, vel=3)
        try:
            p.raw_data = bad
        except struct.error:
            pass
        else:
            check(False, f"short/long raw {bad!r} should raise struct.error")
        check((p.note, p.vel) == (NOTECMD.D2, 3), "failed unpack leaves note alone")
    # setattr does not validate, so packing can fail
    q = Note()
    q.vel = 300
    try:
        q.raw_data
    except struct.error:
        pass
    else:
        check(False, "vel=300 should not pack")
    q = Note()
    q.val = -1
    try:
        q.raw_data
    except struct.error:
        pass
    else:
        check(False, "val=-1 should not pack")
    # raw setter does not run converters: values are plain ints
    r = Note()
    r.raw_data = bytes([200, 1, 2, 0, 3, 0, 4, 0])
    check(r.note == 200 and type(r.note) is int, "raw setter stores plain int")
    check(r.raw_data == bytes([200, 1, 2, 0, 3, 0, 4, 0]), "unknown note byte roundtrip")
    # bit accessors
    r.controller = 0x1FF
    r.effect = 0x23
    r.val_xx = 0x45
    r.val_yy = 0x167
    check((r.ctl, r.val) == (0xFF23, 0x4567), "bitfield setters")
    check((r.controller, r.effect, r.val_xx, r.val_yy) == (0xFF, 0x23, 0x45, 0x67), "bitfield getters")
    c = r.clone()
    check(c is not r and c.raw_data == r.raw_data, "clone")
    check(c.pattern is None, "clone has no pattern")


# ------------------------------------------------------------ Pattern bytes
def check_pattern_bytes():
    for lines, tracks in SHAPES:
        p = Pattern(lines=lines, tracks=tracks)
        check(not hasattr(p, "_data"), "lazy data")
        check(p.raw_data == b"\0" * (8 * lines * tracks), "blank raw")
        assert_owned(p, "lazy clear")
        first = p.data
        check(p.data is first, "data is stable")
        raw = expected_raw(lines, tracks, 5)
        ids = grid_ids(p)
        p.raw_data = raw
        check(p.raw_data == raw, "pattern raw roundtrip")
        check(grid_ids(p) == ids, "raw setter mutates notes in place")
        assert_owned(p, "after raw set")
        # longer buffer: tail ignored
        p.raw_data = raw + b"\xff" * 11
        check(p.raw_data == raw, "extra tail ignored")
        # short buffer: fails at the first incomplete note, earlier notes updated
        p2 = Pattern(lines=lines, tracks=tracks)
        short = raw[: len(raw) - 3]
        try:
            p2.raw_data = short
        except struct.error:
            pass
        else:
            check(False, "short pattern raw should raise")
        check(
            p2.raw_data == raw[: len(raw) - 8] + b"\0" * 8,
            "short raw: all complete notes applied, last untouched",
        )
        # chunk view
        chunks = dict(p.iff_chunks())
        check(chunks[b"PDTA"] == raw, "PDTA chunk")
        check(chunks[b"PCHN"] == struct.pack("<I", tracks), "PCHN chunk")
        check(chunks[b"PLIN"] == struct.pack("<I", lines), "PLIN chunk")
        # clear
        old = p.data
        p.clear()
        check(p.data is not old, "clear makes new grid")
        check(p.raw_data == b"\0" * (8 * lines * tracks), "clear blanks")
        assert_owned(p, "after clear")
        check(len({id(n) for row in p.data for n in row}) == lines * tracks, "distinct notes")
        check(len({id(row) for row in p.data}) == lines, "distinct rows")
    # clear follows current shape
    p = Pattern(lines=2, tracks=2)
    p.data
    p.lines, p.tracks = 3, 5
    check(len(p.data) == 2, "shape change alone does not rebuild")
    p.clear()
    check([len(r) for r in p.data] == [5, 5, 5], "clear uses current shape")
    p.tracks = 0
    p.clear()
    check(p.data == [[], [], []], "zero tracks")
    check(p.raw_data == b"", "zero tracks raw")
    p.raw_data = b"abc"
    check(p.raw_data == b"", "zero tracks raw set is a no-op")
    p.lines = 0
    p.clear()
    check(p.data == [] and p.raw_data == b"", "zero lines")


# -------------------------------------------------------------- bulk setters
def check_bulk():
    for (lines, tracks), attached in product(SHAPES, (False, True)):
        label = f"{lines}x{tracks} attached={attached}"
        p, proj = make_pattern(lines, tracks, attached)
        p.raw_data = expected_raw(lines, tracks, 1)
        cells = list(product(range(lines), range(tracks)))

        # --- set_via_fn: failure at every cell
        for fail_at in cells:
            before_grid, before_ids, before_raw = p.data, grid_ids(p), p.raw_data
            seen = []

            def fn(pat, line, track):
                check(pat is p, "fn gets the pattern")
                seen.append((line, track))
                if (line, track) == fail_at:
                    raise Boom()
                return mk_note(line, track, 2)

            try:
                p.set_via_fn(fn)
            except Boom:
                pass
            else:
                check(False, f"{label}: fn failure swallowed")
            check(seen == cells[: cells.index(fail_at) + 1], f"{label}: fn call order")
            check(p.data is before_grid, f"{label}: fn fail keeps grid object")
            check(grid_ids(p) == before_ids, f"{label}: fn fail keeps notes")
            check(p.raw_data == before_raw, f"{label}: fn fail keeps bytes")
            assert_owned(p, label + " fn-fail")

        # --- set_via_fn: success
        before_grid, before_ids = p.data, grid_ids(p)
        made = {}

        def fn_ok(pat, line, track):
            made[line, track] = mk_note(line, track, 3)
            return made[line, track]

        check(p.set_via_fn(fn_ok) is p, "set_via_fn returns self")
        check(p.data is not before_grid, "fn success installs new grid")
        check(p.raw_data == expected_raw(lines, tracks, 3), f"{label}: fn success bytes")
        for (line, track), note in made.items():
            check(p.data[line][track] is note, "exact note objects installed")
        assert_owned(p, label + " fn-ok")
        if attached:
            for row in p.data:
                for note in row:
                    check(note.project is proj, "note.project after fn")
                    want = None
                    if note.module and note.module - 1 < len(proj.modules):
                        want = proj.modules[note.module - 1]
                    check(note.mod is want, "note.mod after fn")
        else:
            check(p.data[0][0].project is None, "unattached project None")
            try:
                p.data[0][0].mod
            except PatternOwnershipError as e:
                check(str(e) == "Pattern not owned by a project", "ownership message")
            else:
                check(False, "mod without project should raise")

        # --- set_via_gen: failure at every yield index (and before first yield)
        raw3 = p.raw_data
        for fail_idx in range(len(cells) + 1):
            before_grid, before_ids = p.data, grid_ids(p)

            def gen(pat, new):
                check(pat is p, "gen gets the pattern")
                check(new is not p.data, "gen gets a draft")
                check(bytes().join(n.raw_data for r in new for n in r) == raw3, "draft mirrors data")
                for i, (line, track) in enumerate(cells):
                    if i == fail_idx:
                        raise Boom()
                    yield line, track, mk_note(line, track, 4)
                if fail_idx == len(cells):
                    raise Boom()

            try:
                p.set_via_gen(gen)
            except Boom:
                pass
            else:
                check(False, f"{label}: gen failure swallowed")
            check(p.data is before_grid, f"{label}: gen fail keeps grid object")
            check(grid_ids(p) == before_ids, f"{label}: gen fail keeps notes")
            check(p.raw_data == raw3, f"{label}: gen fail keeps bytes")
            assert_owned(p, label + " gen-fail")

        # --- set_via_gen: partial successes (every subset size, reverse order)
        for count in range(len(cells) + 1):
            chosen = list(reversed(cells))[:count]
            base = p.raw_data
            before_ids = grid_ids(p)

            def gen_ok(pat, new):
                for line, track in chosen:
                    yield line, track, mk_note(line, track, 6 + count)

            check(p.set_via_gen(gen_ok) is p, "set_via_gen returns self")
            check(
                p.raw_data == expected_raw(lines, tracks, 6 + count, set(chosen), base),
                f"{label}: gen partial bytes ({count})",
            )
            after_ids = grid_ids(p)
            for line, track in cells:
                check(
                    after_ids[line][track] != before_ids[line][track],
                    "untouched cells are copies, touched are new",
                )
            assert_owned(p, label + f" gen-ok {count}")
            if attached:
                check(p.project is proj and proj.patterns == [p], "project link intact")
                check(all(n.project is proj for r in p.data for n in r), "note.project after gen")

        # --- a history of alternating edits
        for salt in range(3):
            p.set_via_fn(lambda pat, l, t: mk_note(l, t, 20 + salt))
            assert_owned(p, label + " history fn")
            p.set_via_gen(lambda pat, new: iter([(0, 0, mk_note(0, 0, 30 + salt))]))
            assert_owned(p, label + " history gen")
            check(
                p.raw_data
                == expected_raw(lines, tracks, 30 + salt, {(0, 0)}, expected_raw(lines, tracks, 20 + salt)),
                label + " history bytes",
            )


def check_bulk_edges():
    # setters on a pattern whose data was never touched
    p = Pattern(lines=2, tracks=2)
    p.set_via_gen(lambda pat, new: iter(()))
    check(p.raw_data == b"\0" * 32, "gen on lazy pattern")
    assert_owned(p, "gen lazy")
    p = Pattern(lines=2, tracks=2)
    try:
        p.set_via_fn(lambda *a: (_ for _ in ()).throw(Boom()))
    except Boom:
        pass
    check(hasattr(p, "_data") and p.raw_data == b"\0" * 32, "fn fail on lazy pattern")
    assert_owned(p, "fn lazy fail")

    # a note that already belongs to another pattern gets re-owned
    a, b = Pattern(lines=1, tracks=1), Pattern(lines=1, tracks=1)
    foreign = a.data[0][0]
    b.set_via_fn(lambda pat, l, t: foreign)
    check(b.data[0][0] is foreign and foreign.pattern is b, "foreign note re-owned")

    # same note object in several cells
    shared = Note(note=NOTE.E3)
    c = Pattern(lines=2, tracks=2)
    c.set_via_fn(lambda pat, l, t: shared)
    check(all(n is shared for r in c.data for n in r) and shared.pattern is c, "shared note")

    # gen yields out of range / malformed items -> failure, nothing installed
    for bad_items, exc in (
        ([(5, 0, Note())], IndexError),
        ([(0, 9, Note())], IndexError),
        ([(0, 0)], ValueError),
        ([(0, 0, Note(), 1)], ValueError),
        ([7], TypeError),
        ([("a", 0, Note())], TypeError),
    ):
        d = Pattern(lines=2, tracks=2)
        d.raw_data = expected_raw(2, 2, 9)
        grid, ids = d.data, grid_ids(d)
        try:
            d.set_via_gen(lambda pat, new, items=bad_items: iter([(1, 1, Note(vel=5))] + items))
        except exc:
            pass
        else:
            check(False, f"bad item {bad_items!r} should raise {exc.__name__}")
        check(d.data is grid and grid_ids(d) == ids, "bad item leaves pattern alone")
        check(d.raw_data == expected_raw(2, 2, 9), "bad item leaves bytes alone")

    # negative indices are plain list indices
    e = Pattern(lines=2, tracks=3)
    e.set_via_gen(lambda pat, new: iter([(-1, -1, Note(vel=9))]))
    check(e.data[1][2].vel == 9 and e.data[1][2].pattern is e, "negative index")

    # gen may edit the draft directly (discouraged but allowed)
    f = Pattern(lines=2, tracks=2)

    def direct(pat, new):
        new[0][1] = Note(vel=77)
        new[1][0].vel = 55
        return iter(())

    old_note = f.data[1][0]
    f.set_via_gen(direct)
    check(f.data[0][1].vel == 77 and f.data[1][0].vel == 55, "direct draft edits land")
    check(old_note.vel == 0, "draft edits do not touch the old notes")
    assert_owned(f, "direct")

    # gen can read the intermediate state
    g = Pattern(lines=1, tracks=3)

    def chain_gen(pat, new):
        yield 0, 0, Note(vel=1)
        yield 0, 1, Note(vel=new[0][0].vel + 1)
        yield 0, 2, Note(vel=new[0][1].vel + 1)
        check(pat.data[0][0].vel == 0, "pattern itself unchanged while generating")

    g.set_via_gen(chain_gen)
    check([n.vel for n in g.data[0]] == [1, 2, 3], "intermediate state visible")

    # fn returning a non-note: fails while re-owning, pattern data not replaced
    h = Pattern(lines=1, tracks=2)
    grid = h.data
    fresh = Note(vel=4)
    try:
        h.set_via_fn(lambda pat, l, t: fresh if t == 0 else None)
    except AttributeError:
        pass
    else:
        check(False, "None note should raise AttributeError")
    check(h.data is grid and h.raw_data == b"\0" * 16, "None note: data kept")
    check(fresh.pattern is h, "notes before the bad one were already re-owned")

    # fn sees the pattern shape at call time: rows are re-measured per line
    i = Pattern(lines=3, tracks=3)
    calls = []

    def shrinking(pat, line, track):
        calls.append((line, track))
        if (line, track) == (0, 1):
            pat.tracks = 2
        return Note(vel=10 + line * 3 + track)

    i.set_via_fn(shrinking)
    check(
        calls == [(0, 0), (0, 1), (0, 2), (1, 0), (1, 1), (2, 0), (2, 1)],
        f"per-line track re-measure: {calls}",
    )
    check([[n.vel for n in r] for r in i.data] == [[10, 11, 12], [13, 14, 0], [16, 17, 0]], "shrunk result")
    check(all(n.pattern is i for r in i.data for n in r), "shrunk ownership")

    # lines grown past the grid: fn is consulted, then IndexError, data kept
    j = Pattern(lines=1, tracks=1)
    j.data
    j.lines = 2
    calls = []
    try:
        j.set_via_fn(lambda pat, l, t: calls.append((l, t)) or Note(vel=1))
    except IndexError:
        pass
    else:
        check(False, "grown lines should raise IndexError")
    check(calls == [(0, 0), (1, 0)], f"grown lines call order {calls}")
    check(j.data[0][0].vel == 0, "grown lines: data kept")


# ------------------------------------------------------------------ Note.mod
def check_note_mod():
    proj = Project()
    gen_mod = proj.attach_module(m.Generator())
    pat = Pattern(lines=1, tracks=4)
    proj.attach_pattern(pat)
    n0, n1, n2, n3 = pat.data[0]
    check(n0.module_index is None and n0.mod is None, "module 0 -> None")
    n1.module = 1
    check(n1.module_index == 0 and n1.mod is proj.modules[0], "module 1 -> Output")
    n2.mod = gen_mod
    check(n2.module == gen_mod.index + 1 and n2.mod is gen_mod, "mod setter")
    n3.module = 40
    check(n3.module_index == 39 and n3.mod is None, "dangling module -> None")
    try:
        n3.mod = m.Reverb()
    except ModuleOwnershipError as e:
        check(str(e) == "Module must be attached to a project", "module ownership message")
    else:
        check(False, "unattached module should raise")
    check(n3.module == 40, "failed mod set leaves module")
    lone = Note(module=1)
    for getter in (lambda: lone.project, lambda: lone.mod):
        try:
            getter()
        except AttributeError:
            pass
        else:
            check(False, "note without pattern: AttributeError")
    free = Pattern(lines=1, tracks=1)
    for module in (0, 1, 40):
        free.data[0][0].module = module
        try:
            free.data[0][0].mod
        except PatternOwnershipError:
            pass
        else:
            check(False, "unattached pattern: PatternOwnershipError")
    # ownership error takes precedence over module==0
    check(free.data[0][0].project is None, "free project None")
    # setting mod works without any pattern
    lone.mod = gen_mod
    check(lone.module == gen_mod.index + 1, "mod setter on lone note")


def check_tabular():
    p = Pattern(lines=3, tracks=2)
    p.data[0][0].note = NOTECMD.C4
    p.data[0][0].vel = 129
    p.data[1][1].note = NOTECMD.NOTE_OFF
    p.data[2][0].ctl = 0x0102
    p.data[2][0].val = 0x0304
    p.data[2][1].module = 2
    text = p.tabular_repr()
    check(
        text.splitlines()
        == [
            "   | NN VV MMMM CC EE XXYY | NN VV MMMM CC EE XXYY",
            "00 | C4 80                 | ..                   ",
            "01 | //                    | ==                   ",
            "02 | //         01 02 0304 | ..    0001           ",
        ],
        "tabular repr:\n" + text,
    )
    check(p.tabular_repr("NN").splitlines()[1] == "00 | C4 | ..", "custom format")


def main():
    check_note_bytes()
    check_pattern_bytes()
    check_bulk()
    check_bulk_edges()
    check_note_mod()
    check_tabular()
    if FAILURES:
        for f in FAILURES[:40]:
            print("FAIL:", f)
        print(f"{len(FAILURES)} failure(s)")
        sys.exit(1)
    print("PASS")


if __name__ == "__main__":
    main()
