"""Behaviour check for rv.modules.multictl.convert_value (property C20).

Compares the library function against an embedded copy of the reference
arithmetic over complete value axes for many parameter tuples, checks range
containment and monotonicity for the way MultiCtl.on_value_changed calls it,
and pins a digest of a large output table.
"""
import hashlib
import random
import sys

from rv.modules.base.multictl import BaseMultiCtl
from rv.modules.multictl import convert_value

DEFAULT_CURVE = list(BaseMultiCtl.curve_chunk.default)
assert len(DEFAULT_CURVE) == 257


def reference(gain, qsteps, smin, smax, dmin, dmax, vmax, value, curve=None):
    value = (value * gain) / 256
    value = min(value, 32768)
    if curve is not None:
        bucket = int(value / 128)
        start = 128 * bucket
        offset = value - start
        b = curve[bucket]
        a = curve[bucket + 1] if bucket < 256 else b
        c = min(offset / 128, 1.0)
        value = int((c * a) + ((1.0 - c) * b))
    srange = smax - smin
    if qsteps < 32768:
        quant = max(qsteps - 1, 1)
        step = 32768 / quant
        value = int(value / step)
        value = (value * step) / 32768
        value = smin + int(srange * value)
    else:
        value = smin + (srange * value) // 32768
    drange = dmax - dmin
    if vmax is not None:
        value /= 32768 / vmax
    if drange > 0:
        value += dmin
    else:
        value = dmin - value
    return int(value)


def curves(rng):
    yield None
    yield DEFAULT_CURVE
    yield [32768 - x for x in DEFAULT_CURVE]  # falling
    yield [min(32768, (i * i) // 2) for i in range(257)]  # convex
    yield sorted(rng.randint(0, 32768) for _ in range(257))  # random monotone
    yield [rng.randint(0, 32768) for _ in range(257)]  # arbitrary
    yield [0] * 257
    yield [32768] * 257


def caller_args(span, compact, wmin, wmax):
    """Arguments exactly as MultiCtl.on_value_changed derives them."""
    vmax = None if compact else span
    smin, smax = wmin, wmax
    dmin, dmax = 0, span
    if smin > smax:
        smin, smax = smax, smin
        dmin, dmax = dmax, dmin
    return smin, smax, dmin, dmax, vmax


def main():
    rng = random.Random(20)
    failures = []
    digest = hashlib.sha256()

    # 1. complete value axis for a set of parameter tuples, all curves
    gains = [0, 1, 100, 255, 256, 257, 512, 1000, 1024]
    qsteps_all = [0, 1, 2, 3, 7, 128, 1000, 32767, 32768]
    spans = [(1, False), (7, False), (256, False), (1024, False), (32768, False),
             (14000, False), (256, True), (16, True), (1, True)]
    windows = [(0, 32768), (32768, 0), (0, 0), (32768, 32768), (100, 20000),
               (20000, 100), (16384, 16384), (1, 2), (5, 4)]
    tuples = []
    for _ in range(40):
        tuples.append((rng.choice(gains), rng.choice(qsteps_all), rng.choice(spans),
                       rng.choice(windows)))
    tuples += [(256, 32768, (1024, False), (0, 32768)),
               (256, 32768, (256, True), (0, 256)),
               (1024, 2, (256, False), (32768, 0)),
               (0, 32768, (256, False), (0, 32768))]
    curve_list = list(curves(rng))
    for n, (gain, qsteps, (span, compact), (wmin, wmax)) in enumerate(tuples):
        smin, smax, dmin, dmax, vmax = caller_args(span, compact, wmin, wmax)
        curve = curve_list[n % len(curve_list)]
        outs = []
        for value in range(32769):
            got = convert_value(gain, qsteps, smin, smax, dmin, dmax, vmax, value, curve)
            outs.append(got)
            if got != reference(gain, qsteps, smin, smax, dmin, dmax, vmax, value, curve):
                failures.append(("axis", gain, qsteps, span, compact, wmin, wmax, value))
                break
            if type(got) is not int:
                failures.append(("type", type(got)))
                break
        digest.update(repr((n, hashlib.md5(repr(outs).encode()).hexdigest())).encode())
        # property: within range + monotone (normal window, non-compact, monotone curve)
        monotone_curve = curve is None or all(
            a <= b for a, b in zip(curve, curve[1:])
        )
        if not compact and monotone_curve:
            lo, hi = min(outs), max(outs)
            if lo < 0 or hi > span:
                failures.append(("range", gain, qsteps, span, wmin, wmax, lo, hi))
            pairs = list(zip(outs, outs[1:]))
            if wmin <= wmax and not all(a <= b for a, b in pairs):
                failures.append(("nondecreasing", gain, qsteps, span, wmin, wmax))
            if wmin > wmax and not all(a >= b for a, b in pairs):
                failures.append(("nonincreasing", gain, qsteps, span, wmin, wmax))

    # 2. random points over all nine arguments, including direct (non-caller) use
    for _ in range(60000):
        gain = rng.randint(0, 1024)
        qsteps = rng.choice([rng.randint(0, 32768), 32768, 32767, 0, 1, 2])
        smin = rng.randint(0, 32768)
        smax = rng.randint(0, 32768)
        dmin = rng.randint(-32768, 32768)
        dmax = rng.randint(-32768, 32768)
        vmax = rng.choice([None, rng.randint(1, 65536), 1, 32768])
        value = rng.choice([rng.randint(0, 32768), 0, 32768, 32767, 128, 127])
        curve = rng.choice(curve_list)
        args = (gain, qsteps, smin, smax, dmin, dmax, vmax, value)
        got = convert_value(*args, curve)
        want = reference(*args, curve)
        digest.update(repr(got).encode())
        if got != want or type(got) is not type(want):
            failures.append(("random", args))
    # positional / keyword / default curve argument forms
    assert convert_value(256, 32768, 0, 32768, 0, 256, 256, 16384) == 128
    assert convert_value(256, 32768, 0, 32768, 0, 256, 256, 16384, None) == 128
    assert convert_value(gain=256, qsteps=32768, smin=0, smax=32768, dmin=0,
                         dmax=256, vmax=256, value=16384, curve=DEFAULT_CURVE) == 128
    assert convert_value(256, 32768, 0, 32768, 256, 0, 256, 16384) == 128
    assert convert_value(256, 32768, 0, 256, 0, 256, None, 32768) == 256

    # 3. error behaviour for degenerate arguments is unchanged
    for args, curve in [
        ((256, 32768, 0, 32768, 0, 256, 0, 100), None),  # vmax == 0
        ((256, 32768, 0, 32768, 0, 256, 256, 100), [0, 1]),  # short curve
        ((256, 32768, 0, 32768, 0, None, 256, 100), None),
        ((256, 32768, 0, 32768, 0, None, 0, 100), None),
        ((256, float("nan"), 0, 32768, 0, 256, 256, 100), None),
        ((256, 32768, 0, 32768, 0, 256, 256, -5000), DEFAULT_CURVE),
        ((256, 100, 0, 32768, 0, 256, 256, -5000), None),
    ]:
        def run(fn):
            try:
                return ("ok", fn(*args, curve))
            except Exception as exc:  # noqa: BLE001
                return ("err", type(exc))
        if run(convert_value) != run(reference):
            failures.append(("degenerate", args, run(convert_value), run(reference)))

    pinned = "65b679732d176bc6fb054fe34dde042143a827f82040735b1644c4086f054801"
    if digest.hexdigest() != pinned:
        failures.append(("digest", digest.hexdigest()))

    if failures:
        print("FAIL", failures[:10])
        sys.exit(1)
    print("PASS")


if __name__ == "__main__":
    main()
