"""Behaviour check for MultiCtl.on_value_changed fan-out (property C20).

Builds projects with a MultiCtl wired to targets of every controller kind
(plain range, negative-min range, compact range, enum, bool, dependent range,
unset mapping), drives many input values through it under many gain /
quantization / window / curve settings, and compares every delivered value to
an independent model. Also records the exact argument tuples handed to
convert_value and pins a digest of everything observed.
"""
import hashlib
import random
import sys

import rv.modules.multictl as multictl_mod
from rv.api import Project, m
from rv.controller import CompactRange, Range
from rv.errors import ControllerValueError
from rv.modules.multictl import MultiCtl

DIGEST = hashlib.sha256()
FAILURES = []


def note(*items):
    DIGEST.update(repr(items).encode())


def ref_convert(gain, qsteps, smin, smax, dmin, dmax, vmax, value, curve=None):
    value = (value * gain) / 256
    value = min(value, 32768)
    if curve is not None:
        bucket = int(value / 128)
        start = 128 * bucket
        offset = value - start
        b = curve[bucket]
        a = curve[bucket + 1] if bucket < 256 else b
        c = min(offset / 128, 1.0)
        value = int((c * a) + ((1.0 - c) * b))
    srange = smax - smin
    if qsteps < 32768:
        quant = max(qsteps - 1, 1)
        step = 32768 / quant
        value = int(value / step)
        value = (value * step) / 32768
        value = smin + int(srange * value)
    else:
        value = smin + (srange * value) // 32768
    drange = dmax - dmin
    if vmax is not None:
        value /= 32768 / vmax
    if drange > 0:
        value += dmin
    else:
        value = dmin - value
    return int(value)


TARGETS = [
    # (module class name, controller name)
    ("Amplifier", "volume"),  # Range 0..1024
    ("Amplifier", "balance"),  # Range -128..128
    ("MultiSynth", "transpose"),  # CompactRange -128..128
    ("AnalogGenerator", "waveform"),  # enum: left untouched
    ("Amplifier", "inverse"),  # bool: left untouched
    ("Lfo", "freq"),  # DependentRange: left untouched
    ("Filter", "freq"),  # Range 0..14000
    ("Amplifier", "fine_volume"),  # Range 0..32768
    ("Amplifier", "bipolar_dc_offset"),  # Range -16384..16384
    ("MultiSynth", "finetune"),  # Range -256..256
    ("Amplifier", "stereo_width"),  # mapping left unset (controller 0)
]
UNSET = len(TARGETS) - 1


def window_for(i, windows):
    lo, hi = windows[i % len(windows)]
    if TARGETS[i][1] == "transpose":
        # compact ranges are only shifted, not scaled: keep the window inside
        lo, hi = lo % 257, hi % 257
    return lo, hi


def build(windows, gain, quantization, curve):
    project = Project()
    mods = [project.new_module(getattr(m, cls)) for cls, _ in TARGETS]
    mappings = []
    for i, ((cls, ctl_name), mod) in enumerate(zip(TARGETS, mods)):
        number = 0 if i == UNSET else mod.controllers[ctl_name].number
        lo, hi = window_for(i, windows)
        mappings.append((lo, hi, number, 0, 0, 0, 0, 0))
    kwargs = dict(gain=gain, quantization=quantization, mappings=mappings)
    if curve is not None:
        kwargs["curve"] = curve
    mc = project.new_module(MultiCtl, **kwargs)
    mc >> mods
    assert mc.out_links == [mod.index for mod in mods]
    return project, mc, mods


def snapshot(mods):
    return [getattr(mod, name) for (_, name), mod in zip(TARGETS, mods)]


def model(mc, mods, before):
    """Expected target values after a value change, from first principles."""
    expected = list(before)
    for i, ((_, name), mod) in enumerate(zip(TARGETS, mods)):
        mapping = mc.mappings.values[i]
        if mapping.controller == 0:
            continue
        vt = type(mod).__dict__.get(name) or getattr(type(mod), name)
        vt = vt.value_type
        if not isinstance(vt, Range):
            continue
        span = vt.max - vt.min
        lo, hi = mapping.min, mapping.max
        if lo <= hi:
            args = (lo, hi, 0, span)
        else:
            args = (hi, lo, span, 0)
        vmax = None if isinstance(vt, CompactRange) else span
        out = ref_convert(mc.gain, mc.quantization, *args, vmax, mc.value,
                          mc.curve.values)
        expected[i] = out + vt.min
    return expected


def drive(values, windows, gain, quantization, curve, label):
    project, mc, mods = build(windows, gain, quantization, curve)
    calls = []
    original = multictl_mod.convert_value

    def spy(*args, **kwargs):
        calls.append((args, tuple(sorted(kwargs))))
        return original(*args, **kwargs)

    multictl_mod.convert_value = spy
    try:
        per_target = [[] for _ in TARGETS]
        for value in values:
            before = snapshot(mods)
            try:
                mc.value = value
            except ControllerValueError as exc:
                FAILURES.append((label, value, "unexpected", str(exc)))
                return
            after = snapshot(mods)
            want = model(mc, mods, before)
            if after != want:
                FAILURES.append((label, value, after, want))
                return
            note(label, value, after)
            for i, v in enumerate(after):
                per_target[i].append(v)
        # unset / non-range targets stay at their defaults
        for i, (_, name) in enumerate(TARGETS):
            ctl = mods[i].controllers[name]
            if i == UNSET or not isinstance(ctl.value_type, Range):
                if any(v != ctl.default for v in per_target[i]):
                    FAILURES.append((label, "touched", name))
                continue
            if isinstance(ctl.value_type, CompactRange):
                continue
            vt = ctl.value_type
            if any(v < vt.min or v > vt.max for v in per_target[i]):
                FAILURES.append((label, "range", name))
            lo, hi = window_for(i, windows)
            monotone_curve = curve is None or all(
                a <= b for a, b in zip(curve, curve[1:])
            )
            if monotone_curve and values == sorted(values):
                seq = per_target[i]
                ok = all((a <= b) if lo <= hi else (a >= b)
                         for a, b in zip(seq, seq[1:]))
                if not ok:
                    FAILURES.append((label, "monotone", name, lo, hi))
    finally:
        multictl_mod.convert_value = original
    note(label, "calls", hashlib.md5(repr(calls).encode()).hexdigest())
    # every call used the positional form with the MultiCtl's own curve list
    for args, kwnames in calls:
        if len(args) + len(kwnames) != 9:
            FAILURES.append((label, "call-arity", args, kwnames))
            break


def main():
    rng = random.Random(2020)
    dense = sorted(set(range(0, 32769, 37)) | {0, 1, 127, 128, 129, 16383, 16384,
                                               32767, 32768})
    falling = [32768 - 128 * i for i in range(257)]
    bumpy = [rng.randint(0, 32768) for _ in range(257)]
    rising = sorted(rng.randint(0, 32768) for _ in range(257))

    full = [(0, 32768)]
    rev = [(32768, 0)]
    mixed = [(0, 32768), (32768, 0), (0, 256), (100, 20000), (20000, 100),
             (16384, 16384), (0, 0), (32768, 32768), (1, 2), (300, 7)]

    drive(dense, full, 256, 32768, None, "default")
    drive(dense, rev, 256, 32768, None, "reversed")
    drive(dense, mixed, 256, 32768, None, "mixed")
    drive(dense, mixed, 1024, 32768, None, "gain-max")
    drive(dense, mixed, 0, 32768, None, "gain-zero")
    drive(dense, mixed, 100, 5, None, "quant-5")
    drive(dense, mixed, 700, 0, None, "quant-0")
    drive(dense, mixed, 256, 32767, None, "quant-32767")
    drive(dense, mixed, 256, 32768, rising, "curve-rising")
    drive(dense, mixed, 333, 11, falling, "curve-falling")
    drive(dense, mixed, 256, 32768, bumpy, "curve-bumpy")
    shuffled = dense[:300]
    rng.shuffle(shuffled)
    drive(shuffled, mixed, 512, 1000, None, "shuffled")
    for n in range(12):
        windows = [(rng.randint(0, 32768), rng.randint(0, 32768)) for _ in range(7)]
        gain = rng.randint(0, 1024)
        quant = rng.choice([rng.randint(0, 32768), 32768])
        curve = rng.choice([None, rising, falling, bumpy])
        vals = sorted(rng.sample(range(32769), 250)) + [32768]
        drive(vals, windows, gain, quant, curve, f"random-{n}")

    # complete value axis once, default settings, only the plain targets
    project = Project()
    amp = project.new_module(m.Amplifier)
    flt = project.new_module(m.Filter)
    mc = project.new_module(
        MultiCtl,
        mappings=[(0, 32768, 1, 0, 0, 0, 0, 0), (32768, 0, 2, 0, 0, 0, 0, 0)],
    )
    mc >> [amp, flt]
    vols, freqs = [], []
    for value in range(32769):
        mc.value = value
        vols.append(amp.volume)
        freqs.append(flt.freq)
    assert vols[0] == 0 and vols[-1] == 1024, (vols[0], vols[-1])
    assert freqs[0] == 14000 and freqs[-1] == 0, (freqs[0], freqs[-1])
    assert all(a <= b for a, b in zip(vols, vols[1:]))
    assert all(a >= b for a, b in zip(freqs, freqs[1:]))
    note("axis", hashlib.md5(repr((vols, freqs)).encode()).hexdigest())

    # down=False and detached modules do not fan out
    amp.volume = 77
    MultiCtl.value.propagate(mc, 32768, down=False, up=True)
    assert amp.volume == 77 and mc.value == 32768
    MultiCtl.value.propagate(mc, 0, down=True, up=False)
    assert amp.volume == 0
    loose = MultiCtl(mappings=[(0, 32768, 1, 0, 0, 0, 0, 0)])
    loose.out_links.append(0)
    loose.value = 1234  # no parent: nothing happens, no error
    assert loose.value == 1234
    assert mc.on_value_changed(5, down=True, up=True) is None

    # a mapping whose controller number is past the end of the target's list
    mc.mappings.values[0].controller = 99
    try:
        mc.value = 5
    except IndexError:
        note("index-error")
    else:
        FAILURES.append("expected IndexError for controller 99")
    mc.mappings.values[0].controller = 1

    # more links than mappings: the first 16 are driven, the 17th raises
    project = Project()
    amps = [project.new_module(m.Amplifier) for _ in range(17)]
    mc = project.new_module(
        MultiCtl, mappings=[(0, 32768, 1, 0, 0, 0, 0, 0)] * 16
    )
    mc >> amps
    try:
        mc.value = 32768
    except IndexError:
        note("17 links", [a.volume for a in amps])
        assert [a.volume for a in amps] == [1024] * 16 + [256]
    else:
        FAILURES.append("expected IndexError for 17 links")

    # a compact-range target with a window wider than its range is pushed out
    # of range: the error surfaces, earlier links were driven, later ones not
    project = Project()
    a1 = project.new_module(m.Amplifier)
    ms = project.new_module(m.MultiSynth)
    a2 = project.new_module(m.Amplifier)
    mc = project.new_module(
        MultiCtl,
        mappings=[(0, 32768, 1, 0, 0, 0, 0, 0)] * 3,
    )
    mc >> [a1, ms, a2]
    mc.value = 200
    assert (a1.volume, ms.transpose, a2.volume) == (6, 72, 6), (
        a1.volume, ms.transpose, a2.volume)
    try:
        mc.value = 32768
    except ControllerValueError as exc:
        note("compact overflow", str(exc), a1.volume, ms.transpose, a2.volume)
        assert (a1.volume, ms.transpose, a2.volume) == (1024, 72, 6)
    else:
        FAILURES.append("expected ControllerValueError for compact overflow")

    # a MultiCtl driving another MultiCtl's value cascades
    project = Project()
    amp = project.new_module(m.Amplifier)
    inner = MultiCtl.macro(project, (amp, "volume"))
    outer = MultiCtl.macro(project, (inner, "value"))
    outer.value = 16384
    note("cascade", inner.value, amp.volume)
    assert inner.value == 16384 and amp.volume == 512, (inner.value, amp.volume)

    pinned = "5c7a761b69dd231c158064fa758d90e7e8609f537a1d064388390e800bddb997"
    if DIGEST.hexdigest() != pinned:
        FAILURES.append(("digest", DIGEST.hexdigest()))
    if FAILURES:
        print("FAIL", FAILURES[:8])
        sys.exit(1)
    print("PASS")


if __name__ == "__main__":
    main()
