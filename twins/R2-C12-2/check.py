"""Behaviour check for Pattern.raw_data (row-major cell image) and grid setters (C12)."""
import io
import random
import struct
import sys

import rv.api as rv
from rv.note import NOTECMD, Note
from rv.pattern import Pattern

failures = []


def expect(cond, msg):
    if not cond:
        failures.append(msg)


rng = random.Random(1212)
CMDS = list(NOTECMD)


def random_cell():
    return struct.pack(
        "<BBHHH",
        int(rng.choice(CMDS)),
        rng.randrange(130),
        rng.randrange(0x10000),
        rng.randrange(0x10000),
        rng.randrange(0x10000),
    )


def image(lines, tracks):
    return b"".join(random_cell() for _ in range(lines * tracks))


# --- default / cleared pattern ----------------------------------------------
p = Pattern()
expect(p.raw_data == b"\0" * (32 * 4 * 8), "default pattern image")
expect(len(p.data) == 32 and all(len(r) == 4 for r in p.data), "default grid shape")
expect(all(n.pattern is p for r in p.data for n in r), "default ownership")

# --- load/save of byte images for many shapes --------------------------------
shapes = [(l, t) for l in (1, 2, 3, 5, 8, 17, 32, 33) for t in (1, 2, 3, 4, 7, 16, 31, 32)]
shapes += [(257, 5), (1, 32), (64, 1)]
for lines, tracks in shapes:
    img = image(lines, tracks)
    for buf in (img, bytearray(img), memoryview(img)):
        p = Pattern(lines=lines, tracks=tracks)
        grid_before = p.data
        notes_before = [n for row in grid_before for n in row]
        p.raw_data = buf
        expect(p.data is grid_before, "setter must fill the existing grid")
        expect(
            all(a is b for a, b in zip(notes_before, (n for r in p.data for n in r))),
            "setter must fill the existing notes in place",
        )
        out = p.raw_data
        if out != img or type(out) is not bytes:
            failures.append(f"image roundtrip {lines}x{tracks} {type(buf).__name__}")
            break
        ok = True
        for l in range(lines):
            for t in range(tracks):
                off = (l * tracks + t) * 8
                n = p.data[l][t]
                if n.raw_data != img[off : off + 8] or n.pattern is not p:
                    ok = False
        expect(ok, f"row-major placement {lines}x{tracks}")
    # a second image overwrites every cell
    img2 = image(lines, tracks)
    p.raw_data = img2
    expect(p.raw_data == img2, f"overwrite {lines}x{tracks}")

# raw_data is the join of cells in row-major order, whatever the notes hold
p = Pattern(lines=3, tracks=2)
k = 0
for l in range(3):
    for t in range(2):
        k += 1
        p.data[l][t] = Note(note=NOTECMD.C4, vel=k, module=k * 256, ctl=k, val=0xFFFF - k)
want = b"".join(
    struct.pack("<BBHHH", int(NOTECMD.C4), i, i * 256, i, 0xFFFF - i) for i in range(1, 7)
)
expect(p.raw_data == want, "getter order")

# getter follows the grid, not lines/tracks (ragged / resized grids)
p = Pattern(lines=2, tracks=2)
p.data.append([Note(vel=9)])
expect(p.raw_data == b"\0" * 32 + struct.pack("<BBHHH", 0, 9, 0, 0, 0), "ragged grid getter")
p._data = []
expect(p.raw_data == b"", "empty grid getter")

# --- surplus and missing bytes ----------------------------------------------
img = image(4, 3)
p = Pattern(lines=4, tracks=3)
p.raw_data = img + b"\xff" * 13
expect(p.raw_data == img, "surplus bytes ignored")

for cut in (0, 1, 7, 8, 15, 40, 95):
    p = Pattern(lines=4, tracks=3)
    marker = image(4, 3)
    p.raw_data = marker
    try:
        p.raw_data = img[:cut]
    except struct.error:
        pass
    else:
        failures.append(f"no struct.error for truncated image ({cut} bytes)")
    whole = cut // 8
    got = p.raw_data
    expect(got[: whole * 8] == img[: whole * 8], f"cells before truncation ({cut})")
    expect(got[whole * 8 :] == marker[whole * 8 :], f"cells after truncation untouched ({cut})")

for bad in (None, 5):
    p = Pattern(lines=2, tracks=2)
    try:
        p.raw_data = bad
    except TypeError:
        pass
    else:
        failures.append(f"no TypeError for {bad!r}")
    expect(p.raw_data == b"\0" * 32, "grid untouched after TypeError")

# --- lines/tracks changed after the grid was created ------------------------
p = Pattern(lines=4, tracks=4)
p.data  # build 4x4 grid
p.lines, p.tracks = 2, 3
img = image(2, 3)
p.raw_data = img
for l in range(4):
    for t in range(4):
        if l < 2 and t < 3:
            off = (l * 3 + t) * 8
            expect(p.data[l][t].raw_data == img[off : off + 8], "shrunk shape placement")
        else:
            expect(p.data[l][t].raw_data == b"\0" * 8, "cells outside shrunk shape untouched")

p = Pattern(lines=2, tracks=2)
p.data
p.lines = 3
img = image(3, 2)
try:
    p.raw_data = img
except IndexError:
    pass
else:
    failures.append("no IndexError when lines exceeds grid")
expect(p.raw_data == img[:32], "cells filled before IndexError")

p = Pattern(lines=2, tracks=2)
p.data
p.tracks = 3
img = image(2, 3)
try:
    p.raw_data = img
except IndexError:
    pass
else:
    failures.append("no IndexError when tracks exceeds grid")
expect(p.raw_data == img[:16] + b"\0" * 16, "cells filled before IndexError (tracks)")

# setter on a pattern without a grid builds it first
p = Pattern(lines=2, tracks=1)
expect(not hasattr(p, "_data"), "grid is lazy")
p.raw_data = b"\x01" * 16
expect(len(p.data) == 2 and p.raw_data == b"\x01" * 16, "lazy grid filled")

# --- set_via_fn / set_via_gen ------------------------------------------------
calls = []


def fn(pat, line, track):
    calls.append((pat, line, track))
    return Note(note=NOTECMD.C3, vel=line + 1, ctl=track)


p = Pattern(lines=3, tracks=2)
old_grid = p.data
old_notes = [n for r in old_grid for n in r]
ret = p.set_via_fn(fn)
expect(ret is p, "set_via_fn returns self")
expect(calls == [(p, l, t) for l in range(3) for t in range(2)], "set_via_fn call order")
expect(p.data is not old_grid, "set_via_fn installs a new grid")
expect(all(n.pattern is p for r in p.data for n in r), "set_via_fn ownership")
expect(not any(n is o for r in p.data for n in r for o in old_notes), "new notes")
expect(
    p.raw_data
    == b"".join(
        struct.pack("<BBHHH", int(NOTECMD.C3), l + 1, 0, t, 0) for l in range(3) for t in range(2)
    ),
    "set_via_fn image",
)
expect(all(n.raw_data == b"\0" * 8 for n in old_notes), "old notes untouched")


def failing(pat, line, track):
    if (line, track) == (1, 1):
        raise KeyError("boom")
    return Note(vel=100)


before = p.raw_data
grid = p.data
try:
    p.set_via_fn(failing)
except KeyError:
    pass
else:
    failures.append("exception from fn swallowed")
expect(p.data is grid and p.raw_data == before, "set_via_fn is all-or-nothing")

seen = {}


def gen(pat, new):
    seen["pat"] = pat
    seen["new_is_copy"] = new is not pat.data and len(new) == pat.lines
    yield 0, 1, Note(note=NOTECMD.D4, vel=10)
    yield 2, 0, Note(note=NOTECMD.NOTE_OFF)
    seen["intermediate"] = new[0][1].vel


before_grid = p.data
keep = p.data[1][0].raw_data
ret = p.set_via_gen(gen)
expect(ret is p, "set_via_gen returns self")
expect(seen == {"pat": p, "new_is_copy": True, "intermediate": 10}, "set_via_gen arguments")
expect(p.data is not before_grid, "set_via_gen installs a new grid")
expect(p.data[0][1].note == NOTECMD.D4 and p.data[2][0].note == NOTECMD.NOTE_OFF, "set_via_gen cells")
expect(p.data[1][0].raw_data == keep, "set_via_gen keeps other cells")
expect(all(n.pattern is p for r in p.data for n in r), "set_via_gen ownership")


def bad_gen(pat, new):
    yield 0, 0, Note(vel=55)
    raise ValueError("boom")


before = p.raw_data
try:
    p.set_via_gen(bad_gen)
except ValueError:
    pass
else:
    failures.append("exception from gen swallowed")
expect(p.raw_data == before, "set_via_gen is all-or-nothing")

# a note shared from another pattern is re-owned
q = Pattern(lines=1, tracks=1)
foreign = q.data[0][0]
p.set_via_gen(lambda pat, new: iter([(0, 0, foreign)]))
expect(foreign.pattern is p and p.data[0][0] is foreign, "foreign note adopted")

# --- through the file format ------------------------------------------------
project = rv.Project()
imgs = []
for lines, tracks in ((1, 1), (7, 3), (32, 4), (33, 32)):
    pat = Pattern(lines=lines, tracks=tracks)
    # keep module numbers in one byte so that any version clean-up is a no-op
    img = b"".join(
        struct.pack(
            "<BBHHH",
            int(rng.choice(CMDS)),
            rng.randrange(130),
            rng.randrange(0x100),
            rng.randrange(0x10000),
            rng.randrange(0x10000),
        )
        for _ in range(lines * tracks)
    )
    pat.raw_data = img
    imgs.append(img)
    project.attach_pattern(pat)
for pat, img in zip(project.patterns, imgs):
    first = next(iter(pat.iff_chunks()))
    expect(first == (b"PDTA", img), "PDTA chunk is the image")
f = io.BytesIO()
project.write_to(f)
blob = f.getvalue()
loaded = rv.read_sunvox_file(io.BytesIO(blob))
expect(len(loaded.patterns) == len(imgs), "pattern count after load")
for pat, img in zip(loaded.patterns, imgs):
    expect(pat.raw_data == img, f"image after load {pat.lines}x{pat.tracks}")
    expect(all(n.pattern is pat for r in pat.data for n in r), "ownership after load")
f2 = io.BytesIO()
loaded.write_to(f2)
expect(f2.getvalue() == blob, "file re-saves byte-identically")

if failures:
    print("FAIL")
    for msg in failures[:20]:
        print("  ", msg)
    sys.exit(1)
print("PASS")
