"""Behaviour check for Module.load_options and option/controller initialisation
in Module.__init__.

Expected values are derived here with plain arithmetic from the declared
(byte, bit, size) layout: stored = (byte // 2^bit) mod 2^size.
"""
import io
import random
import sys

from rv.modules.analoggenerator import AnalogGenerator
from rv.modules.delay import Delay
from rv.modules.metamodule import MetaModule
from rv.modules.module import Chunk, Module
from rv.modules.multisynth import MultiSynth
from rv.modules.sampler import Sampler
from rv.modules.sound2ctl import Sound2Ctl
from rv.option import Option
from rv.readers.reader import read_sunvox_file
from rv.synth import Synth

MODULE_TYPES = [AnalogGenerator, MetaModule, MultiSynth, Sampler, Sound2Ctl]
failures = []


def expect(cond, msg):
    if not cond:
        failures.append(msg)


def same(a, b):
    return a == b and type(a) is type(b)


def options_chunk(cls, data):
    c = Chunk()
    c.chnm = cls.options_chnm
    c.chdt = data
    return c


def expected_values(cls, data):
    out = {}
    for name, opt in cls.options.items():
        cell = data[opt.byte] if opt.byte < len(data) else 0
        field = (cell // (2**opt.bit)) % (2**opt.size)
        out[name] = (field != 0) if opt.size == 1 else field
    return out


def check_load(cls, data, label, via_load_chunk=False):
    mod = cls()
    keys_before = list(mod.option_values)
    chunk = options_chunk(cls, data)
    if via_load_chunk:
        mod.load_chunk(chunk)
    else:
        result = mod.load_options(chunk)
        expect(result is None, f"{label}: load_options returns None")
    want = expected_values(cls, bytes(data))
    expect(list(mod.option_values) == keys_before, f"{label}: key order changed")
    for name, opt in cls.options.items():
        got = mod.option_values[name]
        expect(same(got, want[name]), f"{label}: {name} stored {got!r} != {want[name]!r}")
        logical = getattr(mod, name)
        want_logical = (not want[name]) if opt.inverted else want[name]
        expect(same(logical, want_logical), f"{label}: {name} logical {logical!r}")
    expect(chunk.chdt is data, f"{label}: chunk data replaced")
    return mod


total = sum(len(cls.options) for cls in MODULE_TYPES)
expect(total == 49, f"expected 49 options, found {total}")

for cls in MODULE_TYPES:
    cname = cls.__name__
    top = max(o.byte for o in cls.options.values()) + 1
    rng = random.Random(3300 + top)

    # fixed patterns at several lengths: empty, short, exact, 64, longer than 64
    for length in sorted({0, 1, top - 1, top, top + 1, 63, 64, 65, 100}):
        for fill in (0x00, 0xFF, 0xAA, 0x55, 0x01, 0x80):
            data = bytes([fill]) * length
            check_load(cls, data, f"{cname} fill {fill:#x} len {length}")
    # every single bit of the record on its own
    for byte in range(top):
        for bit in range(8):
            data = bytearray(top)
            data[byte] = 1 << bit
            check_load(cls, bytes(data), f"{cname} bit {byte}.{bit}")
    # every representable value of each option placed by hand, rest random
    for name, opt in cls.options.items():
        for value in range(2**opt.size):
            data = bytearray(rng.randrange(256) for _ in range(top))
            keep = 0xFF ^ ((2**opt.size - 1) << opt.bit)
            data[opt.byte] = (data[opt.byte] & keep) | (value << opt.bit)
            mod = check_load(cls, bytes(data), f"{cname}.{name} := {value}")
            expect(
                int(mod.option_values[name]) == value, f"{cname}.{name} := {value} lost"
            )
    # random records, through load_options and through load_chunk dispatch
    for n in range(60):
        data = bytes(rng.randrange(256) for _ in range(rng.choice([top, top, 64, 3])))
        check_load(cls, data, f"{cname} random #{n}", via_load_chunk=bool(n % 2))
    # bytearray input behaves like bytes
    data = bytearray(rng.randrange(256) for _ in range(top))
    check_load(cls, data, f"{cname} bytearray")

    # load does not go through the descriptors: no clamping, no exclusivity fix
    # and no change callbacks
    calls = []

    if cls is not MetaModule:  # MetaModule has its own __getattr__ protocol

        class Spy(cls):
            mtype = None  # falsy: stays out of the module class registry

            def __getattr__(self, item):
                if item.startswith("on_") and item.endswith("_changed"):
                    return lambda v: calls.append((item, v))
                raise AttributeError(item)

        spy = Spy()
        expect(
            [c[0] for c in calls if c[0] != "on_controller_changed"][: len(cls.options)]
            != [],
            f"{cname}: constructor should notify option hooks",
        )
        notified = {c[0] for c in calls}
        expect(
            all(f"on_{n}_changed" in notified for n in cls.options),
            f"{cname}: constructor should notify for every option",
        )
        calls.clear()
        spy.load_options(options_chunk(cls, b"\xff" * top))
        expect(calls == [], f"{cname}: load_options fired callbacks {calls[:3]!r}")
        expect(
            spy.option_values == expected_values(cls, b"\xff" * top),
            f"{cname}: spy load values",
        )

    # complete file round trip with random assignments made through the API
    for n in range(10):
        mod = cls()
        for name, opt in cls.options.items():
            setattr(mod, name, rng.randrange(2**opt.size))
        f = io.BytesIO()
        Synth(mod).write_to(f)
        back = read_sunvox_file(io.BytesIO(f.getvalue())).module
        expect(type(back) is cls, f"{cname}: reread type")
        expect(
            all(
                same(back.option_values[k], mod.option_values[k])
                or back.option_values[k] == mod.option_values[k]
                for k in cls.options
            )
            and list(back.option_values) == list(mod.option_values),
            f"{cname}: round trip #{n}: {back.option_values!r} != {mod.option_values!r}",
        )
        clone = mod.clone()
        expect(clone.option_values == mod.option_values, f"{cname}: clone #{n}")

# literal MetaModule record
m = MetaModule()
m.load_options(options_chunk(MetaModule, bytes([200, 1, 0, 1, 0b0111])))
expect(same(m.option_values["user_defined_controllers"], 200), "load does not clamp")
expect(m.arpeggiator is True and m.apply_velocity_to_project is False, "meta bools")
expect(m.option_values["event_output"] is True and m.event_output is False, "meta inv")
expect(
    m.receive_notes_from_keyboard is True
    and m.do_not_receive_notes_from_keyboard is True
    and m.auto_bpm_tpl is True,
    "load keeps both exclusive bits as stored",
)
m.load_options(options_chunk(MetaModule, b""))
expect(
    all(v is False or same(v, 0) for v in m.option_values.values()),
    f"empty record zeroes everything: {m.option_values!r}",
)
expect(m.event_output is True, "zeroed inverted option reads True")

# bad chunk data
try:
    MetaModule().load_options(options_chunk(MetaModule, None))
except TypeError:
    pass
else:
    expect(False, "chdt=None should raise TypeError")


# synthetic layout: option in byte 63, and beyond the padded map
class Synthetic(Module):
    mtype = None
    mgroup = "Test"


class Edge(Synthetic):
    last = Option(name="last", byte=63, bit=6, size=2, default=1)
    first = Option(name="first", byte=0, bit=7, size=1, default=False)
    nib = Option(name="nib", byte=0, bit=0, size=4, default=9, inverted=True)


e = Edge()
expect(e.option_values == {"first": False, "last": 1, "nib": 9}, f"Edge init {e.option_values}")
e.load_options(options_chunk(Edge, bytes([0x8F])))
expect(
    same(e.option_values["first"], True)
    and same(e.option_values["last"], 0)
    and same(e.option_values["nib"], 15)
    and e.nib is False,
    f"Edge short: {e.option_values!r}",
)
e.load_options(options_chunk(Edge, bytes(63) + bytes([0b10111111]) + b"\xff" * 10))
expect(
    same(e.option_values["first"], False)
    and same(e.option_values["last"], 2)
    and same(e.option_values["nib"], 0)
    and e.nib is True,
    f"Edge long: {e.option_values!r}",
)


class Beyond(Synthetic):
    near = Option(name="near", byte=0, bit=0, size=1, default=False)
    past = Option(name="past", byte=64, bit=0, size=8, default=0)


b = Beyond()
try:
    b.load_options(options_chunk(Beyond, b"\x01" * 64))
except IndexError:
    # options before the failing one have already been stored
    expect(b.option_values["near"] is True, "partial load before IndexError")
else:
    expect(False, "byte 64 with a 64 byte record should raise IndexError")
b = Beyond()
b.load_options(options_chunk(Beyond, b"\x01" * 64 + b"\xc3"))
expect(same(b.option_values["past"], 0xC3), "records longer than 64 are not truncated")

# ---------------------------------------------------------- Module.__init__
# options from keyword arguments go through the descriptors, in declared order
m = MetaModule(
    user_defined_controllers=300,
    event_output=False,
    receive_notes_from_keyboard=True,
    do_not_receive_notes_from_keyboard=True,
    arpeggiator=1,
)
expect(same(m.option_values["user_defined_controllers"], 96), "ctor clamps")
expect(m.option_values["event_output"] is True and m.event_output is False, "ctor inverts")
order = list(MetaModule.options)
later = max(
    ("receive_notes_from_keyboard", "do_not_receive_notes_from_keyboard"), key=order.index
)
earlier = min(
    ("receive_notes_from_keyboard", "do_not_receive_notes_from_keyboard"), key=order.index
)
expect(m.option_values[later] is True and m.option_values[earlier] is False, "ctor exclusive")
expect(m.option_values["arpeggiator"] is True, "ctor bool coercion")
expect(list(m.option_values) != [] and set(m.option_values) == set(order), "ctor keys")
attached = [c.attached(m) for c in m.user_defined]
expect(attached == [True] * 96, "ctor ran on_user_defined_controllers_changed hook")
m0 = MetaModule()
expect(not any(c.attached(m0) for c in m0.user_defined), "default: none attached")
for cls in MODULE_TYPES:
    mod = cls()
    for name, opt in cls.options.items():
        expect(getattr(mod, name) == opt.default, f"{cls.__name__}.{name} default")
    expect(mod.controllers_loaded == set(cls.controllers), f"{cls.__name__} loaded set")
    first_created = list(mod.option_values)
    expect(sorted(first_created) == sorted(cls.options), f"{cls.__name__} option keys")
ms = MultiSynth(round_note_x=True, round_pitch_y=True, trigger=True)
second = max(("round_note_x", "round_pitch_y"), key=list(MultiSynth.options).index)
first = min(("round_note_x", "round_pitch_y"), key=list(MultiSynth.options).index)
expect(getattr(ms, second) is True and getattr(ms, first) is False, "MultiSynth exclusive")
expect(ms.trigger is True, "MultiSynth trigger")

# controllers with dependent ranges are initialised after what they depend on
d = Delay(delay_unit=Delay.DelayUnit.ms, delay_l=3000, delay_r=2500)
expect(d.delay_unit == Delay.DelayUnit.ms and d.delay_l == 3000 and d.delay_r == 2500, "Delay kw")
expect(
    list(d.controller_values)
    == [n for n in Delay.controllers if n not in ("delay_l", "delay_r")]
    + ["delay_l", "delay_r"],
    f"Delay init order {list(d.controller_values)!r}",
)
expect(d.controllers_loaded == set(Delay.controllers), "Delay loaded set")
d = Delay()
expect(d.delay_l == 128 or d.delay_l == Delay.controllers["delay_l"].default, "Delay default")
expect(d.option_values == {} and Delay.options == {}, "Delay has no options")
plain = Module(index=3, name="x", finetune=5)
expect(plain.option_values == {} and plain.controller_values == {}, "bare Module")
expect(plain.index == 3 and plain.name == "x" and plain.mod_finetune == 5, "bare Module kw")

if failures:
    print("FAIL")
    for f in failures[:40]:
        print("  -", f)
    sys.exit(1)
print("PASS")
