"""Shared behaviour harness (embedded verbatim in every check.py)."""
import hashlib
import io
import logging
import sys
import warnings
from enum import Enum

logging.disable(logging.CRITICAL)
warnings.simplefilter("ignore")

from rv.chunks.array import ArrayChunk  # noqa: E402
from rv.cmidmap import MidiMessageType, Slope  # noqa: E402
from rv.controller import DependentRange, Range  # noqa: E402
from rv.errors import EmptySynthError  # noqa: E402
from rv.modules import MODULE_CLASSES  # noqa: E402
from rv.project import Project  # noqa: E402
from rv.readers.reader import read_sunvox_file  # noqa: E402
from rv.synth import Synth  # noqa: E402

FAILURES = []


def expect(cond, msg):
    if not cond:
        FAILURES.append(msg)


def module_types():
    return sorted(k for k in MODULE_CLASSES if k != "Output")


def set_controllers(mod, which):
    """Drive every controller to one end of its range (which: 'min'/'max'/'mid')."""
    items = list(mod.controllers.items())
    ordered = [i for i in items if not isinstance(i[1].value_type, DependentRange)]
    ordered += [i for i in items if isinstance(i[1].value_type, DependentRange)]
    for name, ctl in ordered:
        t = ctl.instance_value_type(mod)
        if isinstance(t, Range):
            lo, hi = t.min, t.max
            value = {"min": lo, "max": hi, "mid": (lo + hi) // 2}[which]
        elif isinstance(t, type) and issubclass(t, Enum):
            members = list(t)
            value = {"min": members[0], "max": members[-1]}.get(
                which, members[len(members) // 2]
            )
        elif t is bool:
            value = which != "min"
        else:
            continue
        try:
            setattr(mod, name, value)
        except Exception:  # noqa: BLE001 - leave the default in place
            pass


def set_options(mod, which):
    for name, opt in mod.options.items():
        if opt.size == 1:
            value = which != "min"
        elif None not in {opt.min, opt.max}:
            value = opt.min if which == "min" else opt.max
        else:
            value = 0 if which == "min" else (1 << opt.size) - 1
        try:
            setattr(mod, name, value)
        except Exception:  # noqa: BLE001
            pass


def array_chunks(mod):
    return sorted(
        (k, v) for k, v in vars(mod).items() if isinstance(v, ArrayChunk)
    )


ELEMENT_LIMITS = {"B": 255, "H": 65535, "I": 0xFFFFFFFF}


def fill_arrays(mod, which):
    for _, chunk in array_chunks(mod):
        first = chunk.values[0] if chunk.values else None
        if isinstance(first, Enum):
            members = list(type(first))
            chunk.values = [
                members[0]
                if which == "min"
                else members[-1]
                if which == "max"
                else members[i % len(members)]
                for i in range(chunk.length)
            ]
        elif isinstance(first, float):
            chunk.values = [
                (((i * 37) % 200) - 100) / 128.0 if which != "min" else -1.0
                for i in range(chunk.length)
            ]
        elif isinstance(first, int) and not isinstance(first, bool):
            top = ELEMENT_LIMITS.get(chunk.type, 255)
            if chunk.max_value:
                top = min(top, chunk.max_value)
            low = chunk.min_value or 0
            if which == "min":
                chunk.values = [low] * chunk.length
            elif which == "max":
                chunk.values = [top] * chunk.length
            else:
                chunk.values = [
                    low + (i * 7919) % (top - low + 1) for i in range(chunk.length)
                ]
        elif first is not None:
            # Mapping-like objects: vary their integer attributes in place.
            for i, item in enumerate(chunk.values):
                for j, attr in enumerate(sorted(vars(item))):
                    limit = 0xFFFF if chunk.type.startswith("H") else 0xFFFFFFFF
                    if which == "min":
                        v = 0
                    elif which == "max":
                        v = limit
                    else:
                        v = (i * 131 + j * 17 + 1) % (limit + 1)
                    setattr(item, attr, v)


def set_midi_maps(mod, which):
    if which == "min":
        return
    types = list(MidiMessageType)
    slopes = list(Slope)
    for i, name in enumerate(mod.controllers):
        m = mod.controller_midi_maps[name]
        m.channel = (i * 5 + 1) % 17 if which == "mid" else 16
        m.message_type = types[(i + 1) % len(types)] if which == "mid" else types[-1]
        m.slope = slopes[i % len(slopes)] if which == "mid" else slopes[-1]
        m.message_parameter = (i * 1021) % 65536 if which == "mid" else 65535


def build(mtype, which):
    cls = MODULE_CLASSES[mtype]
    mod = cls()
    if which != "default":
        pick = lambda lo, hi, mid: {"min": lo, "max": hi, "mid": mid}[which]  # noqa: E731
        mod.name = pick("", "x" * 40, "n\u00e9me")
        mod.mod_finetune = pick(-256, 256, 17)
        mod.mod_relative_note = pick(-64, 64, -3)
        mod.mod_scale = pick(1, 1024, 300)
        mod.color = pick((0, 0, 0), (255, 255, 255), (1, 128, 254))
        mod.midi_in_always = which != "min"
        mod.midi_in_channel = pick(0, 16, 7)
        mod.midi_out_name = pick(None, "dev" * 10, "out")
        mod.midi_out_channel = pick(0, 16, 3)
        mod.midi_out_bank = pick(-1, 16383, 5)
        mod.midi_out_program = pick(-1, 127, 9)
        mod.x = pick(-4096, 4096, 100)
        mod.y = pick(-4096, 4096, 200)
        mod.layer = pick(0, 7, 2)
        mod.visualization = pick(0, 0x0FFF1F3F, 0x000C0101)
    if which != "default":
        set_controllers(mod, which)
        set_options(mod, which)
        fill_arrays(mod, which)
        set_midi_maps(mod, which)
    return mod


def norm(v):
    if isinstance(v, Enum):
        return (type(v).__name__, v.name)
    if isinstance(v, float):
        return round(v, 6)
    if isinstance(v, (list, tuple)):
        return [norm(x) for x in v]
    if isinstance(v, (int, str, bytes, bool, type(None))):
        return v
    if hasattr(v, "__dict__"):
        return {k: norm(x) for k, x in sorted(vars(v).items())}
    return repr(v)


def snapshot(mod, positional=False):
    """Everything the property says must survive, as plain data."""
    snap = {
        "type": type(mod).__name__,
        "mtype": mod.mtype,
        "name": mod.name,
        "flags": mod.flags,
        "controllers": {k: norm(v) for k, v in mod.controller_values.items()},
        "options": dict(mod.option_values),
        "cmid": {
            # MIDI maps of unattached controllers are not part of the file
            k: mod.controller_midi_maps[k].cmid_data
            for k, c in mod.controllers.items()
            if c.attached(mod)
        },
        "finetune": mod.mod_finetune,
        "relnote": mod.mod_relative_note,
        "scale": mod.mod_scale,
        "color": tuple(mod.color),
        "midi": (
            mod.midi_in_always,
            mod.midi_in_channel,
            mod.midi_out_name or None,
            mod.midi_out_channel,
            mod.midi_out_bank,
            mod.midi_out_program,
        ),
        "arrays": {k: norm(c.values) for k, c in array_chunks(mod)},
    }
    if positional:
        snap["pos"] = (mod.x, mod.y, mod.layer, int(mod.visualization))
    return snap


def synth_bytes(mod):
    f = io.BytesIO()
    Synth(mod).write_to(f)
    return f.getvalue()


def iff_split(data):
    """Split a byte string into (tag, payload) pairs."""
    out = []
    pos = 0
    while pos < len(data):
        tag = data[pos : pos + 4]
        size = int.from_bytes(data[pos + 4 : pos + 8], "little")
        out.append((tag, data[pos + 8 : pos + 8 + size]))
        pos += 8 + size
    return out


VARIANTS = ("default", "min", "mid", "max")


def run_synth_round_trips(digest):
    for mtype in module_types():
        for which in VARIANTS:
            label = f"{mtype}/{which}"
            try:
                mod = build(mtype, which)
                data = synth_bytes(mod)
            except Exception as e:  # noqa: BLE001
                digest.update(f"{label}:ERR:{type(e).__name__}".encode())
                expect(False, f"{label}: cannot build/serialize: {e!r}")
                continue
            digest.update(label.encode())
            digest.update(data)
            chunks = iff_split(data)
            tags = [t for t, _ in chunks]
            expect(tags[0] == b"SSYN" and tags[1] == b"VERS", f"{label}: header")
            expect(tags[-1] == b"SEND", f"{label}: SEND last")
            attached = [
                n for n, c in mod.controllers.items() if c.attached(mod)
            ]
            expect(tags.count(b"CVAL") == len(attached), f"{label}: CVAL count")
            cvals = [p for t, p in chunks if t == b"CVAL"]
            for n, p in zip(attached, cvals):
                raw = int.from_bytes(p, "little", signed=True)
                expect(raw == mod.get_raw(n), f"{label}: CVAL {n}")
            cmids = [p for t, p in chunks if t == b"CMID"]
            if attached:
                expect(len(cmids) == 1, f"{label}: one CMID")
                expect(len(cmids[0]) == 8 * len(attached), f"{label}: CMID size")
            else:
                expect(not cmids, f"{label}: no CMID when no controllers")
            for banned in (b"SXXX", b"SYYY", b"SZZZ", b"SVPR"):
                expect(banned not in tags, f"{label}: {banned} in stand-alone synth")
            expect((b"CHNK" in tags) == bool(mod.chnk), f"{label}: CHNK presence")
            before = snapshot(mod)
            loaded = read_sunvox_file(io.BytesIO(data)).module
            after = snapshot(loaded)
            # names are truncated to 32 bytes on write
            before["name"] = (
                before["name"].encode("utf8")[:32].decode("utf8", "ignore")
            )
            if before != after:
                diff = [k for k in before if before[k] != after[k]]
                expect(False, f"{label}: load differs in {diff}")
            data2 = synth_bytes(loaded)
            expect(data2 == data, f"{label}: second write differs")
            cloned = mod.clone()
            expect(type(cloned) is type(mod), f"{label}: clone type")
            expect(snapshot(cloned) == after, f"{label}: clone differs from load")
            digest.update(repr(sorted(after.items(), key=str)).encode())


def run_project_round_trips(digest):
    for which in VARIANTS:
        project = Project()
        mods = []
        for mtype in module_types():
            mods.append(project.attach_module(build(mtype, which)))
        for i, m in enumerate(mods):
            project.connect(m, project.output if i % 3 == 0 else mods[i - 1])
            if i % 5 == 0 and i + 2 < len(mods):
                project.connect(mods[i + 2], m)
        f = io.BytesIO()
        project.write_to(f)
        data = f.getvalue()
        digest.update(f"project/{which}".encode())
        digest.update(data)
        loaded = read_sunvox_file(io.BytesIO(data))
        expect(len(loaded.modules) == len(project.modules), f"project/{which}: count")
        for a, b in zip(project.modules, loaded.modules):
            label = f"project/{which}/{a.mtype}"
            if a.mtype == "Output":
                expect(b.in_links == a.in_links, f"{label}: links")
                continue
            sa, sb = snapshot(a, positional=True), snapshot(b, positional=True)
            sa["name"] = sa["name"].encode("utf8")[:32].decode("utf8", "ignore")
            if sa != sb:
                diff = [k for k in sa if sa[k] != sb[k]]
                expect(False, f"{label}: differs in {diff}")
            expect(a.in_links == b.in_links, f"{label}: in_links")
            expect(a.in_link_slots == b.in_link_slots, f"{label}: in_link_slots")
            expect(a.out_links == b.out_links, f"{label}: out_links")
        f2 = io.BytesIO()
        loaded.write_to(f2)
        expect(f2.getvalue() == data, f"project/{which}: second write differs")


def run_empty_synth():
    s = Synth()
    gen = s.chunks()  # lazily evaluated: creating the generator must not raise
    try:
        next(gen)
        expect(False, "empty synth: no error")
    except EmptySynthError as e:
        expect("no module" in str(e), "empty synth: message")
    f = io.BytesIO()
    try:
        s.write_to(f)
        expect(False, "empty synth write_to: no error")
    except EmptySynthError:
        pass
    expect(f.getvalue() == b"", "empty synth wrote bytes before refusing")
    try:
        s.read()
        expect(False, "empty synth read(): no error")
    except EmptySynthError:
        pass


def finish(digest, golden):
    got = digest.hexdigest()
    if golden is not None:
        expect(got == golden, f"byte digest changed: {got} != {golden}")
    if FAILURES:
        for m in FAILURES[:40]:
            print("FAIL:", m)
        print(f"{len(FAILURES)} failure(s)")
        sys.exit(1)
    print("PASS", got)


# --- checks specific to the module reader (CVAL order, links, NUL strings) ----

import struct  # noqa: E402

from rv.lib.iff import write_chunk  # noqa: E402
from rv.modules.module import Module  # noqa: E402
from rv.readers.module import ModuleReader  # noqa: E402


class _Capture(logging.Handler):
    def __init__(self):
        super().__init__(level=logging.DEBUG)
        self.records = []

    def emit(self, record):
        self.records.append((record.levelname, str(record.msg)))


def read_module(chunk_list, index=1):
    """Feed raw (tag, payload) chunks to a ModuleReader; return (module, log)."""
    f = io.BytesIO()
    for tag, payload in chunk_list:
        write_chunk(f, tag, payload)
    f.seek(0)
    logger = logging.getLogger("rv.readers.module")
    handler = _Capture()
    old_level, old_propagate = logger.level, logger.propagate
    logger.addHandler(handler)
    logger.setLevel(logging.DEBUG)
    logger.propagate = False
    logging.disable(logging.NOTSET)
    calls = []
    original = Module.set_raw

    def spy(self, name, raw_value):
        calls.append((name, raw_value))
        return original(self, name, raw_value)

    Module.set_raw = spy
    try:
        reader = ModuleReader(f, index=index)
        module = reader.object
    finally:
        Module.set_raw = original
        logging.disable(logging.CRITICAL)
        logger.removeHandler(handler)
        logger.setLevel(old_level)
        logger.propagate = old_propagate
    return module, handler.records, calls, reader


def base_chunks(mtype, name=b"nm\0", extra=()):
    out = [(b"SFFF", struct.pack("<I", 0x49)), (b"SNAM", name)]
    out.append((b"STYP", mtype))
    out.extend(extra)
    return out


def i32(*values):
    return struct.pack("<%di" % len(values), *values)


def run_string_checks():
    cases = [
        (b"abc\0\0\0", "abc"),
        (b"abc", "abc"),
        (b"\0abc", ""),
        (b"", ""),
        (b"ab\0cd\0ef", "ab"),
        ("héllo".encode("utf8") + b"\0" * 5, "héllo"),
        (b"x" * 32, "x" * 32),
    ]
    for raw, want in cases:
        mod, _, _, _ = read_module(
            base_chunks(b"Amplifier\0", name=raw, extra=[(b"SMIN", raw)])
            + [(b"SEND", b"")]
        )
        expect(mod.name == want, f"SNAM {raw!r} -> {mod.name!r}")
        expect(mod.midi_out_name == want, f"SMIN {raw!r} -> {mod.midi_out_name!r}")
    for raw in (b"Amplifier", b"Amplifier\0", b"Amplifier\0junk\0"):
        mod, _, _, _ = read_module(base_chunks(raw) + [(b"SEND", b"")])
        expect(type(mod).__name__ == "Amplifier" and mod.mtype == "Amplifier",
               f"STYP {raw!r}")
        expect(mod.name == "nm", "name carried over to the typed module")
        expect(mod.flags & 0x49 == 0x49, "flags carried over")
    try:
        read_module(base_chunks(b"\0Amplifier") + [(b"SEND", b"")])
        expect(False, "empty STYP should be a KeyError")
    except KeyError:
        pass
    try:
        read_module(base_chunks(b"Amplifier", name=b"\xff\xfe") + [(b"SEND", b"")])
        expect(False, "bad utf8 should raise")
    except UnicodeDecodeError:
        pass


def run_link_checks():
    cases = [
        ([], []),
        ([i32()], []),
        ([i32(-1)], []),
        ([i32(-1, -1, -1)], []),
        ([i32(3)], [3]),
        ([i32(3, -1, 5, -1, -1)], [3, -1, 5]),
        ([i32(-1, 2)], [-1, 2]),
        ([i32(0, 0, -1)], [0, 0]),
        ([i32(1, -1), i32(4, -1)], [1, 4]),
        ([i32(1, -1, 2), i32(-1, -1)], [1, -1, 2]),
        ([i32(1), i32(), i32(7)], [1, 7]),
        ([i32(-1), i32(7)], [7]),
        ([i32(-2, -1)], [-2]),
        ([i32(2**31 - 1, -(2**31))], [2**31 - 1, -(2**31)]),
    ]
    for tag, attr in ((b"SLNK", "in_links"), (b"SLnK", "in_link_slots")):
        for payloads, want in cases:
            extra = [(tag, p) for p in payloads]
            mod, _, _, _ = read_module(
                base_chunks(b"Amplifier\0", extra=extra) + [(b"SEND", b"")]
            )
            got = getattr(mod, attr)
            expect(got == want and isinstance(got, list), f"{tag} {payloads!r}: {got!r}")
            other = "in_link_slots" if attr == "in_links" else "in_links"
            expect(getattr(mod, other) == [], f"{tag}: {other} untouched")
        for bad in (b"\x01", b"\x01\x02\x03", i32(1) + b"\x00", i32(1, 2) + b"\xff\xff"):
            try:
                read_module(
                    base_chunks(b"Amplifier\0", extra=[(tag, bad)]) + [(b"SEND", b"")]
                )
                expect(False, f"{tag} {bad!r}: expected struct.error")
            except struct.error:
                pass
    # both present, also on the Output module (index 0, no STYP)
    mod, _, _, _ = read_module(
        [
            (b"SFFF", struct.pack("<I", 0x43)),
            (b"SNAM", b"Output\0"),
            (b"SLNK", i32(2, 1, -1, -1)),
            (b"SLnK", i32(0, 0, -1, -1)),
            (b"SEND", b""),
        ],
        index=0,
    )
    expect(type(mod).__name__ == "Output", "index 0 is Output")
    expect(mod.in_links == [2, 1] and mod.in_link_slots == [0, 0], "output links")


def run_cval_checks():
    from rv.modules.metamodule import MAX_USER_DEFINED_CONTROLLERS

    for mtype in module_types():
        cls = MODULE_CLASSES[mtype]
        probe = cls()
        keys = [n for n, c in probe.controllers.items() if c.attached(probe)]
        if mtype == "MetaModule":
            keys += [f"user_defined_{i + 1}" for i in range(MAX_USER_DEFINED_CONTROLLERS)]
        defaults = [probe.get_raw(n) if n in probe.controllers and
                    probe.controllers[n].attached(probe) else 0 for n in keys]
        for count in sorted({0, 1, len(keys) - 1, len(keys), len(keys) + 1, len(keys) + 3}):
            if count < 0:
                continue
            raws = [(defaults[i] if i < len(keys) else 1000 + i) for i in range(count)]
            # take a real serialized module and swap in our own CVAL run
            stream = [
                c
                for c in iff_split(synth_bytes(cls()))[2:]
                if c[0] != b"CVAL"
            ]
            at = min(
                i for i, c in enumerate(stream) if c[0] in (b"CMID", b"CHNK", b"SEND")
            )
            stream[at:at] = [(b"CVAL", i32(r)) for r in raws]
            mod, records, calls, reader = read_module(stream)
            label = f"CVAL {mtype} x{count}"
            expect(reader._controller_keys == keys, f"{label}: controller keys")
            known = min(count, len(keys))
            want_calls = [(keys[i], raws[i]) for i in range(known - 1, -1, -1)]
            expect(calls == want_calls, f"{label}: set_raw order {calls!r}")
            want_log = []
            for i in range(count - 1, -1, -1):
                if i < len(keys):
                    want_log.append(("DEBUG", f"Setting {keys[i]} from raw {raws[i]}"))
                else:
                    want_log.append(
                        ("WARNING",
                         f"Unsupported controller at index {i} with raw value {raws[i]}")
                    )
            got_log = [r for r in records if r[1].startswith(("Setting", "Unsupported"))]
            expect(got_log == want_log, f"{label}: log {got_log[:3]!r}")
            expect(set(keys[:known]) <= mod.controllers_loaded, f"{label}: loaded set")
    # a unit controller (later CVAL) must be applied before its dependants
    from rv.modules.delay import Delay

    d = Delay()
    units = list(type(d.delay_unit))
    for unit in units:
        d.delay_unit = unit
        t = d.controllers["delay_l"].instance_value_type(d)
        for v in (t.min, t.max):
            d.delay_l = v
            d.delay_r = t.max if v == t.min else t.min
            loaded = read_sunvox_file(io.BytesIO(synth_bytes(d))).module
            expect(
                (loaded.delay_unit, loaded.delay_l, loaded.delay_r)
                == (unit, d.delay_l, d.delay_r),
                f"Delay {unit} {v}",
            )


def main():
    digest = hashlib.sha256()
    run_synth_round_trips(digest)
    run_project_round_trips(digest)
    run_empty_synth()
    run_string_checks()
    run_link_checks()
    run_cval_checks()
    finish(digest, GOLDEN)


GOLDEN = "0480f65abcf86492d4c4cf00f3687be377cd5bb6e4eecbd4e76fc128ec9d5726"

if __name__ == "__main__":
    main()
