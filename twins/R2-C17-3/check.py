"""Behaviour check for MetaModule user defined controllers and Sampler envelopes
(property C17: no hidden shared state between instances / clones)."""
import io
import os
import struct
import sys
from struct import pack

import rv.api  # noqa: F401
from rv.controller import Range
from rv.modules import Chunk
from rv.modules.amplifier import Amplifier
from rv.modules.echo import Echo
from rv.modules.metamodule import MetaModule, UserDefined, UserDefinedProxy
from rv.modules.sampler import Sampler
from rv.project import Project
from rv.readers.reader import read_sunvox_file
from rv.synth import Synth

failures = []


def check(cond, msg):
    if not cond:
        failures.append(msg)


def raises(exc, fn):
    try:
        fn()
    except exc:
        return True
    except BaseException as e:  # noqa
        failures.append(f"expected {exc.__name__}, got {e!r}")
        return True
    return False


def synth_bytes(mod):
    f = io.BytesIO()
    Synth(mod).write_to(f)
    return f.getvalue()


def chunk(chnm, chdt):
    c = Chunk()
    c.chnm, c.chdt = chnm, chdt
    return c


def flags(mm):
    return [u._attached for u in mm.user_defined]


def ud_state(mm):
    return [(u.name, u.number, u.label, u._attached, repr(u.value_type), u.default) for u in mm.user_defined]


def maps(mm):
    return [(v.module, v.controller) for v in mm.mappings.values]


# ------------------------------------------------------------------ MetaModule
a, b = MetaModule(), MetaModule()
check(a.user_defined is not b.user_defined, "user_defined list shared")
check(len(a.user_defined) == 96 and len({id(u) for u in a.user_defined + b.user_defined}) == 192, "96 distinct UserDefined each")
check(all(type(u) is UserDefined for u in a.user_defined), "UserDefined type")
check([u.name for u in a.user_defined] == [f"user_defined_{i}" for i in range(1, 97)], "names")
check([u.number for u in a.user_defined] == list(range(6, 102)), "numbers")
orders = [u._order for u in a.user_defined]
check(orders == list(range(orders[0], orders[0] + 96)), "UserDefined created in order, one Controller each")
check(b.user_defined[0]._order == orders[-1] + 1, "no extra Controller objects created per MetaModule")
check(flags(a) == [False] * 96, "initially detached")
check(all(u.value_type == Range(0, 44100) and u.default == 0 and u.label is None for u in a.user_defined), "UserDefined defaults")
check(a.project is not b.project and type(a.project) is Project, "own Project")
check(a.project.metamodule is a and b.project.metamodule is b, "project back reference")
check(a.mappings is not b.mappings and a.mappings.values is not b.mappings.values, "own mappings")
check(maps(a) == [(0, 0)] * 96, "default mappings")
check(list(MetaModule.controllers)[:5] == ["volume", "input_module", "play_patterns", "bpm", "tpl"], "fixed controllers")
check(list(MetaModule.controllers)[5:] == [f"user_defined_{i}" for i in range(1, 97)], "proxy controllers")
check(all(type(c) is UserDefinedProxy for c in list(MetaModule.controllers.values())[5:]), "proxy type")
check([a.controller_values[f"user_defined_{i}"] for i in range(1, 97)] == [0] * 96, "initial ud values")
p = Project()
c = MetaModule(project=p, name="mm", volume=300, user_defined_controllers=4)
check(c.project is p and p.metamodule is c, "project kw used")
check(flags(c) == [True] * 4 + [False] * 92 and c.name == "mm" and c.volume == 300, "kw init")
check(flags(a) == [False] * 96 and flags(b) == [False] * 96, "attach flags leaked from c")
fresh_bytes = synth_bytes(b)

# build an embedded project and map controllers
amp = a.project.new_module(Amplifier, volume=111)
echo = a.project.new_module(Echo, delay_unit=Echo.DelayUnit.ms, delay=1500)
a.mappings.values[0].module, a.mappings.values[0].controller = amp.index, 0  # volume
a.mappings.values[1].module, a.mappings.values[1].controller = echo.index, 3  # delay (dependent)
a.mappings.values[2].module, a.mappings.values[2].controller = 99, 0  # no such module
a.mappings.values[3].module, a.mappings.values[3].controller = amp.index, 99  # no such ctl
a.mappings.values[4].module, a.mappings.values[4].controller = echo.index, 0  # beyond count
# Upward propagation matches mapping.controller against the 1-based controller
# *number*: slot 7 reacts to amp.volume (number 1), slot 8 to echo.delay (number 4).
a.mappings.values[6].module, a.mappings.values[6].controller = amp.index, 1
a.mappings.values[7].module, a.mappings.values[7].controller = echo.index, 4
b_before = (ud_state(b), maps(b), dict(b.controller_values), dict(b.option_values))
a.user_defined_controllers = 4
check(flags(a) == [True] * 4 + [False] * 92, "attach 4")
a.update_user_defined_controllers()
u = a.user_defined
check(u[0].value_type == Range(0, 1024) and u[0].default == 256, f"ud1 type {u[0].value_type!r}")
check(a.controller_values["user_defined_1"] == 111, "ud1 value copied")
check(repr(u[1].value_type) == "<WarnOnlyRange 0..4000>" and u[1].default == 256, f"ud2 type {u[1].value_type!r}")
check(a.controller_values["user_defined_2"] == 1500, "ud2 value copied")
for i in (2, 3, 4, 5, 95):
    check(u[i].value_type == Range(0, 44100) and u[i].default == 0, f"ud{i + 1} untouched")
    check(a.controller_values[f"user_defined_{i + 1}"] == 0, f"ud{i + 1} value untouched")
check((ud_state(b), maps(b), dict(b.controller_values), dict(b.option_values)) == b_before, "a's setup leaked into b")
check(synth_bytes(b) == fresh_bytes, "a's setup changed b's bytes")

# count boundary: 0 processes nothing
z = MetaModule()
zamp = z.project.new_module(Amplifier, volume=7)
z.mappings.values[0].module = zamp.index
z.update_user_defined_controllers()
check(z.controller_values["user_defined_1"] == 0 and z.user_defined[0].default == 0, "count 0: nothing updated")
z.user_defined_controllers = 96
z.update_user_defined_controllers()
check(z.controller_values["user_defined_1"] == 7 and z.user_defined[0].default == 256, "count 96")
z.project.modules[zamp.index] = None
z.user_defined[0].default = -1
z.update_user_defined_controllers()
check(z.user_defined[0].default == -1, "empty module slot skipped")

# attribute access through proxies / aliases
check(a.user_defined_1 == 111 and a.user_defined_2 == 1500 and a.user_defined_96 == 0, "proxy get")
a.user_defined_1 = 200
check(amp.volume == 200 and a.user_defined_1 == 200, "proxy set propagates down")
a.user_defined_2 = 100
check(echo.delay == 100, "proxy set propagates down (dependent range)")
amp.volume = 130
check(a.user_defined_1 == 200 and a.user_defined_7 == 130, "embedded change propagates up by number")
check(amp.balance == 2 and amp.volume == 130, "...and back down through slot 7's mapping")
echo.delay = 1
check(a.user_defined_2 == 100 and a.user_defined_8 == 1 and echo.right_channel_offset is True, "embedded change propagates up (2)")
echo.dry = 9
check((a.user_defined_5, a.user_defined_7, a.user_defined_8) == (0, 130, 1), "unmatched embedded change mirrors nothing")
amp.volume = 64
a.user_defined_2 = 7
check(b.user_defined_1 == 0 and c.user_defined_1 == 0, "values leaked")
check(raises(KeyError, lambda: a.user_defined_97), "user_defined_97 -> KeyError")
check(raises(KeyError, lambda: a.user_defined_1x), "user_defined_1x -> KeyError")
check(raises(KeyError, lambda: setattr(a, "user_defined_0", 1)), "set user_defined_0 -> KeyError")
check(raises(AttributeError, lambda: a.no_such_thing), "missing attr -> AttributeError")
check(not hasattr(a, "u_vol_ume"), "no alias yet")
u[0].label = "Vol Ume"
u[1].label = "9 Lives!"
u[3].label = ""
check(a.user_defined_aliases == ["u_vol_ume", "u__9_lives", None, None], f"aliases {a.user_defined_aliases}")
check(b.user_defined_aliases == [] and c.user_defined_aliases == [None] * 4, "aliases leaked")
check(a.u_vol_ume == 200 and a.u__9_lives == 7, "alias get")
a.u_vol_ume = 64
check(amp.volume == 64 and "u_vol_ume" not in vars(a), "alias set goes to controller")
check("u_vol_ume" in dir(a) and "u__9_lives" in dir(a) and "u_vol_ume" not in dir(b), "dir")
check(raises(AttributeError, lambda: b.u_vol_ume), "alias unknown on other instance")
b.u_vol_ume = 5
check(vars(b)["u_vol_ume"] == 5 and amp.volume == 64, "alias on other instance is a plain attribute")
del b.__dict__["u_vol_ume"]
bare = MetaModule.__new__(MetaModule)
check(bare.user_defined_aliases == [], "aliases before init")
check(raises(AttributeError, lambda: bare.anything), "getattr before init")
bare.something = 1
check(vars(bare) == {"something": 1}, "setattr before init")

# attachment recomputation
for count in (0, 1, 5, 95, 96):
    a.user_defined_controllers = count
    check(flags(a) == [True] * count + [False] * (96 - count), f"attach {count}")
    check(flags(b) == [False] * 96 and flags(c) == [True] * 4 + [False] * 92, "attach leaked")
a.user_defined_controllers = 500
check(a.user_defined_controllers == 96 and flags(a) == [True] * 96, "clamped high")
a.user_defined_controllers = -5
check(a.user_defined_controllers == 0 and flags(a) == [False] * 96, "clamped low")
a.option_values["user_defined_controllers"] = 200
a.recompute_controller_attachment()
check(flags(a) == [True] * 96, "raw 200")
a.option_values["user_defined_controllers"] = -3
a.recompute_controller_attachment()
check(flags(a) == [False] * 96, "raw -3")
a.option_values["user_defined_controllers"] = 2
a.recompute_controller_attachment()
a.option_values["user_defined_controllers"] = 2.5
check(raises(TypeError, a.recompute_controller_attachment), "raw 2.5 -> TypeError")
check(flags(a) == [True] * 2 + [False] * 94, "unchanged after TypeError")
a.option_values["user_defined_controllers"] = None
check(raises(TypeError, a.recompute_controller_attachment), "raw None -> TypeError")
a.user_defined_controllers = 4
check(flags(a) == [True] * 4 + [False] * 92, "back to 4")

# saving
spec = list(a.specialized_iff_chunks())
check(spec[0] == (b"CHNM", pack("<I", 0)) and spec[1][0] == b"CHDT" and spec[1][1][:4] == b"SVOX", "project chunk")
check(spec[2] == (b"CHNM", pack("<I", 1)), "mapping CHNM")
mapping_bytes = pack("<16H", 1, 0, 2, 3, 99, 0, 1, 99, 2, 0, 0, 0, 1, 1, 2, 4) + b"\0" * (88 * 4)
check(spec[3] == (b"CHDT", mapping_bytes), "mapping CHDT")
check(spec[4] == (b"CHNM", pack("<I", 2)) and spec[5][0] == b"CHDT", "options chunk")
check(
    spec[6:]
    == [
        (b"CHNM", pack("<I", 8)),
        (b"CHDT", b"Vol Ume\0"),
        (b"CHNM", pack("<I", 9)),
        (b"CHDT", b"9 Lives!\0"),
        (b"CHNM", pack("<I", 11)),
        (b"CHDT", b"\0"),
    ],
    f"label chunks {spec[6:]}",
)
u[5].label = "detached label"
check(list(a.specialized_iff_chunks())[6:] == spec[6:], "detached labels are not written")

# loading chunks
d, e = MetaModule(), MetaModule()
e_bytes = synth_bytes(e)
old_values = d.mappings.values
d.load_chunk(chunk(1, pack("<4H", 1, 2, 3, 4)))
check(len(d.mappings.values) == 96 and maps(d)[:3] == [(1, 2), (3, 4), (0, 0)], "short mapping chunk padded")
check(d.mappings.values is not old_values, "mapping load builds a new list")
check(len({id(v) for v in d.mappings.values}) == 96, "padding mappings are distinct objects")
d.load_chunk(chunk(1, pack("<200H", *range(200))))
check(len(d.mappings.values) == 100 and maps(d)[99] == (198, 199), "long mapping chunk kept")
d.load_chunk(chunk(1, b""))
check(maps(d) == [(0, 0)] * 96, "empty mapping chunk")
d.load_chunk(chunk(1, mapping_bytes + b"\x01\x02\x03"))
check(d.mappings.bytes == mapping_bytes, "mapping roundtrip with trailing junk")
check(maps(e) == [(0, 0)] * 96, "mapping load leaked")
opt = spec[5][1]
d.load_chunk(chunk(2, opt))
check(d.option_values == a.option_values and flags(d) == [False] * 96, "options chunk (no attach until recompute)")
old_project = d.project
d.load_chunk(chunk(0, spec[1][1]))
check(d.project is not old_project and len(d.project.modules) == 3, "project chunk loaded")
check(type(d.project.modules[1]) is Amplifier and d.project.modules[1].volume == 64, "embedded module values")
for chnm, raw, want in (
    (8, b"Vol Ume\0", "Vol Ume"),
    (9, b"no terminator", "no terminator"),
    (10, b"two\0nuls\0", "two"),
    (11, b"", ""),
    (12, b"\0", ""),
    (103, "café\0".encode("utf-8"), "café"),
):
    d.load_chunk(chunk(chnm, raw))
    check(d.user_defined[chnm - 8].label == want, f"label {chnm}: {d.user_defined[chnm - 8].label!r}")
    check(e.user_defined[chnm - 8].label is None, f"label {chnm} leaked")
state = (ud_state(d), maps(d), dict(d.option_values))
for chnm in (3, 4, 5, 6, 7):
    d.load_chunk(chunk(chnm, b"\xff\xff\xff\xff"))
check((ud_state(d), maps(d), dict(d.option_values)) == state, "chunks 3..7 ignored")
check(raises(IndexError, lambda: d.load_chunk(chunk(104, b"x"))), "label 104 -> IndexError")
check(raises(TypeError, lambda: d.load_chunk(chunk(None, b"x"))), "chnm None -> TypeError")
check(synth_bytes(e) == e_bytes and synth_bytes(b) == fresh_bytes, "loads into d changed other instances")

# clone independence, both directions
a_bytes = synth_bytes(a)
k = a.clone()
check(type(k) is MetaModule and synth_bytes(k) == a_bytes and synth_bytes(a) == a_bytes, "clone bytes")
check(k.user_defined is not a.user_defined and not set(map(id, k.user_defined)) & set(map(id, a.user_defined)), "clone shares UserDefined objects")
check(k.project is not a.project and k.mappings is not a.mappings, "clone shares project/mappings")
check(flags(k) == flags(a) and [x.label for x in k.user_defined[:4]] == ["Vol Ume", "9 Lives!", None, ""], "clone state")
check(k.user_defined[0].value_type == Range(0, 1024) and k.u_vol_ume == 64, "clone ud types/values")
k.u_vol_ume = 1
k.user_defined[0].label = "renamed"
k.mappings.values[0].controller = 1
k.user_defined_controllers = 10
k.project.modules[2].feedback = 3
check(synth_bytes(a) == a_bytes and amp.volume == 64 and flags(a) == [True] * 4 + [False] * 92, "mutating clone changed original")
k2 = a.clone()
a.u_vol_ume = 2
a.user_defined[1].label = "other"
a.mappings.values[1].module = 1
a.user_defined_controllers = 1
check(synth_bytes(k2) == a_bytes and flags(k2) == [True] * 4 + [False] * 92, "mutating original changed clone")
check(synth_bytes(b) == fresh_bytes and synth_bytes(MetaModule()) == fresh_bytes, "fresh MetaModule bytes changed by history")

# loading the same file twice
path = os.path.join("tests", "files", "metamodule.sunsynth")
if os.path.exists(path):
    m1 = read_sunvox_file(path).module
    m2 = read_sunvox_file(path).module
    b1 = synth_bytes(m1)
    check(b1 == synth_bytes(m2), "same file, same bytes")
    check([x.label for x in m1.user_defined[:3]] == ["V", "W", None] and flags(m1) == [True] * 2 + [False] * 94, "file labels/flags")
    check(m1.user_defined_aliases == ["u_v", "u_w"], "file aliases")
    m1.u_v = m1.user_defined[0].value_type.max
    m1.user_defined[1].label = "changed"
    m1.user_defined_controllers = 1
    m1.mappings.values[5].module = 1
    check(synth_bytes(m2) == b1 and flags(m2) == [True] * 2 + [False] * 94, "loaded twins are not independent")
else:
    check(False, "run from the repository root (tests/files not found)")

# -------------------------------------------------------------------- Envelopes
ENV = {
    "VolumeEnvelope": ([(0, 0x8000), (8, 0), (0x80, 0), (0x100, 0)], (0, 0x8000), True, True, 0x102),
    "PanningEnvelope": ([(0, 0), (0x40, -0x2000), (0x80, 0x2000), (0xB4, 0)], (-0x4000, 0x4000), False, False, 0x103),
    "PitchEnvelope": ([(0, 0), (0x40, 0)], (-0x4000, 0x4000), False, False, 0x104),
}


def make(name):
    cls = getattr(Sampler, name)
    return cls(0x105) if name == "EffectControlEnvelope" else cls()


def expect_chdt(env, lo):
    out = pack("<HBBB", env.enable | env.sustain * 2 | env.loop * 4, env.ctl_index, env.gain_pct, env.velocity)
    out += b"\0\0\0" + pack("<HHHH", len(env.points), env.sustain_point, env.loop_start_point, env.loop_end_point)
    out += b"\0\0\0\0"
    for x, y in env.points:
        out += pack("<HH", x, y - lo)
    return out


ENV["EffectControlEnvelope"] = ([(0, 0x8000), (0x40, 0x8000)], (0, 0x8000), False, False, 0x105)
for name, (pts, rng, enable, sustain, chnm) in ENV.items():
    cls = getattr(Sampler, name)
    x, y = make(name), make(name)
    check(x.points == pts and x.points is not cls.initial_points and x.points is not y.points, f"{name}: points copy")
    want_vars = dict(
        points=pts, sustain_point=0, loop_start_point=0, loop_end_point=0, enable=enable,
        sustain=sustain, loop=False, ctl_index=0, gain_pct=100, velocity=0, loaded=False,
    )
    if name == "EffectControlEnvelope":
        want_vars["chnm"] = 0x105
    check(vars(x) == want_vars, f"{name}: vars {vars(x)}")
    check(list(vars(x)) == list(want_vars), f"{name}: attribute order")
    check(x.bitmask == (enable | sustain * 2), f"{name}: bitmask")
    ch = list(x.chunks())
    check(ch == [(b"CHNM", pack("<I", chnm)), (b"CHDT", expect_chdt(x, rng[0]))], f"{name}: chunks")
    y_bytes = list(y.chunks())
    # mutate x
    x.points.append((0x200, rng[1]))
    x.points[0] = (1, rng[0])
    x.bitmask = 5
    check((x.enable, x.sustain, x.loop) == (True, False, True) and x.bitmask == 5, f"{name}: bitmask setter")
    x.sustain_point, x.loop_start_point, x.loop_end_point = 1, 2, 3
    x.ctl_index, x.gain_pct, x.velocity = 4, 50, 1
    check(list(x.chunks())[1] == (b"CHDT", expect_chdt(x, rng[0])), f"{name}: chunks after mutation")
    check(list(y.chunks()) == y_bytes and y.points == pts and cls.initial_points == pts, f"{name}: mutation leaked")
    check(make(name).points == pts, f"{name}: fresh after history")
    # legacy point bytes
    lo = rng[0]
    xs = [p[0] for p in x.points] + [0] * 12
    ys = [p[1] // 0x200 for p in x.points] + [0] * 12
    legacy = [v for pair in zip(xs[:12], [v - lo // 0x200 for v in ys[:12]]) for v in pair]
    check(x.point_bytes == pack("<24H", *legacy) and len(x.point_bytes) == 48, f"{name}: point_bytes")
    check(x._x_values == xs[:12] and x._y_values == ys[:12], f"{name}: legacy values")
    full = make(name)
    full.points = [(i, rng[1]) for i in range(15)]
    check(full._x_values == list(range(12)) and full._y_values == [rng[1] // 0x200] * 12, f"{name}: >12 points truncated")
    check(len(full.point_bytes) == 48, f"{name}: >12 point_bytes")
    full.points = []
    check(full._x_values == [0] * 12 and full.point_bytes == pack("<24H", *([0, -(lo // 0x200)] * 12)), f"{name}: no points")
    # load
    z = make(name)
    old = z.points
    z.load_chdt(list(x.chunks())[1][1])
    check(z.points == x.points and z.points is not old and z.loaded is True, f"{name}: load roundtrip")
    check({k_: v for k_, v in vars(z).items() if k_ != "loaded"} == {k_: v for k_, v in vars(x).items() if k_ != "loaded"}, f"{name}: load vars")
    check(all(type(pt) is tuple for pt in z.points), f"{name}: tuple points")
    hdr = pack("<HBBB", 7, 1, 2, 3) + b"\xaa\xbb\xcc" + pack("<HHHH", 3, 4, 5, 6) + b"\xde\xad\xbe\xef"
    z2 = make(name)
    z2.load_chdt(hdr + pack("<HHHHHH", 1, 2, 3, 4, 5, 6) + b"extra")
    check(z2.points == [(1, 2 + lo), (3, 4 + lo), (5, 6 + lo)], f"{name}: load with junk padding")
    check((z2.enable, z2.sustain, z2.loop, z2.ctl_index, z2.gain_pct, z2.velocity) == (True, True, True, 1, 2, 3), f"{name}: load header")
    check((z2.sustain_point, z2.loop_start_point, z2.loop_end_point) == (4, 5, 6), f"{name}: load header 2")
    z3 = make(name)
    check(raises(struct.error, lambda: z3.load_chdt(hdr + pack("<HH", 9, 9) + b"\x01")), f"{name}: truncated points -> struct.error")
    check(z3.points == [(9, 9 + lo)] and z3.loaded is False and z3.velocity == 3, f"{name}: partial state after failure")
    z4 = make(name)
    before = dict(vars(z4))
    check(raises(struct.error, lambda: z4.load_chdt(hdr[:10])), f"{name}: short header -> struct.error")
    check(vars(z4) == before, f"{name}: nothing assigned on header failure")
    z5 = make(name)
    z5.load_chdt(pack("<HBBB", 0, 0, 0, 0) + b"\0" * 3 + pack("<HHHH", 0, 0, 0, 0))
    check(z5.points == [] and z5.loaded, f"{name}: zero points, 16 byte chunk")
    z5.velocity = 256
    check(raises(struct.error, lambda: list(z5.chunks())), f"{name}: out of range -> struct.error")
    check(cls.initial_points == pts, f"{name}: class initial_points intact")
check(raises(TypeError, Sampler.Envelope), "abstract Envelope() -> TypeError")

# Sampler instances
s1, s2 = Sampler(), Sampler()
s2_bytes = synth_bytes(s2)
envs = lambda s: [s.volume_envelope, s.panning_envelope, s.pitch_envelope] + s.effect_control_envelopes  # noqa
check(not set(map(id, envs(s1))) & set(map(id, envs(s2))), "envelope objects shared")
check([e_.chnm for e_ in envs(s1)] == [0x102, 0x103, 0x104, 0x105, 0x106, 0x107, 0x108], "envelope chnms")
check(len({id(e_.points) for e_ in envs(s1) + envs(s2)}) == 14, "points lists shared")
check(s1.note_samples is not s2.note_samples and s1.samples is not s2.samples, "sampler containers shared")
for e_ in envs(s1):
    e_.points.append((0x300, 0))
    e_.points[0] = (2, 0)
    e_.enable = not e_.enable
s1.note_samples.bytes = bytes(range(120))
smp = s1.samples[0] = Sampler.Sample()
smp.data = b"\1\2\3\4\5\6\7\x08"
check(synth_bytes(s2) == s2_bytes and synth_bytes(Sampler()) == s2_bytes, "sampler mutation leaked")
s1_bytes = synth_bytes(s1)
ks = s1.clone()
check(synth_bytes(ks) == s1_bytes, "sampler clone bytes")
for e_ in envs(ks):
    e_.points.pop()
ks.samples[0].data = b""
check(synth_bytes(s1) == s1_bytes, "mutating sampler clone changed original")
ks2 = s1.clone()
s1.volume_envelope.points.clear()
s1.effect_control_envelopes[3].points[1] = (9, 9)
check(synth_bytes(ks2) == s1_bytes, "mutating sampler changed clone")
path = os.path.join("tests", "files", "sampler.sunsynth")
if os.path.exists(path):
    f1, f2 = read_sunvox_file(path).module, read_sunvox_file(path).module
    fb = synth_bytes(f2)
    check(synth_bytes(f1) == fb, "sampler file twins equal")
    f1.is_legacy = False
    for e_ in envs(f1):
        e_.points.append((0x400, 0))
    check(synth_bytes(f2) == fb, "sampler file twins independent")

if failures:
    print("FAIL")
    for f_ in failures[:60]:
        print(" -", f_)
    print(len(failures), "failures")
    sys.exit(1)
print("PASS")
