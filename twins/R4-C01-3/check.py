"""Behaviour check for refactoring C01-3 (standalone; run with PYTHONPATH=<root>/src/python)."""
EXPECTED = "55cf737f3a815e969d7a519adf41e6e26c489b31910cfd0f48df8cd0455ff5ea"
import hashlib
import io
import logging
import random
import struct
import sys
from enum import Enum

from rv.api import NOTECMD, Note, Pattern, PatternClone, Project, Synth, m, read_sunvox_file
from rv.controller import Range
from rv.lib.iff import chunks as iff_chunks
from rv.modules import MODULE_CLASSES

logging.disable(logging.CRITICAL)

TRANSCRIPT = []
FAILURES = []


def record(label, value):
    TRANSCRIPT.append("%s=%r" % (label, value))


def expect(cond, label):
    if not cond:
        FAILURES.append(label)


def digest(data):
    return hashlib.sha256(data).hexdigest()[:16]


def plain(value):
    """Reduce a value to something with a stable repr."""
    if isinstance(value, Enum):
        return "%s.%s" % (type(value).__name__, value.name)
    if isinstance(value, (list, tuple)):
        return [plain(v) for v in value]
    if isinstance(value, (set, frozenset)):
        return sorted(plain(v) for v in value)
    if isinstance(value, dict):
        return [(plain(k), plain(v)) for k, v in value.items()]
    if isinstance(value, (bytes, bytearray)):
        return "bytes:%d:%s" % (len(value), digest(bytes(value)))
    if isinstance(value, (int, str, bool, float)) or value is None:
        return value
    return "<%s>" % type(value).__name__


def module_snapshot(mod):
    if mod is None:
        return None
    snap = {
        "cls": type(mod).__name__,
        "mtype": mod.mtype,
        "index": mod.index,
        "name": mod.name,
        "flags": mod.flags,
        "xyz": (mod.x, mod.y, mod.layer),
        "scale": mod.mod_scale,
        "color": tuple(mod.color),
        "vis": int(mod.visualization),
        "fine": (mod.mod_finetune, mod.mod_relative_note),
        "midi": (
            mod.midi_in_always,
            mod.midi_in_channel,
            mod.midi_out_name,
            mod.midi_out_channel,
            mod.midi_out_bank,
            mod.midi_out_program,
        ),
        "ctl": plain(mod.controller_values),
        "opt": plain(mod.option_values),
        "cmid": [
            (name, mod.controller_midi_maps[name].cmid_data.hex())
            for name in mod.controllers
        ],
        "links": (
            list(mod.in_links),
            list(mod.in_link_slots),
            list(mod.out_links),
            list(mod.out_link_slots),
        ),
    }
    return plain(snap)


def pattern_snapshot(pat):
    if pat is None:
        return None
    if isinstance(pat, PatternClone):
        return ("clone", pat.source, pat.flags_PFFF, pat.x, pat.y)
    return (
        "pattern",
        pat.name,
        pat.tracks,
        pat.lines,
        pat.y_size,
        pat.flags_PFLG,
        plain(pat.icon),
        tuple(pat.fg_color),
        tuple(pat.bg_color),
        pat.flags_PFFF,
        pat.x,
        pat.y,
        pat.raw_data.hex(),
    )


PROJECT_FIELDS = [
    "sunvox_version",
    "based_on_version",
    "flags",
    "initial_bpm",
    "initial_tpl",
    "global_volume",
    "name",
    "time_grid",
    "time_grid2",
    "modules_scale",
    "modules_zoom",
    "modules_x_offset",
    "modules_y_offset",
    "modules_layer_mask",
    "modules_current_layer",
    "timeline_position",
    "restart_position",
    "selected_module",
    "selected_generator",
    "current_pattern",
    "current_track",
    "current_line",
]


def project_snapshot(project, skip=()):
    return {
        "fields": [
            (f, plain(getattr(project, f))) for f in PROJECT_FIELDS if f not in skip
        ],
        "sync": (int(project.receive_sync_midi), int(project.receive_sync_other)),
        "modules": [module_snapshot(mod) for mod in project.modules],
        "patterns": [pattern_snapshot(pat) for pat in project.patterns],
    }


def chunk_listing(data):
    return [(name, digest(body)) for name, body in iff_chunks(io.BytesIO(data))]


def random_controller_value(rng, mod, name):
    ctl = mod.controllers[name]
    t = ctl.instance_value_type(mod)
    if isinstance(t, Range):
        return rng.choice([t.min, t.max, rng.randint(t.min, t.max)])
    if isinstance(t, type) and issubclass(t, Enum):
        return rng.choice(list(t))
    if t is bool:
        return rng.choice([True, False])
    if t is int:
        return rng.randint(0, 255)
    return None


def randomize_module(rng, mod):
    for name, ctl in mod.controllers.items():
        if not ctl.attached(mod) or rng.random() < 0.3:
            continue
        value = random_controller_value(rng, mod, name)
        if value is None:
            continue
        try:
            setattr(mod, name, value)
        except Exception as e:  # recorded: must stay the same
            record("ctl-set-error %s.%s" % (mod.mtype, name), type(e).__name__)
    for name, opt in mod.options.items():
        if rng.random() < 0.5:
            try:
                if opt.size == 1:
                    setattr(mod, name, rng.choice([True, False]))
                else:
                    setattr(mod, name, rng.randrange(0, 2**opt.size))
            except Exception as e:
                record("opt-set-error %s.%s" % (mod.mtype, name), type(e).__name__)
    mod.x = rng.randint(-2000, 2000)
    mod.y = rng.randint(-2000, 2000)
    mod.layer = rng.randint(0, 7)
    mod.mod_scale = rng.randint(0, 1024)
    mod.color = (rng.randrange(256), rng.randrange(256), rng.randrange(256))
    mod.mod_finetune = rng.randint(-256, 256)
    mod.mod_relative_note = rng.randint(-64, 64)
    mod.midi_in_always = rng.choice([True, False])
    mod.midi_in_channel = rng.randint(0, 16)
    mod.midi_out_name = rng.choice([None, "", "port", "pört ♫"])
    mod.midi_out_channel = rng.randint(0, 16)
    mod.midi_out_bank = rng.randint(-1, 127)
    mod.midi_out_program = rng.randint(-1, 127)
    mod.visualization = rng.randrange(0, 2**28)
    names = list(mod.controllers)
    for name in rng.sample(names, min(len(names), 2)):
        mm = mod.controller_midi_maps[name]
        mm.channel = rng.randint(0, 16)
        mm.message_type = rng.choice(list(type(mm.message_type)))
        mm.message_parameter = rng.randint(0, 0xFFFF)
        mm.slope = rng.choice(list(type(mm.slope)))


NAMES = [
    "",
    "plain",
    "x" * 32,
    "y" * 33,
    "a" * 31 + "é",
    "a" * 30 + "éz",
    "♫" * 11,
    "\U0001f3b5" * 9,
    "tab\tnewline\n",
    "é" * 16 + "tail",
]

ATTACHABLE = sorted(k for k in MODULE_CLASSES if k != "Output")


def random_pattern(rng):
    tracks = rng.choice([1, 2, 4, 7, 32])
    lines = rng.choice([1, 3, 16, 33])
    pat = Pattern(
        name=rng.choice([None, "", "pat", "pättern"]),
        tracks=tracks,
        lines=lines,
        y_size=rng.randint(1, 64),
        flags_PFLG=rng.randrange(4),
        icon=bytes(rng.randrange(256) for _ in range(32)),
        fg_color=(rng.randrange(256), rng.randrange(256), rng.randrange(256)),
        bg_color=(rng.randrange(256), rng.randrange(256), rng.randrange(256)),
        flags_PFFF=rng.choice([0, 2, 8, 0x10]),
        x=rng.randint(-100, 1000),
        y=rng.randint(-100, 1000),
    )
    notecmds = list(NOTECMD)
    for line in pat.data:
        for note in line:
            if rng.random() < 0.4:
                note.note = rng.choice(notecmds)
                note.vel = rng.randint(0, 129)
                note.module = rng.choice([0, 1, 255, 256, 0xFFFF, rng.randint(0, 0xFFFF)])
                note.ctl = rng.randint(0, 0xFFFF)
                note.val = rng.randint(0, 0xFFFF)
    return pat


def random_project(seed, n_modules=8, types=None):
    rng = random.Random(seed)
    project = Project()
    project.name = rng.choice(["Project", "", "Pröject ♫", "n" * 100])
    project.flags = rng.randrange(2**32)
    project.initial_bpm = rng.randint(1, 16000)
    project.initial_tpl = rng.randint(1, 31)
    project.global_volume = rng.randint(0, 256)
    project.time_grid = rng.randint(1, 64)
    project.time_grid2 = rng.randint(1, 64)
    project.modules_scale = rng.randint(1, 1024)
    project.modules_zoom = rng.randint(1, 1024)
    project.modules_x_offset = rng.randint(-(2**31), 2**31 - 1)
    project.modules_y_offset = rng.randint(-(2**31), 2**31 - 1)
    project.modules_layer_mask = rng.randrange(2**32)
    project.modules_current_layer = rng.randint(0, 7)
    project.timeline_position = rng.choice([0, 0, 5, -3, 2**31 - 1])
    project.restart_position = rng.choice([0, 0, 7, -9, -(2**31)])
    project.selected_module = rng.randint(0, n_modules)
    project.selected_generator = rng.randint(-1, n_modules)
    project.current_pattern = rng.randint(0, 5)
    project.current_track = rng.randint(0, 31)
    project.current_line = rng.randint(0, 31)
    project.receive_sync_midi = rng.randrange(8)
    project.receive_sync_other = rng.randrange(8)
    project.output.name = rng.choice(["Output", "Out", "é" * 20])
    mods = [project.output]
    chosen = types if types is not None else [rng.choice(ATTACHABLE) for _ in range(n_modules)]
    for mtype in chosen:
        if mtype is None:
            project.attach_module(None)
            continue
        mod = MODULE_CLASSES[mtype](name=rng.choice(NAMES + [None]))
        project.attach_module(mod)
        randomize_module(rng, mod)
        mods.append(mod)
    for _ in range(len(mods) * 2):
        a, b = rng.choice(mods), rng.choice(mods)
        if rng.random() < 0.25:
            project.connect(~a, b)
        else:
            project.connect(a, b)
    n_patterns = rng.randint(0, 4)
    for _ in range(n_patterns):
        kind = rng.random()
        if kind < 0.15:
            project.attach_pattern(None)
        elif kind < 0.3 and project.patterns and project.patterns[0] is not None:
            project.attach_pattern(
                PatternClone(source=0, x=rng.randint(0, 99), y=rng.randint(0, 99))
            )
        else:
            project.attach_pattern(random_pattern(rng))
    return project


def save_bytes(project):
    f = io.BytesIO()
    project.write_to(f)
    return f.getvalue()


def roundtrip_outcome(label, project, strict=True):
    """Write, re-read, re-write; record digests and compare snapshots."""
    try:
        data = save_bytes(project)
    except Exception as e:
        record(label + " write-error", type(e).__name__)
        return None
    record(label + " bytes", (len(data), digest(data)))
    record(label + " chunks", chunk_listing(data))
    try:
        loaded = read_sunvox_file(io.BytesIO(data))
    except Exception as e:
        record(label + " read-error", type(e).__name__)
        return None
    before = project_snapshot(project)
    after = project_snapshot(loaded)
    record(label + " loaded", after)
    record(label + " same-as-original", before == after)
    try:
        data2 = save_bytes(loaded)
        record(label + " rewrite", (len(data2), digest(data2), data2 == data))
    except Exception as e:
        record(label + " rewrite-error", type(e).__name__)
    if strict:
        expect(loaded.modules.__len__() <= len(project.modules), label + " module count")
        expect(
            [pattern_snapshot(p) for p in loaded.patterns]
            == [pattern_snapshot(p) for p in project.patterns],
            label + " patterns preserved",
        )
    return loaded


def finish(expected):
    total = hashlib.sha256("\n".join(TRANSCRIPT).encode("utf8")).hexdigest()
    if "--print" in sys.argv:
        print(total)
        if FAILURES:
            print("FAILURES: " + "; ".join(FAILURES), file=sys.stderr)
        if "--dump" in sys.argv:
            print("\n".join(TRANSCRIPT))
        return
    if FAILURES:
        print("FAIL: " + "; ".join(FAILURES))
        sys.exit(1)
    if total != expected:
        print("FAIL: behaviour transcript digest %s != expected %s" % (total, expected))
        sys.exit(1)
    print("PASS (%d observations)" % len(TRANSCRIPT))


# ---------------------------------------------------------------------------
# C01-3: Module (header, options, CMID, raw values, operators), Pattern data,
#        Container.clone/read and iff.write_chunk
# ---------------------------------------------------------------------------
import rv.errors
from rv.controller import DependentRange
from rv.errors import ControllerValueError
from rv.lib.iff import write_chunk
from rv.modules.module import Chunk, Module, ModuleList

logging.disable(logging.NOTSET)


class Capture(logging.Handler):
    def __init__(self):
        super().__init__(level=logging.DEBUG)
        self.lines = []

    def emit(self, rec):
        self.lines.append("%s %s %s" % (rec.name, rec.levelname, rec.getMessage()))


CAPTURE = Capture()
rv_logger = logging.getLogger("rv")
rv_logger.addHandler(CAPTURE)
rv_logger.setLevel(logging.WARNING)
rv_logger.propagate = False


def outcome_of(fn):
    try:
        return ("ok", plain(fn()))
    except Exception as e:
        return ("raised", type(e).__name__, str(e))


def check_construction():
    for mtype in ["Output"] + ATTACHABLE:
        cls = MODULE_CLASSES[mtype]
        mod = cls()
        record("default " + mtype, module_snapshot(mod))
        record("loaded " + mtype, sorted(mod.controllers_loaded))
        expect(list(mod.controller_values) != [] or not mod.controllers, mtype + " has values")
        dependent = [
            k for k, c in cls.controllers.items() if isinstance(c.value_type, DependentRange)
        ]
        plain_first = [k for k in cls.controllers if k not in dependent] + dependent
        expect(list(mod.controller_values) == plain_first, mtype + " init order")
        record("dependent " + mtype, dependent)
        rng = random.Random("kw" + mtype)
        kw = {}
        for name in cls.controllers:
            if rng.random() < 0.5:
                value = random_controller_value(rng, mod, name)
                if value is not None:
                    kw[name] = value
        for name, opt in cls.options.items():
            if rng.random() < 0.5:
                kw[name] = bool(rng.getrandbits(1)) if opt.size == 1 else rng.randrange(2**opt.size)
        kw.update(name=rng.choice(NAMES), x=rng.randint(-9, 9), y=7, layer=3, color=(1, 2, 3))
        record("kw " + mtype, outcome_of(lambda: module_snapshot(cls(**kw))))
    # dependent ranges follow the controller they depend on, whatever the kw order
    for cls, kws in [
        (m.Lfo, [dict(frequency_unit="hz", freq=2000), dict(freq=2000, frequency_unit="hz"),
                 dict(freq=2000), dict(frequency_unit="line", freq=300)]),
        (m.Echo, [dict(delay_unit="hz", delay=3000), dict(delay=3000), dict(delay=256)]),
        (m.Delay, [dict(delay_unit="hz", delay_l=4000, delay_r=1), dict(delay_l=4000)]),
        (m.Vibrato, [dict(frequency_unit="hz", freq=2000), dict(freq=2049)]),
        (m.Loop, [dict(length_unit="hz", length=3000), dict(length=3000)]),
    ]:
        for kw in kws:
            del CAPTURE.lines[:]
            record("dep %s %r" % (cls.__name__, sorted(kw)), outcome_of(lambda: cls(**kw).controller_values))
            record("dep log", list(CAPTURE.lines))
    # bad keyword values: the first offending controller is the one reported
    record("bad kw", outcome_of(lambda: m.Amplifier(volume=99999, balance=99999)))
    record("bad kw 2", outcome_of(lambda: m.Generator(waveform="nope")))
    record("base module", outcome_of(lambda: module_snapshot(Module(name="base", x=1))))
    record("scale kw", (m.Amplifier(scale=77).mod_scale, m.Smooth(scale=77).mod_scale))


def check_header_chunks():
    for name in NAMES + ["a" * 29 + "♫", "a" * 29 + "♫♫", "a" * 28 + "\U0001f3b5b", "\0x", "nul\0in"]:
        for in_project in (True, False, None):
            mod = m.Amplifier(name=name)
            listing = list(mod.iff_chunks(in_project=in_project))
            snam = dict(listing)[b"SNAM"]
            expect(len(snam) == 32, "SNAM is 32 bytes")
            stored = snam.rstrip(b"\0").decode("utf8")
            expect(name.startswith(stored) or "\0" in name, "SNAM is a prefix")
            expect(len((stored + name[len(stored):][:1]).encode("utf8")) > 32 or stored == name or "\0" in name,
                   "SNAM is the longest fitting prefix")
            record("header %r %r" % (name, in_project), [(n, b.hex()) for n, b in listing])
    record("bad name", outcome_of(lambda: list(m.Amplifier(name="\udc80").iff_chunks())))
    mod = m.Amplifier()
    mod.name = None
    record("None name", outcome_of(lambda: [n for n, _ in mod.iff_chunks()]))
    record("base iff", outcome_of(lambda: list(Module().iff_chunks())))
    p = Project()
    attached = p.new_module(m.Amplifier)
    names_in = [n for n, _ in attached.iff_chunks()]
    names_out = [n for n, _ in m.Amplifier().iff_chunks()]
    expect(b"SXXX" in names_in and b"SVPR" in names_in, "attached module writes placement")
    expect(b"SXXX" not in names_out and b"SVPR" not in names_out, "detached module does not")
    for always, channel in [(False, 0), (True, 0), (True, 5), (2, 3), (0, 16)]:
        mod = m.Amplifier(midi_in_always=always, midi_in_channel=channel)
        record("SMII %r %r" % (always, channel), dict(mod.iff_chunks())[b"SMII"].hex())


def check_options():
    for mtype in ["Output"] + ATTACHABLE:
        cls = MODULE_CLASSES[mtype]
        if not cls.options:
            mod = cls()
            record("no options " + mtype, outcome_of(lambda: list(mod.specialized_iff_chunks()))
                   if type(mod).specialized_iff_chunks is Module.specialized_iff_chunks else "custom")
            continue
        rng = random.Random("opt" + mtype)
        for trial in range(6):
            mod = cls()
            for name, opt in cls.options.items():
                if trial == 0:
                    continue
                if opt.size == 1:
                    setattr(mod, name, bool(rng.getrandbits(1)))
                else:
                    setattr(mod, name, rng.randrange(2**opt.size))
            listing = list(mod.options_chunks())
            expect([n for n, _ in listing] == [b"CHNM", b"CHDT"], mtype + " options chunk names")
            expect(listing[0][1] == struct.pack("<I", cls.options_chnm), mtype + " options CHNM")
            chdt = listing[1][1]
            expect(len(chdt) == max(o.byte for o in cls.options.values()) + 1, mtype + " CHDT size")
            record("options %s %d" % (mtype, trial), (plain(mod.option_values), chdt.hex()))
            fresh = cls()
            chunk = Chunk()
            chunk.chnm, chunk.chdt = cls.options_chnm, chdt
            fresh.load_options(chunk)
            expect(fresh.option_values == mod.option_values, mtype + " options round trip")
            record(
                "option types %s %d" % (mtype, trial),
                [(k, type(v).__name__) for k, v in fresh.option_values.items()],
            )
        # short, empty, long and noisy CHDT payloads
        for payload in [b"", b"\xff", b"\xff" * 3, b"\xaa" * 64, b"\x55" * 70, bytes(range(64))]:
            fresh = cls()
            chunk = Chunk()
            chunk.chnm, chunk.chdt = cls.options_chnm, payload
            record("load_options %s %d" % (mtype, len(payload)),
                   outcome_of(lambda: (fresh.load_options(chunk), fresh.option_values)[1]))
    mod = m.Sampler()
    name = next(iter(mod.options))
    mod.option_values[name] = None
    record("None option", outcome_of(lambda: list(mod.options_chunks())))
    del mod.option_values[name]
    record("missing option", outcome_of(lambda: list(mod.options_chunks())))
    chunk = Chunk()
    record("None chdt", outcome_of(lambda: m.Sampler().load_options(chunk)))


def cmid_state(mod):
    return [(k, v.cmid_data.hex()) for k, v in mod.controller_midi_maps.items()]


def check_cmid():
    rng = random.Random("cmid")

    def rec(valid=True):
        mt = rng.randrange(9) if valid else 200
        return struct.pack("<BBBBHBB", mt, rng.randrange(17), rng.randrange(6), 0, rng.randrange(65536), 0, 0xC8)

    for cls in (m.Amplifier, m.Generator, m.Output, m.MetaModule, m.Fmx):
        n = len(cls.controllers)
        for length in sorted({0, 1, 7, 8, 9, 15, 16, 17, 8 * n - 1, 8 * n, 8 * n + 1, 8 * n + 8, 8 * n + 13}):
            if length < 0:
                continue
            data = b"".join(rec() for _ in range(length // 8 + 1))[:length]
            mod = cls()
            mod.load_cmid(data)
            state = cmid_state(mod)
            expect(len(state) == min(n, length // 8), "%s cmid %d entries" % (cls.__name__, length))
            expect(
                all(h == data[i * 8 : i * 8 + 8].hex()[:10] + h[10:] for i, (_, h) in enumerate(state)),
                "cmid contents",
            )
            record("cmid %s %d" % (cls.__name__, length), state)
    # an invalid record stops loading at that point, earlier ones stay applied
    mod = m.Amplifier()
    data = rec() + rec() + rec(valid=False) + rec()
    record("cmid invalid", (outcome_of(lambda: mod.load_cmid(data)), cmid_state(mod)))
    mod = m.Amplifier()
    mod.load_cmid(bytearray(rec() + rec()))
    record("cmid bytearray", cmid_state(mod))


def check_raw_values():
    for mtype in ATTACHABLE:
        cls = MODULE_CLASSES[mtype]
        rng = random.Random("raw" + mtype)
        mod = cls()
        randomize_module(rng, mod)
        raws = []
        for name, ctl in cls.controllers.items():
            raws.append((name, outcome_of(lambda: mod.get_raw(name))))
        record("get_raw " + mtype, raws)
        fresh = cls()
        for name, (status, *rest) in raws:
            if status == "ok" and cls.controllers[name].attached(fresh):
                fresh.set_raw(name, rest[0])
        same = [k for k in fresh.controller_values if fresh.controller_values[k] != mod.controller_values[k]]
        record("set_raw mismatch " + mtype, same)
    mod = m.Amplifier()
    mod.controller_values["volume"] = None
    record("None value", mod.get_raw("volume"))
    record("unknown ctl", (outcome_of(lambda: mod.get_raw("nope")), outcome_of(lambda: mod.set_raw("nope", 1))))
    for index in (None, 0, 10, 255):
        for raw in (-1, 0, 1024, 1025, 70000):
            mod = m.Amplifier(index=index)
            del CAPTURE.lines[:]
            raising = outcome_of(lambda: (mod.set_raw("volume", raw), mod.volume)[1])
            with rv.errors.override_raise_controller_value_errors(False):
                warning = outcome_of(lambda: (mod.set_raw("volume", raw), mod.volume)[1])
            record("set_raw %r %r" % (index, raw), (raising, warning, list(CAPTURE.lines)))
    for raw in (-200, 0, 128, 256, 257):
        mod = m.Amplifier()
        with rv.errors.override_raise_controller_value_errors(False):
            del CAPTURE.lines[:]
            mod.set_raw("balance", raw)
            record("balance raw %d" % raw, (mod.balance, list(CAPTURE.lines)))
    try:
        m.Amplifier().set_raw("volume", 5000)
    except ControllerValueError as e:
        record("cause", (type(e.__cause__).__name__, e.__cause__.args))


def check_operators():
    p = Project()
    a, b, c, d = (p.new_module(m.Amplifier, name=n) for n in "abcd")
    r = a >> b
    expect(r is b, ">> returns right operand")
    r = a >> [b, c]
    expect(type(r) is ModuleList and list(r) == [b, c] and r.parent is p, ">> list gives ModuleList")
    r2 = r >> d
    expect(r2 is d, "ModuleList >> module")
    r3 = d << [a, c]
    expect(type(r3) is ModuleList and list(r3) == [a, c], "<< list gives ModuleList")
    r4 = r3 << p.output
    expect(r4 is p.output, "ModuleList << module")
    r5 = ModuleList(p, [a]) >> ModuleList(p, [c])
    expect(type(r5) is ModuleList and list(r5) == [c], "ModuleList >> ModuleList")
    t = (b, c)
    expect((a >> t) is t, "tuples are passed through")
    dis = ~a
    expect((dis >> b if hasattr(type(dis), "__rshift__") else None) is None, "no >> on ~module")
    expect((a >> ~b).orig is b, "disconnect via >> returns the wrapper")
    record("operator links", [(x.in_links, x.in_link_slots, x.out_links, x.out_link_slots) for x in p.modules])
    record("detached >>", outcome_of(lambda: m.Amplifier() >> m.Amplifier()))
    expect(Module.__lshift__ is not None and callable(ModuleList.__rshift__), "operators present")
    expect(isinstance(ModuleList(p), list) and ModuleList(p) == [], "ModuleList is a list")
    expect(int(a) == a.index + 1 and hash(a) == hash((id(p), a.index)), "int/hash")
    roundtrip_outcome("operators", p)


def check_clone_and_container():
    for mtype in ATTACHABLE:
        cls = MODULE_CLASSES[mtype]
        mod = cls(name="clone me ♫")
        randomize_module(random.Random("clone" + mtype), mod)
        res = outcome_of(lambda: module_snapshot(mod.clone()))
        record("clone " + mtype, res)
        f = io.BytesIO()
        st = outcome_of(lambda: Synth(mod).write_to(f))
        record("synth bytes " + mtype, (st[0], len(f.getvalue()), digest(f.getvalue())))
    for seed in range(200, 215):
        project = random_project(seed, n_modules=5)
        data = save_bytes(project)
        expect(project.read() == data, "read() == write_to() %d" % seed)
        clone = project.clone()
        expect(clone is not project and isinstance(clone, Project), "clone is a new project")
        again = read_sunvox_file(io.BytesIO(data))
        expect(project_snapshot(clone) == project_snapshot(again), "clone == reload %d" % seed)
        record("clone %d" % seed, project_snapshot(clone))
        roundtrip_outcome("container %d" % seed, project)
    record("empty synth", (outcome_of(lambda: Synth().read()), outcome_of(lambda: Synth().clone())))
    from rv.container import Container

    record("abstract", (outcome_of(lambda: Container().read()), outcome_of(lambda: Container().clone())))


def check_write_chunk():
    for name in [b"", b"A", b"AB", b"ABC", b"ABCD", b"ABCDE", b"ABCDEFGH", b"BPM ", b" ", None, bytearray(b"XY")]:
        for data in [b"", b"\0", b"payload", bytearray(b"ba"), b"x" * 300]:
            f = io.BytesIO()
            write_chunk(f, name, data)
            out = f.getvalue()
            if name is None:
                expect(out == b"", "None name writes nothing")
            else:
                expect(out[:4] == bytes(name[:4]) + b" " * (4 - len(name[:4])), "name padded")
                expect(out[4:8] == struct.pack("<I", len(data)) and out[8:] == bytes(data), "size+data")
            record("write_chunk %r %d" % (name, len(data)), out.hex()[:64])
    for name, data in [(b"ABCD", None), ("ABCD", b""), (b"ABCD", "text"), (b"ABCD", 5), (5, b"")]:
        f = io.BytesIO()
        res = outcome_of(lambda: write_chunk(f, name, data))
        record("write_chunk bad %r %r" % (name, data), (res[:2], f.getvalue().hex()))
    write_chunk(None, None, None)


def pattern_cells(pat):
    return [[(int(n.note), n.vel, n.module, n.ctl, n.val, n.pattern is pat) for n in line] for line in pat.data]


def check_pattern_data():
    rng = random.Random("pat")
    for tracks, lines in [(1, 1), (2, 3), (4, 32), (32, 2), (7, 5), (3, 64)]:
        pat = Pattern(tracks=tracks, lines=lines)
        expect(pat.raw_data == b"\0" * (8 * tracks * lines), "empty pattern raw")
        cells = []
        for _ in range(tracks * lines):
            cells.append(struct.pack("<BBHHH", rng.choice(list(NOTECMD)), rng.randint(0, 129),
                                     rng.randrange(65536), rng.randrange(65536), rng.randrange(65536)))
        raw = b"".join(cells)
        pat.raw_data = raw
        expect(pat.raw_data == raw, "raw_data round trip %dx%d" % (tracks, lines))
        expect(all(pat.data[i // tracks][i % tracks].raw_data == cells[i] for i in range(len(cells))), "cell order")
        record("pattern %dx%d" % (tracks, lines), digest(repr(pattern_cells(pat)).encode()))
        # longer input: the tail is ignored; shorter input: fails at the first missing cell
        pat2 = Pattern(tracks=tracks, lines=lines)
        pat2.raw_data = raw + b"\xff" * 11
        expect(pat2.raw_data == raw, "extra bytes ignored")
        pat3 = Pattern(tracks=tracks, lines=lines)
        res = outcome_of(lambda: setattr(pat3, "raw_data", raw[:-3]))
        record("short raw %dx%d" % (tracks, lines), (res[:2], digest(pat3.raw_data)))
        pat4 = Pattern(tracks=tracks, lines=lines)
        res = outcome_of(lambda: setattr(pat4, "raw_data", bytearray(raw)))
        record("bytearray raw", (res[:2], pat4.raw_data == raw))
    # geometry changed after the cells were created
    pat = Pattern(tracks=2, lines=2)
    pat.data
    pat.tracks = 3
    record("grown tracks", (outcome_of(lambda: setattr(pat, "raw_data", bytes(range(48))))[:2], pattern_cells(pat)))
    pat = Pattern(tracks=3, lines=3)
    pat.data
    pat.tracks, pat.lines = 2, 2
    pat.raw_data = bytes([1, 2, 3, 0, 4, 0, 5, 0] * 4)
    record("shrunk", (pattern_cells(pat), pat.raw_data.hex()))
    # invalid cell values
    pat = Pattern(tracks=1, lines=2)
    record("bad note", (outcome_of(lambda: setattr(pat, "raw_data", b"\xfe" * 16))[:2], pat.raw_data.hex()))
    # set_via_fn / set_via_gen
    pat = Pattern(tracks=2, lines=2)
    old = pat.data
    ret = pat.set_via_fn(lambda p, line, track: Note(note=NOTECMD.C4, vel=line * 10 + track + 1))
    expect(ret is pat and pat.data is not old, "set_via_fn returns self with new data")
    record("via fn", pattern_cells(pat))

    def gen(p, new):
        yield 0, 1, Note(note=NOTECMD.D4, module=3)
        yield 1, 0, Note(ctl=0x0102, val=0x0304)

    ret = pat.set_via_gen(gen)
    expect(ret is pat, "set_via_gen returns self")
    expect(all(n.pattern is pat for line in pat.data for n in line), "notes adopted")
    record("via gen", pattern_cells(pat))
    before = pattern_cells(pat)

    def failing(p, line, track):
        if line == 1:
            raise KeyError("boom")
        return Note()

    record("via fn failing", outcome_of(lambda: pat.set_via_fn(failing))[:2])
    expect(pattern_cells(pat) == before, "failed set_via_fn leaves the pattern alone")
    project = Project()
    project.attach_pattern(pat)
    project.attach_pattern(PatternClone(source=0))
    loaded = roundtrip_outcome("pattern project", project)
    expect(pattern_cells(loaded.patterns[0]) == before, "cells survive the round trip")
    expect(loaded.patterns[1].source_pattern is loaded.patterns[0], "clone source")


check_construction()
check_header_chunks()
check_options()
check_cmid()
check_raw_values()
check_operators()
check_clone_and_container()
check_write_chunk()
check_pattern_data()
finish(EXPECTED)
