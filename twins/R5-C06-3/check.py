"""Behaviour check for project / synth / module serialization (C06, refactoring 3).

Run from the repository root:
    PYTHONPATH=<root>/src/python python check.py

Exercises Project.chunks, Synth.chunks, Module.iff_chunks / options_chunks /
load_options / clone and MetaModule.specialized_iff_chunks /
recompute_controller_attachment over every fixture file: plain round trips,
then for every project field, common module field, controller and option a
load -> edit -> save -> load cycle.  The produced bytes and the reloaded state
are compared against digests recorded on the unchanged tree.
Set CHECK_DUMP=1 to print the combined digest instead of comparing it.
"""

import glob
import hashlib
import logging
import os
import struct
import sys
from enum import Enum
from io import BytesIO
from struct import pack

from rv.api import NOTE, Pattern, PatternClone, Project, Synth, m, read_sunvox_file
from rv.controller import Range
from rv.errors import EmptySynthError
from rv.lib.iff import chunks as iff_chunks
from rv.lib.iff import write_chunk
from rv.modules.metamodule import MetaModule
from rv.modules.module import Chunk, Module

logging.disable(logging.CRITICAL)

FAILURES = []
DIGESTS = {}


def check(cond, label):
    if not cond:
        FAILURES.append(label)
        print("FAIL:", label)


def digest(label, data):
    if not isinstance(data, (bytes, bytearray)):
        data = repr(data).encode("utf8")
    check(label not in DIGESTS, "duplicate digest label " + label)
    DIGESTS[label] = hashlib.sha256(data).hexdigest()[:20]


def load(raw):
    return read_sunvox_file(BytesIO(raw))


def stream(gen):
    f = BytesIO()
    for name, data in gen:
        write_chunk(f, name, data)
    return f.getvalue()


def chunk_names(raw):
    return [name for name, _ in iff_chunks(BytesIO(raw))]


PROJECT_FIELDS = (
    "sunvox_version based_on_version flags initial_bpm initial_tpl global_volume "
    "name time_grid time_grid2 modules_scale modules_zoom modules_x_offset "
    "modules_y_offset modules_layer_mask modules_current_layer timeline_position "
    "restart_position selected_module selected_generator current_pattern "
    "current_track current_line receive_sync_midi receive_sync_other"
).split()

MODULE_FIELDS = (
    "name flags mod_finetune mod_relative_note x y layer mod_scale color "
    "midi_in_always midi_in_channel midi_out_name midi_out_channel midi_out_bank "
    "midi_out_program in_links in_link_slots"
).split()


def describe_module(mod, in_project=True, depth=0):
    if mod is None:
        return None
    d = {"mtype": mod.mtype}
    for k in MODULE_FIELDS:
        if not in_project and k in ("x", "y", "layer", "in_links", "in_link_slots"):
            continue
        d[k] = getattr(mod, k)
    if in_project:
        d["visualization"] = int(mod.visualization)
    for k, ctl in mod.controllers.items():
        if ctl.attached(mod):
            d["ctl." + k] = getattr(mod, k)
            d["raw." + k] = mod.get_raw(k)
            d["cmid." + k] = mod.controller_midi_maps[k].cmid_data
    for k in mod.options:
        d["opt." + k] = mod.option_values.get(k)
    if mod.chnk and depth < 3:
        d["specialized"] = hashlib.sha256(
            stream(mod.specialized_iff_chunks())
        ).hexdigest()[:16]
    if isinstance(mod, MetaModule):
        # labels of detached controllers are not part of the file
        d["labels"] = [c.label if c.attached(mod) else None for c in mod.user_defined]
        d["attached"] = [c.attached(mod) for c in mod.user_defined]
        d["mappings"] = [(v.module, v.controller) for v in mod.mappings.values]
        d["project"] = describe_project(mod.project, depth + 1)
    return d


def describe_pattern(p):
    if p is None:
        return None
    if isinstance(p, PatternClone):
        return ("clone", p.source, p.flags_PFFF, p.x, p.y)
    return (
        p.name, p.tracks, p.lines, p.y_size, p.flags_PFLG, p.icon, p.fg_color,
        p.bg_color, p.flags_PFFF, p.x, p.y, p.raw_data,
    )


def describe_project(p, depth=0):
    d = {k: getattr(p, k) for k in PROJECT_FIELDS}
    d["patterns"] = [describe_pattern(x) for x in p.patterns]
    d["modules"] = [describe_module(x, True, depth) for x in p.modules]
    return d


def describe(obj):
    if isinstance(obj, Project):
        return describe_project(obj)
    return {
        "sunsynth_version": obj.sunsynth_version,
        "module": describe_module(obj.module, in_project=False),
    }


def flat(d, prefix=""):
    out = {}
    if isinstance(d, dict):
        for k, v in d.items():
            out.update(flat(v, "%s%s/" % (prefix, k)))
    elif isinstance(d, list) and any(isinstance(v, dict) for v in d):
        for i, v in enumerate(d):
            out.update(flat(v, "%s%d/" % (prefix, i)))
    else:
        out[prefix] = d
    return out


def diff_keys(a, b):
    fa, fb = flat(a), flat(b)
    return sorted(k for k in set(fa) | set(fb) if fa.get(k) != fb.get(k))


def fixture_files():
    files = sorted(
        glob.glob(os.path.join("tests", "files", "*.sun*"))
        + glob.glob(os.path.join("tests", "files", "issue*", "*.sun*"))
    )
    return [(os.path.relpath(f, os.path.join("tests", "files")).replace(os.sep, "/"), f)
            for f in files]


def all_modules(obj):
    if isinstance(obj, Synth):
        return [("module", obj.module)]
    return [("modules[%d]" % i, mod) for i, mod in enumerate(obj.modules) if mod]


def pick_module(obj, path):
    if path == "module":
        return obj.module
    return obj.modules[int(path[len("modules["):-1])]


# --------------------------------------------------------------------------


def check_roundtrips(raws):
    for name, raw in raws.items():
        obj = load(raw)
        out = obj.read()
        digest("roundtrip." + name, out)
        digest("names." + name, chunk_names(out))
        again = load(out)
        check(describe(again) == describe(obj), "round trip keeps state: " + name)
        check(again.read() == out, "round trip is a fixed point: " + name)
        digest("state." + name, sorted(flat(describe(obj)).items()))
        clone = obj.clone()
        check(describe(clone) == describe(obj), "container clone: " + name)
        check(clone is not obj, "clone is a new object: " + name)


def new_value_for(mod, k):
    ctl = mod.controllers[k]
    t = ctl.instance_value_type(mod)
    current = getattr(mod, k)
    if isinstance(t, Range):
        for candidate in (t.max, t.min, (t.min + t.max) // 2):
            if candidate != current:
                return candidate
        return None
    if isinstance(t, type) and issubclass(t, Enum):
        for member in t:
            if member != current:
                return member
        return None
    if t is bool:
        return not current
    return None


def check_module_edits(raws):
    """Every controller, option and common field of every module of every file."""
    for name, raw in raws.items():
        base_obj = load(raw)
        in_project = isinstance(base_obj, Project)
        for path, base_mod in all_modules(base_obj):
            key = "%s.%s" % (name, path)
            edits = []
            for k, ctl in base_mod.controllers.items():
                if not ctl.attached(base_mod):
                    continue
                edits.append(("ctl." + k, k, None))
            for k in base_mod.options:
                edits.append(("opt." + k, k, None))
            edits += [
                ("name", "name", "Edited é name that is rather long, over 32 bytes"),
                ("flags", "flags", base_mod.flags ^ 0x80),
                ("mod_finetune", "mod_finetune", -37),
                ("mod_relative_note", "mod_relative_note", 11),
                ("mod_scale", "mod_scale", 300),
                ("scale", "scale", 123) if "scale" not in base_mod.controllers else None,
                ("color", "color", (9, 8, 7)),
                ("midi_in_always", "midi_in_always", not base_mod.midi_in_always),
                ("midi_in_channel", "midi_in_channel", 5),
                ("midi_out_name", "midi_out_name", "some port"),
                ("midi_out_channel", "midi_out_channel", 3),
                ("midi_out_bank", "midi_out_bank", 17),
                ("midi_out_program", "midi_out_program", 99),
            ]
            if in_project:
                edits += [
                    ("x", "x", -40), ("y", "y", 4000), ("layer", "layer", 3),
                    ("visualization", "visualization", 0x01020304),
                ]
            for edit in edits:
                if edit is None:
                    continue
                label, attr, value = edit
                obj = load(raw)
                mod = pick_module(obj, path)
                if label.startswith("ctl."):
                    value = new_value_for(mod, attr)
                    if value is None:
                        continue
                elif label.startswith("opt."):
                    option = mod.options[attr]
                    current = getattr(mod, attr)
                    if option.size == 1:
                        value = not current
                    else:
                        top = option.max if option.max is not None else 2 ** option.size - 1
                        value = top if current != top else (option.min or 0)
                try:
                    setattr(mod, attr, value)
                except Exception as e:  # same refusal on both trees
                    digest("edit.%s.%s.refused" % (key, label), type(e).__name__)
                    continue
                edited = describe(obj)
                try:
                    out = obj.read()
                except Exception as e:
                    digest("edit.%s.%s.unsaved" % (key, label), type(e).__name__)
                    continue
                digest("edit.%s.%s" % (key, label), out)
                reloaded = describe(load(out))
                delta = diff_keys(reloaded, edited)
                digest("edit.%s.%s.delta" % (key, label), delta)
                if label == "name":
                    delta = [d for d in delta if not d.endswith("/name/")]
                if label.startswith(("ctl.", "opt.")) or label in (
                    "mod_finetune", "mod_relative_note", "mod_scale", "scale", "color",
                    "midi_in_always", "midi_in_channel", "midi_out_name",
                    "midi_out_channel", "midi_out_bank", "midi_out_program", "x", "y",
                    "layer", "visualization", "name",
                ):
                    check(not delta, "edit %s %s is what gets saved (%s)"
                          % (key, label, delta[:4]))


def check_project_edits(raws):
    for name, raw in raws.items():
        if not isinstance(load(raw), Project):
            continue
        base = describe(load(raw))
        edits = [
            ("sunvox_version", (1, 9, 6, 1)), ("based_on_version", (1, 2, 3, 4)),
            ("flags", 0x1234), ("initial_bpm", 90), ("initial_tpl", 3),
            ("global_volume", 256), ("name", "Edited project ü"), ("time_grid", 7),
            ("time_grid2", 9), ("modules_scale", 200), ("modules_zoom", 512),
            ("modules_x_offset", -50), ("modules_y_offset", 77),
            ("modules_layer_mask", 0xF0F0), ("modules_current_layer", 2),
            ("timeline_position", -12), ("timeline_position", 0),
            ("restart_position", 40), ("restart_position", 0),
            ("selected_module", 1), ("selected_generator", 0), ("current_pattern", 1),
            ("current_track", 2), ("current_line", 9),
            ("receive_sync_midi", Project.SyncCommand.tempo | Project.SyncCommand.position),
            ("receive_sync_other", Project.SyncCommand.position),
        ]
        for n, (attr, value) in enumerate(edits):
            obj = load(raw)
            setattr(obj, attr, value)
            edited = describe(obj)
            out = obj.read()
            digest("pedit.%s.%d.%s" % (name, n, attr), out)
            reloaded = describe(load(out))
            if attr == "sunvox_version":
                # the version a file was written with is reported separately
                check(load(out).loaded_sunvox_version == value, "VERS is written " + name)
                check(diff_keys(reloaded, edited) == ["sunvox_version/"], "VERS only " + name)
                continue
            check(reloaded == edited, "project edit %s %s is what gets saved (%s)"
                  % (name, attr, diff_keys(reloaded, edited)[:4]))
            expected = [attr + "/"] if base[attr] != value else []
            check(diff_keys(reloaded, base) == expected,
                  "project edit %s %s changes nothing else (%s)"
                  % (name, attr, diff_keys(reloaded, base)[:4]))
            names = chunk_names(out)
            check((b"TIME" in names) == (obj.timeline_position != 0), "TIME chunk " + name)
            check((b"REPS" in names) == (obj.restart_position != 0), "REPS chunk " + name)


def build_project():
    p = Project()
    p.name = "built"
    gen = p.new_module(m.AnalogGenerator, name="gen", x=100, y=200, layer=1)
    fm = p.new_module(m.Fm, color=(1, 2, 3))
    amp = p.new_module(m.Amplifier, volume=300)
    rev = p.new_module(m.Reverb)
    smp = p.new_module(m.Sampler)
    multi = p.new_module(m.MultiSynth)
    multi >> [gen, fm, smp]
    p.connect([gen, fm], amp)
    amp >> rev >> p.output
    smp >> rev
    gen >> rev
    pat = Pattern(tracks=2, lines=4, name="pat", x=0, y=0)
    p += pat
    pat.data[0][0].note = NOTE.C4
    pat.data[0][0].module = int(gen)
    pat.data[2][1].note = NOTE.E4
    pat.data[2][1].vel = 77
    p.attach_pattern(None)
    p += PatternClone(source=0, x=8, y=32)
    return p


def check_links():
    p = build_project()
    raw = p.read()
    digest("built.raw", raw)
    digest("built.names", chunk_names(raw))
    loaded = load(raw)
    check(describe(loaded) == describe(p), "built project round trip")
    # disconnect leaves -1 entries behind; slots get written when non-zero
    gen, fm, amp, rev = (loaded.modules[i] for i in (1, 2, 3, 4))
    loaded.connect(~gen, amp)
    loaded.connect(fm, rev)
    loaded.connect(loaded.modules[6], amp)
    raw2 = loaded.read()
    digest("built.relinked", raw2)
    names = chunk_names(raw2)
    check(b"SLnK" in names, "slot chunk written for non-zero slots")
    again = load(raw2)
    digest("built.relinked.links",
           [(mod.in_links, mod.in_link_slots) for mod in again.modules if mod])
    # a module slot freed and reused, an empty slot in the middle
    loaded = load(raw)
    loaded.modules[2] = None
    for mod in loaded.modules:
        if mod is not None:
            keep = [(l, s) for l, s in zip(mod.in_links, mod.in_link_slots) if l != 2]
            mod.in_links = [l for l, _ in keep]
            mod.in_link_slots = [s for _, s in keep]
    raw3 = loaded.read()
    digest("built.hole", raw3)
    again = load(raw3)
    check(again.modules[2] is None, "hole in the module list survives")
    check(describe(again) == describe(loaded), "project with a hole round trip")
    lfo = again.new_module(m.Lfo)
    check(lfo.index == 2, "free slot is reused")
    digest("built.hole.reused", again.read())
    # mismatched link / slot lists fail before anything of SLNK is produced
    loaded = load(raw)
    loaded.modules[4].in_link_slots = [0]
    gen_chunks = loaded.chunks()
    seen = []
    try:
        for name, data in gen_chunks:
            seen.append(name)
    except struct.error:
        pass
    else:
        check(False, "mismatched slots raise struct.error")
    check(seen.count(b"SLNK") == 4, "error comes before the 5th SLNK (%d)" % seen.count(b"SLNK"))
    check(seen[-1] == b"SMIP", "last chunk before the error is SMIP: %r" % seen[-1])


def check_options_units():
    from rv.modules import MODULE_CLASSES

    for mtype in sorted(MODULE_CLASSES):
        cls = MODULE_CLASSES[mtype]
        if not cls.options:
            mod = cls()
            check(list(Module.specialized_iff_chunks(mod)) == [(None, None)],
                  "no options -> placeholder chunk " + mtype)
            continue
        names = sorted(cls.options)
        for variant in range(4):
            mod = cls()
            for i, k in enumerate(names):
                option = cls.options[k]
                if option.size == 1:
                    value = bool((i + variant) % 2) if variant < 2 else bool(variant % 2)
                else:
                    top = option.max if option.max is not None else 2 ** option.size - 1
                    low = option.min or 0
                    value = (low, top, (low + top) // 2, top)[variant]
                setattr(mod, k, value)
            out = list(mod.options_chunks())
            check([n for n, _ in out] == [b"CHNM", b"CHDT"], "options chunk names " + mtype)
            check(out[0][1] == pack("<I", cls.options_chnm), "options chnm " + mtype)
            digest("options.%s.%d" % (mtype, variant), out[1][1])
            # load into a fresh module; short, exact and over-long payloads
            for pad in (0, 3, 70):
                chunk = Chunk()
                chunk.chnm, chunk.chdt = cls.options_chnm, out[1][1] + b"\0" * pad
                fresh = cls()
                fresh.load_options(chunk)
                check(fresh.option_values == mod.option_values,
                      "options reload %s v%d pad%d" % (mtype, variant, pad))
                check(all(type(fresh.option_values[k]) is type(mod.option_values[k])
                          for k in names), "option value types " + mtype)
            chunk = Chunk()
            chunk.chnm, chunk.chdt = cls.options_chnm, b""
            fresh = cls()
            fresh.load_options(chunk)
            digest("options.empty.%s.%d" % (mtype, variant), sorted(fresh.option_values.items()))
        mod = cls()
        mod.option_values[names[0]] = None
        try:
            list(mod.options_chunks())
        except TypeError:
            pass
        else:
            check(False, "None option value raises TypeError " + mtype)


def check_metamodule():
    p = Project()
    gen = p.new_module(m.Generator)
    amp = p.new_module(m.Amplifier)
    gen >> amp >> p.output
    for count in (0, 1, 3, 96):
        mm = MetaModule(project=p.clone() if count else p)
        mm.user_defined_controllers = count
        check([c.attached(mm) for c in mm.user_defined] == [i < count for i in range(96)],
              "attachment follows the controller count (%d)" % count)
        mm.mappings.values[0].module, mm.mappings.values[0].controller = 1, 0
        mm.mappings.values[1].module, mm.mappings.values[1].controller = 2, 0
        mm.user_defined[0].label = "Volume"
        mm.user_defined[1].label = "Amp ä"
        mm.user_defined[5].label = "never attached" if count < 6 else "Six"
        raw = Synth(mm).read()
        digest("metamodule.%d" % count, raw)
        digest("metamodule.%d.names" % count, chunk_names(raw))
        loaded = load(raw)
        check(describe(loaded) == describe(Synth(mm)), "metamodule round trip %d" % count)
        got = loaded.module
        check([c.label for c in got.user_defined[:2]]
              == (["Volume", "Amp ä"][:count] + [None, None])[:2],
              "labels of attached controllers are saved (%d)" % count)
        # lowering the count detaches, raising re-attaches
        got.user_defined_controllers = 2
        check([c.attached(got) for c in got.user_defined[:4]] == [True, True, False, False],
              "count lowered to 2")
        raw2 = loaded.read()
        digest("metamodule.%d.two" % count, raw2)
        # clone via Module.clone
        twin = got.clone()
        check(twin is not got and describe_module(twin, False) == describe_module(got, False),
              "module clone (%d)" % count)
        # inside a project
        outer = Project()
        outer.attach_module(got)
        got >> outer.output
        raw3 = outer.read()
        digest("metamodule.%d.in_project" % count, raw3)
        check(describe(load(raw3)) == describe(outer), "metamodule in project %d" % count)
    for path in sorted(glob.glob(os.path.join("tests", "files", "metamodule*.sunsynth"))):
        synth = read_sunvox_file(path)
        mod = synth.module
        name = os.path.basename(path)
        for k in mod.options:
            before = getattr(mod, k)
            setattr(mod, k, not before if isinstance(before, bool) else before)
        mod.user_defined_controllers = min(96, mod.user_defined_controllers + 1)
        raw = synth.read()
        digest("metamodule.file." + name, raw)
        check(describe(load(raw)) == describe(synth), "edited " + name)


def check_errors():
    try:
        Synth().read()
    except EmptySynthError:
        pass
    else:
        check(False, "empty synth raises EmptySynthError")
    gen = Synth(None).chunks()
    try:
        next(gen)
    except EmptySynthError:
        pass
    else:
        check(False, "empty synth raises before the magic chunk")
    try:
        list(Module().iff_chunks())
    except RuntimeError:
        pass
    else:
        check(False, "base Module cannot be serialized")
    # module clone
    amp = m.Amplifier(volume=123, name="amp", x=5)
    twin = amp.clone()
    check(twin is not amp and twin.volume == 123 and twin.name == "amp", "Module.clone")
    check(twin.parent is None and twin.x == 512, "clone goes through a synth (no position)")
    p = Project()
    p.attach_module(amp)
    twin = amp.clone()
    check(twin.parent is None and twin.index is None, "clone of an attached module is free")
    digest("clone.amp", Synth(twin).read())
    # controller out of range is refused when set, so nothing stale is written
    try:
        amp.volume = 5000
    except Exception as e:
        digest("amp.range", type(e).__name__)
    check(amp.volume == 123, "refused value does not stick")
    # a synth keeps the module's chunks in order
    names = chunk_names(Synth(m.Sampler()).read())
    check(names[:2] == [b"SSYN", b"VERS"] and names[-1] == b"SEND", "synth frame")
    check(names.index(b"CMID") < names.index(b"CHNK"), "CMID before CHNK")
    names = chunk_names(Synth(m.Feedback()).read()) if hasattr(m, "Feedback") else []
    digest("feedback.names", names)


def main():
    raws = {}
    for name, path in fixture_files():
        with open(path, "rb") as f:
            raws[name] = f.read()
    check(len(raws) >= 50, "fixtures found (%d)" % len(raws))
    check_roundtrips(raws)
    check_module_edits(raws)
    check_project_edits(raws)
    check_links()
    check_options_units()
    check_metamodule()
    check_errors()
    blob = "\n".join("%s %s" % kv for kv in sorted(DIGESTS.items()))
    total = hashlib.sha256(blob.encode()).hexdigest()
    if os.environ.get("CHECK_DUMP"):
        print(total, len(DIGESTS))
        return 1 if FAILURES else 0
    check(len(DIGESTS) == EXPECTED_COUNT, "digest count %d" % len(DIGESTS))
    check(total == EXPECTED_TOTAL, "combined digest of all produced bytes %s" % total)
    if FAILURES:
        print("FAILED (%d)" % len(FAILURES))
        return 1
    print("PASS (%d digests, %s)" % (len(DIGESTS), total[:12]))
    return 0


EXPECTED_COUNT = 3809
EXPECTED_TOTAL = "2129ff876027d32af50178d91718d89c30a03ada5948ab1fc3d8922e01a26932"

if __name__ == "__main__":
    sys.exit(main())
