"""Behaviour check for Module.__init__ / clone / options / cmid (property C17)."""
import logging
import sys
from collections import defaultdict
from struct import pack

import rv.api  # noqa: F401
from rv.cmidmap import ControllerMidiMap, MidiMessageType, Slope
from rv.errors import ControllerValueError
from rv.modules import MODULE_CLASSES, Chunk, Module
from rv.synth import Synth

failures = []


def check(cond, msg):
    if not cond:
        failures.append(msg)


def raises(exc, fn):
    try:
        fn()
    except exc:
        return True
    except BaseException:
        return False
    return False


class Capture(logging.Handler):
    def __init__(self):
        super().__init__()
        self.records = []

    def emit(self, record):
        self.records.append(record.getMessage())


cap = Capture()
logging.getLogger("rv").addHandler(cap)
logging.getLogger("rv").setLevel(logging.DEBUG)
logging.getLogger("rv").propagate = False

PLAIN = {
    "index": None,
    "parent": None,
    "mod_finetune": 0,
    "mod_relative_note": 0,
    "x": 512,
    "y": 512,
    "layer": 0,
    "mod_scale": 256,
    "color": (255, 255, 255),
    "midi_in_always": False,
    "midi_in_channel": 0,
    "midi_out_name": None,
    "midi_out_channel": 0,
    "midi_out_bank": -1,
    "midi_out_program": -1,
    "_visualization": 0x000C0101,
    "in_links": [],
    "in_link_slots": [],
    "out_links": [],
    "out_link_slots": [],
}
PER_INSTANCE = [
    "controller_values",
    "controllers_loaded",
    "controller_midi_maps",
    "option_values",
    "in_links",
    "in_link_slots",
    "out_links",
    "out_link_slots",
]


def synth_bytes(mod):
    import io

    f = io.BytesIO()
    Synth(mod).write_to(f)
    return f.getvalue()


def snapshot(mod):
    d = {}
    for k, v in vars(mod).items():
        if k in ("controller_values", "option_values"):
            d[k] = dict(v)
        elif k == "controllers_loaded":
            d[k] = set(v)
        elif k == "controller_midi_maps":
            d[k] = {n: m.cmid_data for n, m in v.items()}
        elif k in PLAIN:
            d[k] = list(v) if isinstance(v, list) else v
    d["name"] = mod.name
    return d


names = sorted(MODULE_CLASSES)
check(len(names) > 30, "expected many module classes")
for mtype in names:
    cls = MODULE_CLASSES[mtype]
    a, b = cls(), cls()
    n = cls.__name__
    # defaults
    for k, v in PLAIN.items():
        check(vars(a)[k] == v, f"{n}.{k} default {vars(a)[k]!r}")
    if mtype == "Output":
        check(a.name == "Output" and "name" not in vars(a), "Output: fixed name property")
    else:
        check("name" in vars(a) and a.name == cls.name, f"{n}: name default")
    check(type(a.controller_values) is dict and type(a.option_values) is dict, f"{n}: dict types")
    check(type(a.controllers_loaded) is set, f"{n}: set type")
    check(
        type(a.controller_midi_maps) is defaultdict
        and a.controller_midi_maps.default_factory is ControllerMidiMap
        and len(a.controller_midi_maps) == 0,
        f"{n}: midi maps",
    )
    check(list(a.controller_values) != [] or not cls.controllers, f"{n}: controller values filled")
    # order of insertion: independent first, then dependent ones
    from rv.controller import DependentRange

    indep = [k for k, c in cls.controllers.items() if not isinstance(c.value_type, DependentRange)]
    dep = [k for k, c in cls.controllers.items() if isinstance(c.value_type, DependentRange)]
    check(list(a.controller_values) == indep + dep, f"{n}: controller init order")
    check(a.controllers_loaded == set(cls.controllers), f"{n}: controllers_loaded")
    for k, c in cls.controllers.items():
        check(a.controller_values[k] == c.default or isinstance(c.default, str), f"{n}.{k} default value")
    check(list(a.option_values) == list(cls.options) or bool(
        [o for o in cls.options.values() if o.exclusive_of]
    ), f"{n}: option order")
    for k, o in cls.options.items():
        check(getattr(a, k) == o.default, f"{n}.{k} option default {getattr(a, k)!r} != {o.default!r}")
    # no aliasing
    for attr in PER_INSTANCE:
        check(getattr(a, attr) is not getattr(b, attr), f"{n}.{attr} shared between instances")
    check(
        len({id(a.in_links), id(a.in_link_slots), id(a.out_links), id(a.out_link_slots)}) == 4,
        f"{n}: link tables must be distinct lists",
    )
    snap_b = snapshot(b)
    bytes_b = synth_bytes(b)
    snap_b = snapshot(b)  # saving may touch midi maps; take after save
    # mutate a thoroughly
    for k, c in cls.controllers.items():
        if k.startswith("user_defined_") and k != "user_defined_controllers":
            continue  # unmapped MetaModule controllers cannot be set
        t = c.instance_value_type(a)
        try:
            if hasattr(t, "max") and hasattr(t, "min"):
                setattr(a, k, t.max if a.controller_values[k] != t.max else t.min)
            elif t is bool:
                setattr(a, k, not a.controller_values[k])
            elif isinstance(t, type):
                members = list(t)
                setattr(a, k, members[-1] if a.controller_values[k] != members[-1] else members[0])
        except Exception as e:  # noqa
            check(False, f"{n}.{k}: mutation failed {e!r}")
    for k, o in cls.options.items():
        cur = getattr(a, k)
        if isinstance(cur, bool):
            setattr(a, k, not cur)
        else:
            setattr(a, k, (o.max if o.max is not None else 1))
    a.in_links.append(3)
    a.in_link_slots.append(0)
    a.out_links.append(4)
    a.out_link_slots.append(1)
    a.x, a.y, a.layer, a.color, a.name = 1, 2, 3, (1, 2, 3), "changed"
    a.mod_finetune, a.mod_relative_note, a.scale = 5, -5, 300
    a.midi_out_name, a.midi_in_channel = "dev", 3
    a.controller_midi_maps["whatever"].channel = 4
    check(snapshot(b) == snap_b, f"{n}: mutating a changed b's state")
    check(synth_bytes(b) == bytes_b, f"{n}: mutating a changed b's bytes")
    c = cls()
    c_bytes = synth_bytes(c)
    check(c_bytes == bytes_b, f"{n}: fresh instance bytes differ after history")
    # clone: independent both ways
    a_bytes = synth_bytes(a)
    k = a.clone()
    if mtype == "Output":
        # Output modules carry no type tag, so they load back as a bare Module.
        check(type(k) is Module and k.name == "Output", "Output clone")
        continue
    check(type(k) is cls and k is not a, f"{n}: clone type")
    check(synth_bytes(k) == a_bytes, f"{n}: clone bytes differ")
    check(synth_bytes(a) == a_bytes, f"{n}: cloning changed the original")
    for attr in PER_INSTANCE:
        check(getattr(a, attr) is not getattr(k, attr), f"{n}.{attr} shared with clone")
    k.name = "clone"
    k.in_links.append(9)
    for ck, cc in cls.controllers.items():
        if cc.instance_value_type(k) is bool:
            setattr(k, ck, not getattr(k, ck))
    for ok in cls.options:
        if isinstance(getattr(k, ok), bool):
            setattr(k, ok, not getattr(k, ok))
    check(synth_bytes(a) == a_bytes, f"{n}: mutating clone changed original")
    k2 = a.clone()
    a.name = "orig2"
    a.in_links.clear()
    check(synth_bytes(k2) == a_bytes, f"{n}: mutating original changed clone")

# ------------------------------------------------------------------ keywords
from rv.modules.amplifier import Amplifier
from rv.modules.echo import Echo
from rv.modules.smooth import Smooth

sentinel_parent = object()
m = Amplifier(
    index=7,
    parent=None,
    finetune=11,
    relative_note=-3,
    x=1,
    y=2,
    layer=3,
    mod_scale=111,
    color=(9, 8, 7),
    midi_in_always=True,
    midi_in_channel=5,
    midi_out_name="out",
    midi_out_channel=6,
    midi_out_bank=7,
    midi_out_program=8,
    name="amp!",
    visualization=0x1234,
    volume=300,
    inverse=True,
    bogus="ignored",
)
got = {k: vars(m)[k] for k in PLAIN}
want = dict(
    PLAIN,
    index=7,
    mod_finetune=11,
    mod_relative_note=-3,
    x=1,
    y=2,
    layer=3,
    mod_scale=111,
    color=(9, 8, 7),
    midi_in_always=True,
    midi_in_channel=5,
    midi_out_name="out",
    midi_out_channel=6,
    midi_out_bank=7,
    midi_out_program=8,
    _visualization=0x1234,
)
check(got == want, f"keyword handling: {got!r}")
check(m.name == "amp!" and m.volume == 300 and m.inverse is True, "kw name/controller")
check(not hasattr(m, "bogus") and "finetune" not in vars(m), "unknown kw ignored")
check(int(m.visualization) == 0x1234, "visualization property")
check(Amplifier(name=None).name == "Amplifier" and "name" in vars(Amplifier(name=None)), "name=None")
check(Amplifier(name="").name == "", "empty name kept")
check(Amplifier(scale=77).mod_scale == 77, "scale kw sets mod_scale")
check(Amplifier(scale=77, mod_scale=5).mod_scale == 77, "scale kw wins over mod_scale")
check(Amplifier(mod_scale=5).scale == 5, "mod_scale kw")
s = Smooth(scale=77)
check(s.mod_scale == 256 and s.controller_values["scale"] == 77, "Smooth: scale is a controller")
check(Smooth(scale=77, mod_scale=9).mod_scale == 9, "Smooth: mod_scale kw")
check(raises(ControllerValueError, lambda: Amplifier(volume=100000)), "out of range kw")
check(raises(KeyError, lambda: Amplifier(dc_offset=0) and Echo(delay_unit="nope")), "bad enum name")
check(Echo(delay_unit="ms").delay_unit is Echo.DelayUnit.ms, "enum by name")

# dependent range controllers are validated after the controller they depend on
cap.records.clear()
e = Echo(delay=3000, delay_unit=Echo.DelayUnit.ms)
check(cap.records == [], f"no warning expected, got {cap.records}")
check(e.delay == 3000, "dependent value kept")
cap.records.clear()
e = Echo(delay=3000)
check(len(cap.records) == 1, f"one range warning expected, got {cap.records}")
check(e.delay == 3000, "warn-only keeps value")
cap.records.clear()

# base Module
base = Module()
check(base.controller_values == {} and base.option_values == {} and base.name == "", "base Module")
check(raises(RuntimeError, lambda: list(base.iff_chunks())), "base Module cannot serialize")
check(Module.controllers == {} and Module.options == {}, "class registries untouched")

# --------------------------------------------------------- options save/load
for mtype in names:
    cls = MODULE_CLASSES[mtype]
    if not cls.options:
        a = cls()
        if type(a).specialized_iff_chunks is Module.specialized_iff_chunks:
            check(list(a.specialized_iff_chunks()) == [(None, None)], f"{mtype}: no options chunk")
        continue
    a = cls()
    chunks = list(a.options_chunks())
    check(chunks[0] == (b"CHNM", pack("<I", cls.options_chnm)), f"{mtype}: options CHNM")
    nbytes = max(o.byte for o in cls.options.values()) + 1
    expect = [0] * nbytes
    for o in cls.options.values():
        expect[o.byte] |= (int(a.option_values[o.name]) & (2**o.size - 1)) << o.bit
    check(chunks[1] == (b"CHDT", bytes(expect)), f"{mtype}: options CHDT {chunks[1]!r}")
    # load: all ones, all zeros, short, long, roundtrip
    for payload in (b"\xff" * 64, b"", b"\xaa", b"\x55" * 80, chunks[1][1]):
        b = cls()
        ch = Chunk()
        ch.chnm, ch.chdt = cls.options_chnm, payload
        b.load_options(ch)
        padded = list(payload) + [0] * max(0, 64 - len(payload))
        for o in cls.options.values():
            raw = (padded[o.byte] >> o.bit) & (2**o.size - 1)
            want_v = bool(raw) if o.size == 1 else raw
            gv = b.option_values[o.name]
            check(gv == want_v and type(gv) is type(want_v), f"{mtype}.{o.name}: load {payload[:2]!r}")
        check(a.option_values == cls().option_values, f"{mtype}: load_options leaked")
    b = cls()
    ch = Chunk()
    ch.chnm, ch.chdt = cls.options_chnm, chunks[1][1]
    b.load_options(ch)
    check(list(b.options_chunks()) == chunks, f"{mtype}: options roundtrip")
    ch.chdt = None
    check(raises(TypeError, lambda: b.load_options(ch)), f"{mtype}: chdt None -> TypeError")
    del b.option_values[next(iter(cls.options.values())).name]
    check(raises(TypeError, lambda: list(b.options_chunks())), f"{mtype}: missing option -> TypeError")

# ------------------------------------------------------------------ load_cmid
rec = lambda t, ch, sl, p: pack("<BBBBHBB", t, ch, sl, 0, p, 0, 0xC8)  # noqa
a, b = Echo(), Echo()
ctl_names = list(Echo.controllers)
data = rec(3, 1, 2, 74) + rec(1, 15, 5, 0x1234) + b"\x03\x02"  # third record truncated
a.load_cmid(data)
check(list(a.controller_midi_maps) == ctl_names[:2], f"cmid: only full records loaded {list(a.controller_midi_maps)}")
m0 = a.controller_midi_maps[ctl_names[0]]
check((m0.message_type, m0.channel, m0.slope, m0.message_parameter) == (MidiMessageType.control_change, 1, Slope.exp2, 74), "cmid rec 0")
m1 = a.controller_midi_maps[ctl_names[1]]
check((m1.message_type, m1.channel, m1.slope, m1.message_parameter) == (MidiMessageType.note, 15, Slope.toggle, 0x1234), "cmid rec 1")
check(len(b.controller_midi_maps) == 0, "cmid leaked to other instance")
a.load_cmid(b"")
check(len(a.controller_midi_maps) == 2, "empty cmid is a no-op")
long = b"".join(rec(3, i % 16, 0, i) for i in range(len(ctl_names) + 4))
b.load_cmid(long)
check(list(b.controller_midi_maps) == ctl_names, "extra cmid records ignored")
check([b.controller_midi_maps[nm].message_parameter for nm in ctl_names] == list(range(len(ctl_names))), "cmid order")
check(raises(ValueError, lambda: Echo().load_cmid(rec(99, 0, 0, 0))), "bad message type -> ValueError")
k = b.clone()
check([k.controller_midi_maps[nm].cmid_data for nm in ctl_names] == [b.controller_midi_maps[nm].cmid_data for nm in ctl_names], "clone keeps midi maps")
k.controller_midi_maps[ctl_names[0]].channel = 9
check(b.controller_midi_maps[ctl_names[0]].channel == 0, "clone midi maps independent")

if failures:
    print("FAIL")
    for f_ in failures[:60]:
        print(" -", f_)
    print(len(failures), "failures")
    sys.exit(1)
print("PASS")
