"""Behaviour check: Module options/CMID/clone and per-type chunk save/load pairs."""
import contextlib
import io
import random
import struct
import sys

from rv.api import Project, m
from rv.chunks import DrawnWaveformChunk, WaveformChunk
from rv.cmidmap import MidiMessageType, Slope
from rv.modules import MODULE_CLASSES
from rv.modules.module import Chunk
from rv.readers.reader import read_sunvox_file
from rv.synth import Synth

failures = []


def check(cond, msg):
    if not cond:
        failures.append(msg)


def quiet(fn, *a, **kw):
    # AnalogGenerator(samples=...) prints; keep our output clean
    with contextlib.redirect_stdout(io.StringIO()):
        return fn(*a, **kw)


def roundtrip(mod):
    f = io.BytesIO()
    Synth(mod).write_to(f)
    f.seek(0)
    return read_sunvox_file(f).module


def via_project(mod_cls, **kw):
    p = Project()
    mod = quiet(p.new_module, mod_cls, **kw)
    return p, mod


def project_roundtrip(p):
    f = io.BytesIO()
    p.write_to(f)
    f.seek(0)
    return read_sunvox_file(f)


def ref_option_bytes(mod):
    """Independent re-statement of the option byte map layout."""
    bm = [0] * 64
    n = 0
    for o in mod.options.values():
        v = int(mod.option_values[o.name]) & ((1 << o.size) - 1)
        bm[o.byte] |= v << o.bit
        n = max(n, o.byte + 1)
    return bytes(bm[:n])


rng = random.Random(1234)

# --- options: every module type that has options ------------------------------
with_options = [cls for t, cls in sorted(MODULE_CLASSES.items()) if cls.options]
check(len(with_options) >= 4, "expected several module types with options")
for cls in with_options:
    for trial in range(6):
        mod = cls()
        for o in cls.options.values():
            if o.size == 1:
                raw = {0: False, 1: True}.get(trial, rng.random() < 0.5)
            elif None not in (o.min, o.max):
                raw = {0: o.min, 1: o.max}.get(trial, rng.randint(o.min, o.max))
            else:
                raw = {0: 0, 1: (1 << o.size) - 1}.get(trial, rng.randrange(1 << o.size))
            mod.option_values[o.name] = raw
        got = list(mod.options_chunks())
        check(got[0] == (b"CHNM", struct.pack("<I", cls.options_chnm)), cls.__name__ + " options CHNM")
        check(got[1] == (b"CHDT", ref_option_bytes(mod)), "%s options CHDT trial %d" % (cls.__name__, trial))
        check(len(got) == 2, "two option chunks")
        # load back into a fresh instance
        fresh = cls()
        c = Chunk()
        c.chnm, c.chdt = cls.options_chnm, got[1][1]
        fresh.load_options(c)
        for o in cls.options.values():
            want = mod.option_values[o.name]
            have = fresh.option_values[o.name]
            check(have == want and type(have) is (bool if o.size == 1 else int),
                  "%s.%s option load %r vs %r" % (cls.__name__, o.name, have, want))
        # truncated and over-long byte maps
        c.chdt = got[1][1][:1]
        short = cls()
        short.load_options(c)
        for o in cls.options.values():
            if o.byte >= 1:
                check(not short.option_values[o.name], "missing bytes read as zero")
        c.chdt = got[1][1] + b"\xff" * 80
        long_ = cls()
        long_.load_options(c)
        check(all(long_.option_values[o.name] == fresh.option_values[o.name] for o in cls.options.values()),
              "extra bytes ignored")
        rt = roundtrip(mod)
        check(rt.option_values == fresh.option_values, cls.__name__ + " options roundtrip")

mod = m.MultiSynth()
mod.option_values["use_static_note_C5"] = None
try:
    list(mod.options_chunks())
    check(False, "None option value must raise")
except TypeError:
    pass
try:
    c = Chunk()
    m.MultiSynth().load_options(c)  # chdt is None
    check(False, "None chdt must raise")
except TypeError:
    pass
# module without options
amp = m.Amplifier()
check(list(amp.specialized_iff_chunks()) == [(None, None)], "no options -> placeholder")
check(list(amp.options_chunks()) == [(b"CHNM", struct.pack("<I", 0)), (b"CHDT", b"")], "empty options chunk")

# --- CMID ---------------------------------------------------------------------
amp = m.Amplifier()
names = list(amp.controllers)
for i, n in enumerate(names):
    mm = amp.controller_midi_maps[n]
    mm.channel = i
    mm.message_type = list(MidiMessageType)[i % len(MidiMessageType)]
    mm.message_parameter = 1000 + i
    mm.slope = list(Slope)[i % len(Slope)]
full = b"".join(amp.controller_midi_maps[n].cmid_data for n in names)
for cut in (0, 1, 7, 8, 9, 15, 16, len(full) - 1, len(full), len(full) + 5, len(full) + 8):
    tgt = m.Amplifier()
    tgt.load_cmid((full + b"\x01" * 16)[:cut] if cut > len(full) else full[:cut])
    n_complete = min(cut // 8, len(names))
    check(set(tgt.controller_midi_maps) == set(names[:n_complete]), "cut %d touches %d maps (%r)" % (cut, n_complete, list(tgt.controller_midi_maps)))
    for n in names[:n_complete]:
        check(tgt.controller_midi_maps[n].cmid_data == amp.controller_midi_maps[n].cmid_data, "cmid %s cut %d" % (n, cut))
cl = amp.clone()
check(all(cl.controller_midi_maps[n].cmid_data == amp.controller_midi_maps[n].cmid_data for n in names), "cmid clone")
try:
    m.Amplifier().load_cmid(b"\x63" + b"\0" * 7)  # invalid message type
    check(False, "invalid message type must raise")
except ValueError:
    pass

# --- clone for every type -------------------------------------------------------
for t, cls in sorted(MODULE_CLASSES.items()):
    if t == "Output":
        continue
    src = cls()
    dup = src.clone()
    check(type(dup) is cls and dup is not src, t + " clone type")
    for cname, ctl in cls.controllers.items():
        if ctl.attached(src):
            check(dup.get_raw(cname) == src.get_raw(cname), "%s.%s" % (t, cname))
    check(dup.option_values == src.option_values, t + " clone options")
    check(Synth(dup).read() == Synth(src).read(), t + " clone bytes identical")

# --- drawn waveforms -------------------------------------------------------------
edge = [-128, 127, 0, -1, 1, 126, -127, 64] * 4
for cls in (m.Generator, m.AnalogGenerator):
    src = quiet(cls, samples=edge)
    check(src.drawn_waveform.bytes == bytes(y & 255 for y in edge), cls.__name__ + " bytes")
    names_ = [n for n, _ in src.specialized_iff_chunks() if n]
    check(names_[:4] == [b"CHNM", b"CHDT", b"CHFR"][:3] + names_[3:4], cls.__name__ + " chunk names %r" % names_)
    dup = roundtrip(src)
    check(dup.drawn_waveform.samples == edge, cls.__name__ + " samples roundtrip")
    check(dup.drawn_waveform.format is WaveformChunk.Format.mono_8bit, "format")
    check(dup.drawn_waveform.freq == 44100, "freq")
    # explicit chunk load
    c = Chunk()
    c.chnm, c.chdt, c.chff, c.chfr = 0, bytes(range(256)), 0, 22050
    tgt = cls()
    tgt.load_chunk(c)
    check(tgt.drawn_waveform.samples == list(range(128)) + list(range(-128, 0)), "unsigned->signed full range")
    check(tgt.drawn_waveform.format is WaveformChunk.Format.mono_8bit and tgt.drawn_waveform.freq == 22050, "chff 0 -> mono_8bit")
    c.chff = 2
    tgt.load_chunk(c)
    check(tgt.drawn_waveform.format is WaveformChunk.Format.mono_16bit, "chff 2")
    try:
        tgt.drawn_waveform.bytes
        check(False, "16 bit must be NotImplemented")
    except NotImplementedError:
        pass
    c.chff = 3
    c.chdt = b"\x80"
    try:
        tgt.load_chunk(c)
        check(False, "bad chff must raise")
    except ValueError:
        pass
    check(tgt.drawn_waveform.samples == [-128], "samples assigned before format validation")
    c.chnm = 9
    c.chdt = b"\x00"
    tgt.load_chunk(c)
    check(tgt.drawn_waveform.samples == [-128], "unknown chnm ignored")
    # project context
    p, pm = via_project(cls, samples=edge)
    pm >> p.output
    p2 = project_roundtrip(p)
    check(p2.modules[1].drawn_waveform.samples == edge, cls.__name__ + " in project")

g = m.Generator()
check(g.chnk is False and g.drawn_waveform.is_default, "default generator has no chunks")
check(list(g.drawn_waveform.chunks()) == [], "default waveform not written")
check(b"CHNK" not in [n for n, _ in Synth(g).chunks()], "no CHNK for default generator")
g.drawn_waveform.samples = list(DrawnWaveformChunk.default)
g.drawn_waveform.samples[0] = 5
check(g.chnk == 4, "edited generator has chunks")
check([n for n, _ in g.drawn_waveform.chunks()] == [b"CHNM", b"CHDT", b"CHFR"], "waveform chunk names")
ag = m.AnalogGenerator()
check([n for n, _ in ag.specialized_iff_chunks()] == [b"CHNM", b"CHDT"], "default analog gen only writes options")
w = WaveformChunk()
check(w.samples == [] and w.format is None and w.bytes == b"", "bare WaveformChunk")
w.samples = [-1, 255, 256, -129]
check(w.bytes == bytes([255, 255, 0, 127]), "wraps to low 8 bits")

# --- SpectraVoice ----------------------------------------------------------------
HT = m.SpectraVoice.HarmonicType
sv = m.SpectraVoice(harmonics=[(22050 - 7 * i, 255 - 16 * i, i * 17, list(HT)[i % len(HT)]) for i in range(16)])
spec = [c for c in sv.specialized_iff_chunks()]
check([struct.unpack("<I", d)[0] for n, d in spec if n == b"CHNM"] == [0, 1, 2, 3], "spectravoice CHNM order")
check(spec[-1] == (None, None), "placeholder last")
dup = roundtrip(sv)
for i, (a, b) in enumerate(zip(sv.harmonics, dup.harmonics)):
    check((a.freq_hz, a.volume, a.width, a.type) == (b.freq_hz, b.volume, b.width, b.type), "harmonic %d" % i)
check(dup.harmonic_types.values == sv.harmonic_types.values, "types array")
c = Chunk()
tgt = m.SpectraVoice()
for chnm, fmt, vals, attr in [
    (0, "<16H", list(range(0, 32768, 2048)), "freq_hz"),
    (1, "<16B", list(range(255, 255 - 16, -1)), "volume"),
    (2, "<16B", list(range(16)), "width"),
    (3, "<16B", [i % len(HT) for i in range(16)], "type"),
]:
    c.chnm, c.chdt = chnm, struct.pack(fmt, *vals)
    tgt.load_chunk(c)
    check([getattr(h, attr) for h in tgt.harmonics] == [HT(v) for v in vals] if attr == "type" else
          [getattr(h, attr) for h in tgt.harmonics] == vals, "harmonic view " + attr)
c.chnm, c.chdt = 4, b"\xff" * 32
before = Synth(tgt).read()
tgt.load_chunk(c)
check(Synth(tgt).read() == before, "unknown spectravoice chunk ignored")
c.chnm, c.chdt = 1, b"\x07\x08"  # short: only first two harmonics updated
tgt.load_chunk(c)
check([h.volume for h in tgt.harmonics][:3] == [7, 8, 253], "short volume chunk")

# --- MultiSynth -------------------------------------------------------------------
ms = m.MultiSynth(nv_values=[(i * 3) % 256 for i in range(128)], vv_values=[(i * 5) % 256 for i in range(257)])
spec = list(ms.specialized_iff_chunks())
check([struct.unpack("<I", d)[0] for n, d in spec if n == b"CHNM"] == [0, 1, 2], "multisynth CHNM order, np omitted")
ms.np_curve.values = [65535 - 3 * i for i in range(128)]
spec = list(ms.specialized_iff_chunks())
check([struct.unpack("<I", d)[0] for n, d in spec if n == b"CHNM"] == [0, 1, 2, 3], "np written when edited")
dup = ms.clone()
check((dup.nv_curve.values, dup.vv_curve.values, dup.np_curve.values) ==
      (ms.nv_curve.values, ms.vv_curve.values, ms.np_curve.values), "multisynth curves")
c = Chunk()
tgt = m.MultiSynth()
c.chnm, c.chdt = 1, b"\xff" * 8
tgt.load_chunk(c)
check(all(bool(v) for v in tgt.option_values.values()), "chnm 1 is options")
check(tgt.option_values["active_curve"] == 3 and tgt.option_values["out_port_mode"] == 3, "2-bit options")
check(tgt.nv_curve.values == [255] * 128, "options chunk leaves curves alone")
c.chnm, c.chdt = 5, b"\x00" * 128
tgt.load_chunk(c)
check(tgt.nv_curve.values == [255] * 128 and tgt.np_curve.values == tgt.np_curve.default, "unknown chnm ignored")
for chnm, attr, data, want in [
    (0, "nv_curve", bytes(range(128)), list(range(128))),
    (2, "vv_curve", bytes([9] * 257), [9] * 257),
    (3, "np_curve", struct.pack("<128H", *range(128)), list(range(128))),
]:
    c.chnm, c.chdt = chnm, data
    tgt.load_chunk(c)
    check(getattr(tgt, attr).values == want, "multisynth load " + attr)
p, pm = via_project(m.MultiSynth, nv_values=[1] * 128)
pm >> p.output
check(project_roundtrip(p).modules[1].nv_curve.values == [1] * 128, "multisynth in project")

# --- Vorbis / WaveShaper / Fmx quick roundtrip ---------------------------------------
vp = m.VorbisPlayer(data=bytes(range(256)) * 3)
check(vp.clone().data == vp.data, "vorbis data")
check(m.VorbisPlayer().clone().data == b"", "empty vorbis data")
ws = m.WaveShaper(values=list(range(0, 65536, 256)))
check(ws.clone().curve.values == ws.curve.values, "waveshaper")

if failures:
    print("FAIL")
    for f_ in failures:
        print(" -", f_)
    sys.exit(1)
print("PASS")
