"""Behaviour check for Controller.pattern_value and unit-dependent ranges.

Focus: the pattern-column (XXYY) encoding of every controller of every module type
(ranged: monotone, min -> 0x0000, max -> 0x8000; compact: value - min; enum/bool:
unchanged), Controller.instance_value_type, DependentRange.parent in all loading
states, and the order in which Module.__init__ loads (unit-dependent) controllers.

Run from the repository root:
    PYTHONPATH=<root>/src/python python check.py
"""

import logging
import sys
from enum import Enum

import rv.api  # noqa: F401  (makes sure every module class is registered)
from rv import controller as C
from rv.controller import (
    CompactRange,
    Controller,
    DependentRange,
    NoOffsetRange,
    Range,
    WarnOnlyRange,
)
from rv.errors import ControllerValueError
from rv.modules import MODULE_CLASSES

FAILURES = []


def check(cond, *what):
    if not cond:
        FAILURES.append(" ".join(str(w) for w in what))
        if len(FAILURES) > 20:
            finish()


def finish():
    if FAILURES:
        print("FAIL")
        for f in FAILURES:
            print("  ", f)
        sys.exit(1)
    print("PASS")
    sys.exit(0)


class Capture(logging.Handler):
    def __init__(self, logger):
        super().__init__()
        self.records = []
        self.logger = logger

    def emit(self, record):
        self.records.append(record)

    def __enter__(self):
        self.logger.addHandler(self)
        return self

    def __exit__(self, *exc):
        self.logger.removeHandler(self)


def expected_pattern(t, v):
    if isinstance(t, CompactRange):
        return v - t.min
    return int((v - t.min) / ((t.max - t.min) / 32768))


def variants(mod, ctl):
    vt = ctl.value_type
    if isinstance(vt, DependentRange):
        for unit, t in vt.range_map.items():
            mod.controller_values[vt.ctl_name] = unit
            yield t
    else:
        yield ctl.instance_value_type(mod)


def pattern_checks():
    pairs = 0
    for mtype, cls in sorted(MODULE_CLASSES.items()):
        mod = cls()
        for name, ctl in cls.controllers.items():
            if type(ctl).__name__ == "UserDefinedProxy":
                continue
            for t in variants(mod, ctl):
                check(ctl.instance_value_type(mod) is t, "value type", mtype, name)
                if isinstance(t, Range):
                    previous = None
                    for v in range(t.min, t.max + 1):
                        pairs += 1
                        p = ctl.pattern_value(mod, v)
                        if type(p) is not int or p != expected_pattern(t, v):
                            check(False, "pattern", mtype, name, t, v, p)
                        if previous is not None and p < previous:
                            check(False, "not monotone", mtype, name, t, v)
                        previous = p
                    lo = ctl.pattern_value(mod, t.min)
                    hi = ctl.pattern_value(mod, t.max)
                    check(lo == 0, "min maps to 0", mtype, name, t, lo)
                    if isinstance(t, CompactRange):
                        check(hi == t.max - t.min, "compact max", mtype, name, hi)
                    else:
                        check(hi == 0x8000, "max maps to 0x8000", mtype, name, t, hi)
                    # values outside the range are not validated here
                    for v in (t.min - 1, t.max + 1):
                        check(
                            ctl.pattern_value(mod, v) == expected_pattern(t, v),
                            "outside",
                            mtype,
                            name,
                            v,
                        )
                elif isinstance(t, type) and issubclass(t, Enum):
                    for member in t:
                        pairs += 1
                        check(
                            ctl.pattern_value(mod, member) is member,
                            "enum pattern",
                            mtype,
                            name,
                        )
                    check(ctl.pattern_value(mod, 3) == 3, "enum int pattern")
                elif t is bool:
                    for b in (False, True):
                        pairs += 1
                        check(ctl.pattern_value(mod, b) is b, "bool pattern", name)
                else:
                    check(False, "unexpected value type", mtype, name, t)
    check(pairs > 1000000, "too few pairs", pairs)
    return pairs


def synthetic_pattern_checks():
    class Holder:
        def __init__(self):
            self.controller_values = {}
            self.controllers_loaded = set()

    holder = Holder()
    bounds = [(0, 1), (0, 3), (1, 4), (-1, 1), (0, 7), (0, 32768), (-100, 100), (0, 9)]
    bounds += [(0, n) for n in range(1, 400)] + [(-n, n) for n in range(1, 200)]
    bounds += [(1, n) for n in (2, 3, 5, 256, 1000, 4000, 16384, 44100)]
    for kind in (Range, WarnOnlyRange, NoOffsetRange, CompactRange):
        for lo, hi in bounds:
            t = kind(lo, hi)
            ctl = Controller(t, lo)
            ctl.name = "x"
            check(ctl.instance_value_type(holder) is t, "plain value type")
            got = [ctl.pattern_value(holder, v) for v in range(lo, hi + 1)]
            want = [expected_pattern(t, v) for v in range(lo, hi + 1)]
            check(got == want, "synthetic", t)
            check(all(type(p) is int for p in got), "synthetic int", t)
            check(got == sorted(got) and got[0] == 0, "synthetic monotone", t)
            check(got[-1] == (hi - lo if kind is CompactRange else 0x8000), "top", t)
    # tuple shorthand builds a plain Range
    ctl = Controller((-8, 8), 0)
    check(type(ctl.value_type) is Range, "tuple shorthand")
    check(ctl.pattern_value(holder, 0) == 0x4000, "midpoint")
    # float input is truncated like ints are
    check(ctl.pattern_value(holder, 0.5) == int(8.5 / (16 / 32768)), "float value")
    # an empty range cannot be scaled, but can be compacted
    try:
        Controller(Range(5, 5), 5).pattern_value(holder, 5)
    except ZeroDivisionError:
        pass
    else:
        check(False, "empty range scaled")
    check(Controller(CompactRange(5, 5), 5).pattern_value(holder, 5) == 0, "compact 0")
    # non-range value types pass values through untouched
    sentinel = object()
    check(Controller(None, 0).pattern_value(holder, sentinel) is sentinel, "None type")
    check(Controller(bool, False).pattern_value(holder, sentinel) is sentinel, "bool")


def dependent_range_checks():
    class Holder:
        def __init__(self):
            self.controller_values = {}
            self.controllers_loaded = set()

    a, b, d = Range(0, 10), CompactRange(-5, 5), WarnOnlyRange(1, 100)
    dep = DependentRange("unit", {0: a, 1: b}, d)
    check(repr(dep) == "<DependentRange (varies)>", "repr")
    check((dep.ctl_name, dep.default) == ("unit", d), "attributes")
    ctl = Controller(dep, 1)
    ctl.name = "amount"

    h = Holder()
    check(dep.parent(h) is d, "nothing loaded")
    h.controller_values["unit"] = 1
    check(dep.parent(h) is d, "value present but not loaded")
    h.controllers_loaded.add("other")
    check(dep.parent(h) is d, "other loaded only")
    h.controllers_loaded.add("unit")
    check(dep.parent(h) is b and ctl.instance_value_type(h) is b, "unit 1")
    h.controller_values["unit"] = 0
    check(dep.parent(h) is a and ctl.instance_value_type(h) is a, "unit 0")
    h.controller_values["unit"] = None
    check(dep.parent(h) is d, "unit None")
    del h.controller_values["unit"]
    check(dep.parent(h) is d, "unit missing")
    h.controller_values["unit"] = 7
    try:
        dep.parent(h)
    except KeyError:
        pass
    else:
        check(False, "unknown unit accepted")
    h.controller_values["unit"] = False  # False == 0 selects like 0 does
    check(dep.parent(h) is a, "falsy unit")
    # pattern values follow the selected range
    h.controller_values["unit"] = 0
    check(ctl.pattern_value(h, 5) == 0x4000, "pattern unit 0")
    h.controller_values["unit"] = 1
    check(ctl.pattern_value(h, 5) == 10, "pattern unit 1")
    h.controllers_loaded.clear()
    check(ctl.pattern_value(h, 100) == 0x8000, "pattern default")


def module_init_checks():
    found = 0
    for mtype, cls in sorted(MODULE_CLASSES.items()):
        names = list(cls.controllers)
        dependent = [
            n for n in names if isinstance(cls.controllers[n].value_type, DependentRange)
        ]
        independent = [n for n in names if n not in dependent]
        with Capture(C.log) as cap:
            mod = cls()
        check(len(cap.records) == 0, "defaults warn", mtype)
        if mtype != "MetaModule":
            check(
                list(mod.controller_values) == independent + dependent,
                "load order",
                mtype,
                list(mod.controller_values),
            )
        check(mod.controllers_loaded == set(names), "loaded set", mtype)
        for n in names:
            if type(cls.controllers[n]).__name__ == "UserDefinedProxy":
                continue
            check(mod.controller_values[n] == cls.controllers[n].default, "default", n)
        for n in dependent:
            found += 1
            ctl = cls.controllers[n]
            dep = ctl.value_type
            for unit, t in dep.range_map.items():
                # the unit given in the same call selects the range used to validate
                with Capture(C.log) as cap:
                    m = cls(**{n: t.max, dep.ctl_name: unit})
                check(len(cap.records) == 0, "max for unit warns", mtype, n, unit)
                check(getattr(m, n) == t.max, "max for unit", mtype, n, unit)
                check(ctl.instance_value_type(m) is t, "unit range", mtype, n, unit)
                check(ctl.pattern_value(m, t.max) == 0x8000, "unit top", mtype, n)
                check(ctl.pattern_value(m, t.min) == 0, "unit bottom", mtype, n)
                with Capture(C.log) as cap:
                    try:
                        m = cls(**{n: t.max + 1, dep.ctl_name: unit})
                    except ControllerValueError:
                        check(not isinstance(t, WarnOnlyRange), "raised", mtype, n)
                    else:
                        check(isinstance(t, WarnOnlyRange), "accepted", mtype, n)
                        check(len(cap.records) == 1, "one warning", mtype, n, unit)
                        check(getattr(m, n) == t.max + 1, "kept", mtype, n)
                # changing the unit afterwards switches the range
                m = cls()
                setattr(m, dep.ctl_name, unit)
                check(ctl.instance_value_type(m) is t, "switched", mtype, n, unit)
    check(found >= 6, "too few unit-dependent controllers", found)


if __name__ == "__main__":
    n = pattern_checks()
    synthetic_pattern_checks()
    dependent_range_checks()
    module_init_checks()
    print(f"checked {n} (controller, value) pairs")
    finish()
