"""Behaviour check for C05-3: the writing side (Project.chunks, Synth.chunks,
module option bytes).

Exercises the exact chunk streams produced for projects and synths: SLNK/SLnK
emission (no links, zero slots, non-zero slots, -1 entries after disconnects,
mismatched slot lists and what is written before the error), CVAL/CMID/CHNK
emission for every module class (including MetaModule, whose attachment is
recomputed only when saved as a synth), option byte packing/unpacking, and the
C05 property (idempotent load/save, pure save) on every fixture with mutated
CVAL and option bytes.

Run as: cd <root> && PYTHONPATH=<root>/src/python /venv/bin/python check.py
"""
import hashlib
import logging
import random
import struct
import sys
from collections import defaultdict
from enum import Enum
from io import BytesIO
from pathlib import Path

import rv
import rv.api
from rv.errors import EmptySynthError, override_raise_controller_value_errors
from rv.modules import MODULE_CLASSES, Chunk
from rv.pattern import Pattern
from rv.readers.reader import read_sunvox_file

ROOT = Path(rv.__file__).resolve().parents[3]
FILES = ROOT / "tests" / "files"

failures = []


def check(cond, msg):
    if not cond:
        failures.append(msg)
        print("FAIL:", msg)


logging.getLogger().setLevel(logging.ERROR)


def iter_chunks(data):
    pos = 0
    while pos + 8 <= len(data):
        name = data[pos : pos + 4]
        (size,) = struct.unpack("<I", data[pos + 4 : pos + 8])
        yield name, data[pos + 8 : pos + 8 + size]
        pos += 8 + size


def build(chunks):
    return b"".join(
        n + struct.pack("<I", len(d)) + d for n, d in chunks if n is not None
    )


def ints(*values):
    return struct.pack(f"<{len(values)}i", *values)


def load(data):
    return read_sunvox_file(BytesIO(data))


def names(chunk_list):
    return [n for n, _ in chunk_list]


def module_sections(chunk_list):
    """Split a project's chunk list into per-module lists (SFFF..SEND)."""
    out, cur = [], None
    started = False
    for n, d in chunk_list:
        if n == b"SFFF":
            started = True
            cur = []
        if started:
            if cur is None:
                cur = []
            cur.append((n, d))
            if n == b"SEND":
                out.append(cur)
                cur = None
    return out


# --------------------------------------------------------------------------
# 1. Project.chunks: structure, links
# --------------------------------------------------------------------------
def test_project_chunks():
    digest = hashlib.sha256()
    m = rv.api.m
    p = rv.api.Project()
    chunk_list = list(p.chunks())
    check(chunk_list[0] == (b"SVOX", b""), "magic first")
    check(
        names(chunk_list)
        == [b"SVOX", b"VERS", b"BVER", b"FLGS", b"SFGS", b"BPM ", b"SPED", b"TGRD", b"TGD2", b"GVOL", b"NAME", b"MSCL", b"MZOO", b"MXOF", b"MYOF", b"LMSK", b"CURL", b"SELS", b"LGEN", b"PATN", b"PATT", b"PATL", b"SFFF", b"SNAM", b"SFIN", b"SREL", b"SXXX", b"SYYY", b"SZZZ", b"SSCL", b"SVPR", b"SCOL", b"SMII", b"SMIC", b"SMIB", b"SMIP", b"SLNK", b"SEND"],
        f"empty project chunk names {names(chunk_list)}",
    )
    check(dict(chunk_list)[b"SLNK"] == b"", "output without links has empty SLNK")
    p.timeline_position = 5
    p.restart_position = -3
    header = names(list(p.chunks()))
    check(header[17:19] == [b"TIME", b"REPS"], "TIME/REPS when non-zero")
    p.timeline_position = p.restart_position = 0

    gen = p.new_module(m.AnalogGenerator)
    amp = p.new_module(m.Amplifier)
    flt = p.new_module(m.Filter)
    rev = p.new_module(m.Reverb)
    gen >> amp >> p.output
    gen >> flt >> rev >> p.output
    amp >> rev
    p.attach_pattern(Pattern(tracks=1, lines=2))
    p.attach_pattern(None)
    sections = module_sections(list(p.chunks()))
    check(len(sections) == 5, "five module sections")
    out_sec, gen_sec, amp_sec, flt_sec, rev_sec = sections
    check(dict(out_sec)[b"SLNK"] == ints(2, 4), "output SLNK")
    check(b"SLnK" not in names(out_sec), "zero slots: no SLnK")
    check(dict(gen_sec)[b"SLNK"] == b"" and b"SLnK" not in names(gen_sec), "generator: empty SLNK")
    check(dict(rev_sec)[b"SLNK"] == ints(3, 2) and dict(rev_sec)[b"SLnK"] == ints(0, 1), "reverb SLNK + SLnK")
    check(dict(flt_sec)[b"SLNK"] == ints(1) and dict(flt_sec)[b"SLnK"] == ints(1), "filter SLNK + SLnK")
    check(names(out_sec)[-2:] == [b"SLNK", b"SEND"], "output has no controllers")
    amp_names = names(amp_sec)
    i = amp_names.index(b"SLNK")
    n_ctl = len(amp.controllers)
    check(amp_names[i:] == [b"SLNK"] + [b"CVAL"] * n_ctl + [b"CMID", b"SEND"], f"amp tail {amp_names[i:]}")
    check(len(dict(amp_sec)[b"CMID"]) == 8 * n_ctl, "CMID size")
    gen_names = names(gen_sec)
    i = gen_names.index(b"SLNK")
    check(
        gen_names[i:] == [b"SLNK"] + [b"CVAL"] * len(gen.controllers) + [b"CMID", b"CHNK", b"CHNM", b"CHDT", b"SEND"],
        f"generator tail {gen_names[i:]}",
    )
    all_names = names(list(p.chunks()))
    check(all_names.count(b"PEND") == 2 and all_names.index(b"PEND") < all_names.index(b"SFFF"), "patterns before modules")
    digest.update(p.read())

    # disconnect: -1 entries are written as they are
    p.connect(~amp, p.output)
    check(dict(module_sections(list(p.chunks()))[0])[b"SLNK"] == ints(-1, 4), "-1 link written")
    check(b"SLnK" not in names(module_sections(list(p.chunks()))[0]), "(-1, 0) slots: no SLnK")
    p.connect(~rev, p.output)
    check(dict(module_sections(list(p.chunks()))[0])[b"SLNK"] == ints(-1, -1), "all -1 links written")
    y = p.read()
    digest.update(y)
    check(load(y).read() == load(load(y).read()).read(), "disconnected project stable from first re-save")

    # slots -1/0 mix versus any other value
    for slots, expect_slnk in (([0, 0], False), ([-1, 0], False), ([-1, -1], False), ([0, 1], True), ([2, 0], True), ([-2, 0], True)):
        rev.in_link_slots[:] = slots
        sec = module_sections(list(p.chunks()))[4]
        check((b"SLnK" in names(sec)) == expect_slnk, f"SLnK for {slots}")
        if expect_slnk:
            check(dict(sec)[b"SLnK"] == ints(*slots), f"SLnK payload {slots}")
            check(names(sec).index(b"SLnK") == names(sec).index(b"SLNK") + 1, "SLnK follows SLNK")
    # mismatched slot list: error, and nothing of the links was written yet
    rev.in_link_slots[:] = [0, 1, 2]
    buf = BytesIO()
    try:
        p.write_to(buf)
    except struct.error as e:
        digest.update(str(e).encode())
        written = list(iter_chunks(buf.getvalue()))
        check(written[-1][0] == b"SMIP", f"last chunk before the error: {written[-1][0]}")
        check(sum(1 for n, _ in written if n == b"SFFF") == 5, "failed in the fifth module")
    else:
        check(False, "mismatched slots accepted")
    rev.in_link_slots[:] = [0]
    try:
        p.read()
    except struct.error:
        pass
    else:
        check(False, "short slots accepted")
    rev.in_link_slots[:] = [0, 1]

    # holes (None modules) are written as bare SEND
    p2 = rv.api.Project()
    a = p2.new_module(m.Amplifier)
    b = p2.new_module(m.Amplifier)
    p2.modules[1] = None
    all_names = names(list(p2.chunks()))
    check(all_names[-3:] == [b"SEND", b"SEND", b"SEND"] or all_names.count(b"SEND") == 3, "three SENDs")
    check(all_names.count(b"SFFF") == 2, "two real modules")
    digest.update(p2.read())
    return digest.hexdigest()


# --------------------------------------------------------------------------
# 2. Synth.chunks for every module class; MetaModule attachment
# --------------------------------------------------------------------------
def test_synth_chunks():
    digest = hashlib.sha256()
    m = rv.api.m
    try:
        list(rv.api.Synth().chunks())
    except EmptySynthError as e:
        check(str(e) == "Cannot serialize a synth with no module", "empty synth message")
    else:
        check(False, "empty synth serialised")
    try:
        rv.api.Synth(rv.modules.Module()).read()
    except RuntimeError as e:
        check(str(e) == "Cannot serialize base Module instance.", "base module message")
    else:
        check(False, "base module serialised")

    rng = random.Random(50503)
    for mtype in sorted(MODULE_CLASSES):
        cls = MODULE_CLASSES[mtype]
        for variant in range(3):
            mod = cls()
            if variant:
                with override_raise_controller_value_errors(False):
                    for name in mod.controllers:
                        raw = mod.get_raw(name)
                        try:
                            mod.set_raw(name, raw + rng.choice([-300, -1, 1, 2, 300, 70000]))
                        except Exception:
                            pass
                for oname, option in mod.options.items():
                    try:
                        setattr(mod, oname, rng.randrange(1 << option.size))
                    except Exception:
                        pass
            try:
                chunk_list = list(rv.api.Synth(mod).chunks())
            except Exception as e:
                digest.update(f"{mtype}#{variant}:ERR:{type(e).__name__}:{e}".encode())
                continue
            ns = names(chunk_list)
            check(ns[:3] == [b"SSYN", b"VERS", b"SFFF"] and ns[-1] == b"SEND", f"{mtype} frame")
            check(b"SXXX" not in ns and b"SVPR" not in ns and b"SLNK" not in ns, f"{mtype}: no project-only chunks")
            attached = [n for n, c in mod.controllers.items() if c.attached(mod)]
            cvals = [d for n, d in chunk_list if n == b"CVAL"]
            check(cvals == [struct.pack("<i", mod.get_raw(n)) for n in attached], f"{mtype} CVALs")
            if attached:
                cmid = [d for n, d in chunk_list if n == b"CMID"]
                check(len(cmid) == 1 and len(cmid[0]) == 8 * len(attached), f"{mtype} CMID")
                check(ns.index(b"CMID") == len(ns) - 1 - ns[::-1].index(b"CVAL") + 1, f"{mtype}: CMID right after CVALs")
            else:
                check(b"CMID" not in ns, f"{mtype}: no CMID without controllers")
            if mod.chnk:
                k = ns.index(b"CHNK")
                check(chunk_list[k][1] == struct.pack("<I", mod.chnk), f"{mtype} CHNK value")
                check(b"CVAL" not in ns[k:] and b"CMID" not in ns[k:], f"{mtype}: CHNK after controllers")
            else:
                check(b"CHNK" not in ns and b"CHNM" not in ns, f"{mtype}: no CHNK")
            data = build(chunk_list)
            check(data == rv.api.Synth(mod).read(), f"{mtype}: read() == chunks()")
            digest.update(hashlib.sha256(data).digest())
            try:
                y = load(data).read()
            except Exception as e:  # e.g. Output cannot be re-read as a synth
                digest.update(f"{mtype}#{variant}:RELOAD:{type(e).__name__}:{e}".encode())
                check(mtype == "Output", f"{mtype}#{variant}: reload failed: {e!r}")
                continue
            check(load(y).read() == y, f"{mtype}#{variant}: stable")
            digest.update(hashlib.sha256(y).digest())

    # MetaModule: attachment is recomputed when saving as a synth, not in a project
    mm = m.MetaModule()
    mm.user_defined_controllers = 4
    for ctl in mm.user_defined[:6]:
        ctl._attached = True  # stale attachment state
    mm.option_values["user_defined_controllers"] = 2
    p = rv.api.Project()
    p.attach_module(mm)
    in_project = module_sections(list(p.chunks()))[1]
    check(names(in_project).count(b"CVAL") == 5 + 6, f"project keeps stale attachment: {names(in_project).count(b'CVAL')}")
    as_synth = list(rv.api.Synth(mm).chunks())
    check(names(as_synth).count(b"CVAL") == 5 + 2, f"synth recomputes attachment: {names(as_synth).count(b'CVAL')}")
    check(len(dict(as_synth)[b"CMID"]) == 8 * 7, "metamodule CMID")
    digest.update(build(as_synth))
    return digest.hexdigest()


# --------------------------------------------------------------------------
# 3. option bytes
# --------------------------------------------------------------------------
def test_options():
    digest = hashlib.sha256()
    rng = random.Random(50504)
    for mtype in sorted(MODULE_CLASSES):
        cls = MODULE_CLASSES[mtype]
        if not cls.options:
            continue
        mod = cls()
        chunk_list = list(mod.options_chunks())
        check(names(chunk_list) == [b"CHNM", b"CHDT"], f"{mtype} option chunks")
        check(chunk_list[0][1] == struct.pack("<I", cls.options_chnm), f"{mtype} options CHNM")
        width = max(o.byte for o in cls.options.values()) + 1
        check(len(chunk_list[1][1]) == width, f"{mtype} option bytes width")
        digest.update(chunk_list[1][1])
        for trial in range(6):
            n = rng.choice([0, 1, width - 1, width, width + 3, 64, 70]) if trial else width
            payload = bytes(rng.randrange(256) for _ in range(max(n, 0)))
            if trial == 1:
                payload = b"\xff" * width
            if trial == 2:
                payload = b""
            chunk = Chunk()
            chunk.chnm, chunk.chdt = cls.options_chnm, payload
            fresh = cls()
            fresh.load_options(chunk)
            padded = payload + b"\0" * 64
            for option in cls.options.values():
                want = (padded[option.byte] >> option.bit) & ((1 << option.size) - 1)
                got = fresh.option_values[option.name]
                if option.size == 1:
                    check(got is bool(want), f"{mtype}.{option.name} bool {got!r}")
                else:
                    check(got == want and type(got) is int, f"{mtype}.{option.name} {got!r} != {want}")
            out = list(fresh.options_chunks())[1][1]
            check(len(out) == width, f"{mtype} rewritten width")
            # writing keeps exactly the bits covered by options
            mask = [0] * width
            for option in cls.options.values():
                mask[option.byte] |= ((1 << option.size) - 1) << option.bit
            want_out = bytes(b & k for b, k in zip(padded, mask))
            check(out == want_out, f"{mtype} option bytes rewrite {out!r} != {want_out!r}")
            again = cls()
            chunk2 = Chunk()
            chunk2.chnm, chunk2.chdt = cls.options_chnm, out
            again.load_options(chunk2)
            check(again.option_values == fresh.option_values, f"{mtype} options stable")
            digest.update(out)
        # a missing option value is an error, as before
        broken = cls()
        broken.option_values.pop(next(iter(cls.options)))
        try:
            list(broken.options_chunks())
        except TypeError:
            pass
        else:
            check(False, f"{mtype}: missing option value accepted")
    # modules without options yield a (None, None) placeholder
    amp = rv.api.m.Amplifier()
    check(list(amp.specialized_iff_chunks()) == [(None, None)], "no options placeholder")
    return digest.hexdigest()


# --------------------------------------------------------------------------
# 4. The property on fixtures with mutated CVAL / option bytes
# --------------------------------------------------------------------------
INTERESTING = [-(2**31), -70000, -1, 0, 1, 127, 128, 255, 256, 300, 428, 556, 32768, 70000, 2**31 - 1]


def loadable(data):
    try:
        load(data)
    except Exception:
        return False
    return True


def set_cvals(data, values):
    out, ordinal = [], 0
    for name, payload in iter_chunks(data):
        if name == b"CVAL":
            if ordinal in values:
                payload = ints(values[ordinal])
            ordinal += 1
        out.append((name, payload))
    return build(out)


def free_cvals(data, limit=40):
    count = sum(1 for name, _ in iter_chunks(data) if name == b"CVAL")
    return [
        i
        for i in range(min(count, limit))
        if loadable(set_cvals(data, {i: 70000})) and loadable(set_cvals(data, {i: -70000}))
    ]


def mutate(data, free, rng):
    values = {i: rng.choice(INTERESTING) if rng.random() < 0.6 else rng.randint(-2000, 70000) for i in free if rng.random() < 0.6}
    out = []
    mtype = None
    chnm = None
    for name, payload in iter_chunks(set_cvals(data, values)):
        if name == b"STYP":
            mtype = payload.rstrip(b"\0").decode()
        elif name == b"SEND":
            mtype = None
        elif name == b"CHNM":
            (chnm,) = struct.unpack("<I", payload)
        elif name == b"CHDT" and mtype in MODULE_CLASSES:
            cls = MODULE_CLASSES[mtype]
            if cls.options and chnm == cls.options_chnm and len(payload) <= 64 and rng.random() < 0.8:
                payload = bytes(rng.randrange(256) for _ in range(len(payload)))
        out.append((name, payload))
    return build(out)


def snap(obj, memo=None):
    memo = {} if memo is None else memo
    if isinstance(obj, (int, float, str, bytes, bool, type(None), Enum)):
        return repr(obj)
    if isinstance(obj, type) or callable(obj) and not hasattr(obj, "__dict__"):
        return getattr(obj, "__qualname__", type(obj).__name__)
    if isinstance(obj, type(snap)):
        return obj.__qualname__
    if id(obj) in memo:
        return f"<ref {type(obj).__name__}>"
    memo[id(obj)] = True
    if isinstance(obj, defaultdict):
        blank = snap(obj.default_factory())
        items = {repr(k): snap(v, memo) for k, v in obj.items()}
        return {k: v for k, v in items.items() if v != blank}
    if isinstance(obj, dict):
        return {repr(k): snap(v, memo) for k, v in obj.items()}
    if isinstance(obj, (list, tuple)):
        return [snap(v, memo) for v in obj]
    if isinstance(obj, (set, frozenset)):
        return sorted(repr(v) for v in obj)
    if isinstance(obj, bytearray):
        return repr(bytes(obj))
    state = {}
    if hasattr(obj, "__dict__"):
        state.update(vars(obj))
    for klass in type(obj).__mro__:
        for slot in getattr(klass, "__slots__", ()):
            if hasattr(obj, slot):
                state[slot] = getattr(obj, slot)
    if not state:
        return repr(obj) if type(obj).__repr__ is not object.__repr__ else type(obj).__name__
    return {"__class__": type(obj).__name__, **{k: snap(v, memo) for k, v in sorted(state.items())}}


def test_property():
    rng = random.Random(50505)
    digest = hashlib.sha256()
    paths = sorted(p for p in FILES.rglob("*") if p.suffix in (".sunvox", ".sunsynth"))
    check(len(paths) >= 50, f"found only {len(paths)} fixtures")
    cases = 0
    for path in paths:
        original = path.read_bytes()
        free = free_cvals(original)
        variants = [original] + [mutate(original, free, rng) for _ in range(3)]
        for i, x in enumerate(variants):
            tag = f"{path.name}#{i}"
            try:
                obj = load(x)
                before = snap(obj)
                y = obj.read()
            except Exception as e:  # not loadable/savable: outside the property
                digest.update(f"{tag}:ERR:{type(e).__name__}:{e};".encode())
                continue
            check(y == obj.read(), f"{tag}: saving twice differs")
            buf = BytesIO()
            obj.write_to(buf)
            check(buf.getvalue() == y, f"{tag}: write_to differs from read")
            check(build(list(obj.chunks())) == y, f"{tag}: chunks() differs from read")
            check(snap(obj) == before, f"{tag}: saving changed the object")
            cur = y
            for n in range(3):
                nxt = load(cur).read()
                check(nxt == y, f"{tag}: drift at cycle {n + 2}")
                cur = nxt
            digest.update(hashlib.sha256(y).digest())
            cases += 1
    check(cases >= 150, f"only {cases} loadable cases")
    if "--print" in sys.argv:
        print("cases", cases)
    return digest.hexdigest()


EXPECTED = {
    "project": "d09c2852de93e9ec96d30a564274ebcec2b45b5d9296463d0d47f7c51bb46419",
    "synth": "7f44e2946c36d3ccf221641b10536dc24683bfde8b767e7993d590b4ef126050",
    "options": "89d2e54cdd22d755191a6c32a42666b7263237cb49f9f9c6539b20ede6daec6c",
    "property": "abcdbfbbea1844dde5ed4c3dba30375dbaf79faa41297fa7fc850384be4b24ab",
}


def main():
    got = {
        "project": test_project_chunks(),
        "synth": test_synth_chunks(),
        "options": test_options(),
        "property": test_property(),
    }
    if "--print" in sys.argv:
        for k, v in got.items():
            print(k, v)
    else:
        for k, v in got.items():
            check(v == EXPECTED[k], f"{k} digest {v}")
    if failures:
        print(f"{len(failures)} failure(s)")
        sys.exit(1)
    print("PASS")


if __name__ == "__main__":
    main()
