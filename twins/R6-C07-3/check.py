"""Behaviour check for property C07 (link tables stay mutually consistent).

Drives Project.connect() and the >>, << and ~ operator sugar through
exhaustive short histories and long random histories, comparing the four
link lists of every module after each operation against an independent
reference model, and pins the refusal / edge-case behaviour (foreign modules,
generators as operands, holes in the module table, hand-damaged tables).

Prints PASS and exits 0 when everything is as expected.
"""
import itertools
import random
import sys
from io import BytesIO

import rv.modules.module as module_mod
import rv.project as project_mod
from rv.api import Project, m, read_sunvox_file
from rv.errors import ModuleOwnershipError
from rv.modules.module import DisconnectingModule, Module, ModuleList

OWNERSHIP_MESSAGE = "Modules must have same parent to be connected or disconnected"
FIELDS = ("in_links", "in_link_slots", "out_links", "out_link_slots")

checks = 0


def expect(cond, *info):
    global checks
    checks += 1
    if not cond:
        print("FAIL", *info)
        sys.exit(1)


# --------------------------------------------------------------------------
# reference model: tables are dicts index -> list, operands are (index, flag)
# --------------------------------------------------------------------------
class Model:
    def __init__(self, n):
        self.n = n
        self.t = {f: {i: [] for i in range(n)} for f in FIELDS}
        self.edges = set()

    def apply(self, from_ops, to_ops):
        """from_ops/to_ops: lists of (index or None when foreign, disconnect)."""
        for fi, fd in from_ops:
            for ti, td in to_ops:
                if fi is None or ti is None:
                    return "refused"
                il, ils = self.t["in_links"][ti], self.t["in_link_slots"][ti]
                ol, ols = self.t["out_links"][fi], self.t["out_link_slots"][fi]
                if fd or td:
                    self.edges.discard((fi, ti))
                    if fi in il:
                        a, b = il.index(fi), ol.index(ti)
                        il[a] = ils[a] = ol[b] = ols[b] = -1
                else:
                    self.edges.add((fi, ti))
                    if fi not in il:
                        a, b = len(il), len(ol)
                        il.append(fi)
                        ol.append(ti)
                        ils.append(b)
                        ols.append(a)
        return "ok"


def tables(project):
    return {
        f: {i: list(getattr(mod, f)) for i, mod in enumerate(project.modules)}
        for f in FIELDS
    }


def check_state(project, model, info):
    got = tables(project)
    expect(got == model.t, "tables differ from model", info, got, model.t)
    mods = project.modules
    edges = set()
    for t, mod in enumerate(mods):
        for f in FIELDS:
            expect(type(getattr(mod, f)) is list, "table type", f)
            expect(all(type(v) is int for v in getattr(mod, f)), "entry type", f)
        expect(len(mod.in_links) == len(mod.in_link_slots), "in lengths", info)
        expect(len(mod.out_links) == len(mod.out_link_slots), "out lengths", info)
        for i, (s, slot) in enumerate(zip(mod.in_links, mod.in_link_slots)):
            if s == -1:
                expect(slot == -1, "freed in slot", info)
                continue
            expect((s, t) not in edges, "duplicate link", info)
            edges.add((s, t))
            expect(mods[s].out_links[slot] == t, "in->out peer", info)
            expect(mods[s].out_link_slots[slot] == i, "in->out slot", info)
        for i, (d, slot) in enumerate(zip(mod.out_links, mod.out_link_slots)):
            if d == -1:
                expect(slot == -1, "freed out slot", info)
                continue
            expect(mods[d].in_links[slot] == t, "out->in peer", info)
            expect(mods[d].in_link_slots[slot] == i, "out->in slot", info)
    n_out = sum(1 for mod in mods for d in mod.out_links if d != -1)
    expect(n_out == len(edges), "link counts", info)
    expect(edges == model.edges, "connection set", info, edges, model.edges)


def make_project(n):
    project = Project()
    for _ in range(n - 1):
        project.new_module(m.Amplifier)
    return project


def reset(project):
    for mod in project.modules:
        for f in FIELDS:
            del getattr(mod, f)[:]


def real_operand(project, op):
    idx, disc = op
    return ~project.modules[idx] if disc else project.modules[idx]


def real_side(project, side, shape):
    """shape: 'single', 'list', 'tuple' or 'modulelist'."""
    ops = [real_operand(project, op) for op in side]
    if shape == "single":
        (only,) = ops
        return only
    if shape == "tuple":
        return tuple(ops)
    if shape == "modulelist":
        return ModuleList(project, ops)
    return ops


# --------------------------------------------------------------------------
# 1. exhaustive histories of single-pair requests (3 modules, length 3)
# --------------------------------------------------------------------------
def exhaustive_single_pairs():
    n = 3
    project = make_project(n)
    operands = [(i, d) for i in range(n) for d in (False, True)]
    ops = list(itertools.product(operands, operands))
    for history in itertools.product(ops, repeat=3):
        reset(project)
        model = Model(n)
        for f_op, t_op in history:
            ret = project.connect(real_operand(project, f_op), real_operand(project, t_op))
            expect(ret is None, "connect returns None")
            model.apply([f_op], [t_op])
        check_state(project, model, history)


# --------------------------------------------------------------------------
# 2. exhaustive two-step histories with list operands (3 modules)
# --------------------------------------------------------------------------
def exhaustive_list_pairs():
    n = 3
    project = make_project(n)
    sides = []
    for size in (1, 2):
        combos = itertools.permutations if size == 1 else itertools.combinations
        for combo in combos(range(n), size):
            for flags in itertools.product((False, True), repeat=size):
                sides.append(list(zip(combo, flags)))
    sides.append([(1, False), (1, False)])  # duplicate entry
    sides.append([(2, True), (2, False)])
    sides.append([(2, False), (0, True)])  # descending order, mixed flags
    sides.append([])  # empty list: nothing is asked for
    ops = list(itertools.product(sides, sides))
    histories = itertools.chain(
        itertools.product(ops, repeat=1), itertools.product(ops, repeat=2)
    )
    for history in histories:
        reset(project)
        model = Model(n)
        for f_side, t_side in history:
            project.connect(
                real_side(project, f_side, "list"), real_side(project, t_side, "list")
            )
            model.apply(f_side, t_side)
        check_state(project, model, history)


# --------------------------------------------------------------------------
# 3. long random histories, method and operator forms, all operand shapes
# --------------------------------------------------------------------------
def random_histories(seed, rounds):
    rng = random.Random(seed)
    for _ in range(rounds):
        n = rng.randint(2, 8)
        project = make_project(n)
        model = Model(n)
        for step in range(rng.randint(5, 40)):
            def side():
                if rng.random() < 0.4:
                    return [(rng.randrange(n), rng.random() < 0.35)], "single"
                size = rng.randint(0, 4)
                disc_all = rng.random() < 0.3
                ops = [
                    (rng.randrange(n), disc_all or rng.random() < 0.2)
                    for _ in range(size)
                ]
                return ops, rng.choice(["list", "tuple", "modulelist"])

            (f_side, f_shape), (t_side, t_shape) = side(), side()
            f_real = real_side(project, f_side, f_shape)
            t_real = real_side(project, t_side, t_shape)
            form = rng.choice(["method", ">>", "<<"])
            f_has_op = isinstance(f_real, (Module, ModuleList))
            t_has_op = isinstance(t_real, (Module, ModuleList))
            if form == ">>" and f_has_op:
                ret = f_real >> t_real
                check_return(project, ret, t_real)
            elif form == "<<" and t_has_op:
                ret = t_real << f_real
                check_return(project, ret, f_real)
            else:
                expect(project.connect(f_real, t_real) is None, "None result")
            model.apply(f_side, t_side)
            check_state(project, model, (seed, step))


def check_return(project, ret, other):
    if isinstance(other, list):
        expect(type(ret) is ModuleList, "list result is wrapped")
        expect(ret is not other, "wrapped copy")
        expect(ret.parent is project, "wrapper parent")
        expect(len(ret) == len(other), "wrapper length")
        expect(all(a is b for a, b in zip(ret, other)), "wrapper items")
    else:
        expect(ret is other, "non-list result is handed back unchanged")


# --------------------------------------------------------------------------
# 4. operator sugar details
# --------------------------------------------------------------------------
def operator_sugar():
    project = make_project(5)
    out, a, b, c, d = project.modules
    model = Model(5)

    expect((a >> b >> c) is c, "chain >>")
    model.apply([(1, False)], [(2, False)])
    model.apply([(2, False)], [(3, False)])
    check_state(project, model, "chain >>")

    expect((out << d << c) is c, "chain <<")
    model.apply([(4, False)], [(0, False)])
    model.apply([(3, False)], [(4, False)])
    check_state(project, model, "chain <<")

    fan = a >> [c, d]
    expect(type(fan) is ModuleList and fan == [c, d] and fan.parent is project, "fan")
    model.apply([(1, False)], [(3, False), (4, False)])
    expect((fan >> out) is out, "fan-in result")
    model.apply([(3, False), (4, False)], [(0, False)])
    check_state(project, model, "fan")

    wrapped = fan << [a, b]
    expect(type(wrapped) is ModuleList and wrapped == [a, b], "list << list")
    model.apply([(1, False), (2, False)], [(3, False), (4, False)])
    check_state(project, model, "list << list")

    tup = (c, d)
    expect((b >> tup) is tup, "tuple handed back as is")
    model.apply([(2, False)], [(3, False), (4, False)])
    check_state(project, model, "tuple")

    # disconnecting wrapper
    da = ~a
    expect(type(da) is DisconnectingModule, "~ wraps")
    expect(da.orig is a and (~da) is a and (~~a) is a, "~~ unwraps")
    expect(da.index == a.index and da.name == a.name, "wrapper proxies reads")
    expect(da.in_links is a.in_links, "wrapper proxies tables")
    da.name = "renamed"
    expect(a.name == "renamed" and "name" not in vars(da), "wrapper proxies writes")
    expect(set(vars(da)) == {"orig"}, "wrapper state")
    expect((~a) is not (~a), "fresh wrapper each time")
    ret = a >> ~b
    expect(type(ret) is DisconnectingModule and ret.orig is b, "a >> ~b result")
    model.apply([(1, False)], [(2, True)])
    check_state(project, model, "a >> ~b")
    ret = c << ~b
    expect(type(ret) is DisconnectingModule and ret.orig is b, "c << ~b result")
    model.apply([(2, True)], [(3, False)])
    check_state(project, model, "c << ~b")
    ret = a >> [~c, ~d]
    expect(type(ret) is ModuleList and [x.orig for x in ret] == [c, d], "list of ~")
    model.apply([(1, False)], [(3, True), (4, True)])
    check_state(project, model, "a >> [~c, ~d]")
    # reconnect after disconnect appends new slots
    a >> c
    model.apply([(1, False)], [(3, False)])
    check_state(project, model, "reconnect")
    expect(-1 in a.out_links and a.out_links[-1] == c.index, "no slot reuse")
    for bad in (lambda: ~a >> b, lambda: ~a << b):
        try:
            bad()
        except TypeError:
            expect(True)
        else:
            expect(False, "wrapper has no shift operators")
    check_state(project, model, "after TypeError")
    expect(int(a) == a.index + 1, "__int__")

    # survives a write / read cycle
    f = BytesIO()
    project.write_to(f)
    f.seek(0)
    loaded = read_sunvox_file(f)
    loaded_edges = {
        (s, t)
        for t, mod in enumerate(loaded.modules)
        for s in mod.in_links
        if s != -1
    }
    expect(loaded_edges == model.edges, "round trip keeps the connection set")

    # unattached module: operators need a parent
    loose = m.Amplifier()
    for bad in (lambda: loose >> a, lambda: loose << a, lambda: loose >> [a]):
        try:
            bad()
        except AttributeError as e:
            expect("connect" in str(e), "AttributeError text", e)
        else:
            expect(False, "unattached module cannot link")
    check_state(project, model, "after AttributeError")


# --------------------------------------------------------------------------
# 5. refusals: modules of another project (or of none)
# --------------------------------------------------------------------------
def refusals():
    n = 4
    other = make_project(3)
    strangers = [other.modules[1], other.output, m.Amplifier()]
    for stranger, disc_stranger in itertools.product(strangers, (False, True)):
        for pos in range(3):
            for stranger_side in ("from", "to"):
                for other_disc in (False, True):
                    project = make_project(n)
                    model = Model(n)
                    project.connect(project.modules[1], project.modules[2:])
                    model.apply([(1, False)], [(2, False), (3, False)])
                    side = [(1, other_disc), (2, False), (3, other_disc)]
                    side[pos] = (None, disc_stranger)
                    clean = [(3, False), (1, other_disc)]

                    def realise(ops):
                        res = []
                        for idx, disc in ops:
                            mod = stranger if idx is None else project.modules[idx]
                            res.append(~mod if disc else mod)
                        return res

                    if stranger_side == "from":
                        f_side, t_side = side, clean
                    else:
                        f_side, t_side = clean, side
                    before_other = tables(other)
                    try:
                        project.connect(realise(f_side), realise(t_side))
                    except ModuleOwnershipError as e:
                        expect(type(e) is ModuleOwnershipError, "error type")
                        expect(e.args == (OWNERSHIP_MESSAGE,), "error text", e.args)
                        expect(type(e.__context__) is ValueError, "context")
                        expect(e.__cause__ is None, "cause")
                        expect(e.__suppress_context__ is False, "suppress")
                    else:
                        expect(False, "foreign module accepted")
                    expect(model.apply(f_side, t_side) == "refused", "model refuses")
                    check_state(project, model, (pos, stranger_side, other_disc))
                    expect(tables(other) == before_other, "other project untouched")
                    for f in FIELDS:
                        expect(getattr(strangers[2], f) == [], "loose untouched")

    # single foreign operands, method and operator forms
    project = make_project(3)
    a, b = project.modules[1:]
    x = other.modules[1]
    for call in (
        lambda: project.connect(a, x),
        lambda: project.connect(x, a),
        lambda: project.connect(~a, x),
        lambda: project.connect(x, ~a),
        lambda: project.connect(~x, ~x),
        lambda: a >> x,
        lambda: a << x,
        lambda: a >> ~x,
        lambda: a >> [b, x],
        lambda: ModuleList(project, [a, b]) << x,
        lambda: ModuleList(project, [a, b]) >> [x],
    ):
        try:
            call()
        except ModuleOwnershipError as e:
            expect(str(e) == OWNERSHIP_MESSAGE, "error text")
        else:
            expect(False, "foreign module accepted")
    # a >> [b, x] linked a->b before refusing x; nothing else happened
    model = Model(3)
    model.apply([(1, False)], [(2, False)])
    check_state(project, model, "partial")
    # a foreign operand is never looked at when the other side is empty
    expect(project.connect(x, []) is None, "empty to side")
    expect(project.connect([], x) is None, "empty from side")
    expect(project.connect([x, ~x], ()) is None, "empty to side (list)")
    check_state(project, model, "empty sides")
    expect(issubclass(ModuleOwnershipError, Exception), "error class")


# --------------------------------------------------------------------------
# 6. unusual but legal inputs
# --------------------------------------------------------------------------
def unusual_inputs():
    # generators: the to-side generator is consumed by the first from operand
    project = make_project(5)
    out, a, b, c, d = project.modules
    project.connect((x for x in [a, b]), (y for y in [c, d]))
    model = Model(5)
    model.apply([(1, False)], [(3, False), (4, False)])
    check_state(project, model, "generators")
    project.connect(iter([a, b]), [c, ~d])
    model.apply([(1, False), (2, False)], [(3, False), (4, True)])
    check_state(project, model, "iterator from side")
    project.connect({a: 1}, {out: 2}.keys())
    model.apply([(1, False)], [(0, False)])
    check_state(project, model, "dict views")

    # self link
    a >> a
    model.apply([(1, False)], [(1, False)])
    check_state(project, model, "self link")
    a >> ~a
    model.apply([(1, False)], [(1, True)])
    check_state(project, model, "self unlink")

    # non-iterable, non-module operands
    for f_side, t_side in ((None, a), (a, None), (3, a), (a, 3)):
        try:
            project.connect(f_side, t_side)
        except TypeError:
            expect(True)
        else:
            expect(False, "non-iterable operand accepted")
    check_state(project, model, "after TypeError")
    # an int inside a list is not a module of the project
    for f_side, t_side in (([1], [a]), ([a], [1]), ([a], "x")):
        try:
            project.connect(f_side, t_side)
        except ModuleOwnershipError:
            expect(True)
        else:
            expect(False, "non-module operand accepted")
    check_state(project, model, "after non-module")

    # holes (None) in the module table: the order of table look-ups shows
    project.modules.append(None)
    for f_side, t_side, word in (
        ([None], [a], "'out_links'"),
        ([a], [None], "'in_links'"),
        ([None], [None], "'in_links'"),
        ([b, None], [None], "'in_links'"),
    ):
        try:
            project.connect(f_side, t_side)
        except AttributeError as e:
            expect(word in str(e) and "NoneType" in str(e), "hole error", e)
        else:
            expect(False, "hole accepted")
    project.modules.pop()
    check_state(project, model, "after holes")

    # subclass overriding module_index is honoured for every pair
    calls = []

    class Counting(Project):
        def module_index(self, module):
            calls.append(module)
            return super().module_index(module)

    cp = Counting()
    p, q, r = (cp.new_module(m.Amplifier) for _ in range(3))
    del calls[:]
    cp.connect([p, q], [~r, cp.output])
    expect(set(map(id, calls)) == {id(p), id(q), id(r), id(cp.output)}, "lookups")
    expect(all(type(x) is not DisconnectingModule for x in calls), "unwrapped lookups")
    cm = Model(4)
    cm.apply([(1, False), (2, False)], [(3, True), (0, False)])
    check_state(cp, cm, "counting")


# --------------------------------------------------------------------------
# 7. hand-damaged tables: the out-side search failure leaves everything alone
# --------------------------------------------------------------------------
def damaged_tables():
    project = make_project(4)
    out, a, b, c = project.modules
    a >> [b, c]
    # drop the out-side record of a->b by hand
    a.out_links[0] = 7
    before = tables(project)
    try:
        a >> ~b
    except ModuleOwnershipError:
        expect(False, "wrong error for damaged table")
    except ValueError as e:
        expect(type(e) is ValueError, "ValueError type")
    else:
        expect(False, "damaged table went unnoticed")
    expect(tables(project) == before, "no partial blanking")
    # connect only consults the in table: a->b counts as connected already
    a >> b
    expect(tables(project) == before, "already connected")
    # in-table record missing: treated as not connected, appended again
    project2 = make_project(3)
    out2, p, q = project2.modules
    p >> q
    q.in_links[0] = -1
    p >> ~q
    expect(p.out_links == [2] and q.in_links == [-1], "disconnect skipped")
    p >> q
    expect(p.out_links == [2, 2] and p.out_link_slots == [0, 1], "re-appended out")
    expect(q.in_links == [-1, 1] and q.in_link_slots == [0, 1], "re-appended in")
    # tables of unequal length (as a file may contain) are extended independently
    project3 = make_project(3)
    out3, s, t = project3.modules
    s.out_links.extend([-1, -1])
    t.in_links.append(-1)
    s >> t
    expect(s.out_links == [-1, -1, 2] and s.out_link_slots == [1], "uneven out")
    expect(t.in_links == [-1, 1] and t.in_link_slots == [2], "uneven in")


# --------------------------------------------------------------------------
# 8. public names stay importable from where they were
# --------------------------------------------------------------------------
def public_names():
    for name in ("ModuleList", "DisconnectingModule", "Module", "Chunk", "Behavior"):
        expect(hasattr(module_mod, name), "module.py exports", name)
    for name in ("Project", "PatternLine", "DisconnectingModule", "Module"):
        expect(hasattr(project_mod, name), "project.py exports", name)
    expect(issubclass(ModuleList, list), "ModuleList is a list")
    ml = ModuleList("parent", (1, 2))
    expect(ml == [1, 2] and ml.parent == "parent", "ModuleList constructor")
    expect(ModuleList("p") == [], "ModuleList empty constructor")
    for name in ("__lshift__", "__rshift__"):
        expect(name in vars(Module) or hasattr(Module, name), "Module operator", name)
        expect(hasattr(ModuleList, name), "ModuleList operator", name)
        expect(not hasattr(DisconnectingModule, name), "no operator on wrapper", name)
    expect(hasattr(Module, "__invert__") and hasattr(DisconnectingModule, "__invert__"), "~")
    expect(Project.connect.__doc__, "connect docstring present")
    expect(Module.__annotations__["in_links"] is not None, "annotation kept")
    fresh = m.Amplifier()
    for f in FIELDS:
        expect(getattr(fresh, f) == [] and type(getattr(fresh, f)) is list, "fresh", f)
    expect(len({id(getattr(fresh, f)) for f in FIELDS}) == 4, "four separate lists")


def main():
    public_names()
    operator_sugar()
    refusals()
    unusual_inputs()
    damaged_tables()
    exhaustive_single_pairs()
    exhaustive_list_pairs()
    for seed in range(40):
        random_histories(seed, 5)
    print("PASS (%d checks)" % checks)


if __name__ == "__main__":
    main()
