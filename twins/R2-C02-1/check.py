import hashlib
import io
import logging
import random
import sys
from enum import Enum

logging.disable(logging.CRITICAL)

import rv.api  # noqa: E402  (registers every module class)
from rv.api import Project, Synth, m, read_sunvox_file  # noqa: E402
from rv.controller import DependentRange, Range  # noqa: E402
from rv.errors import EmptySynthError  # noqa: E402
from rv.modules import MODULE_CLASSES  # noqa: E402

FAILURES = []


def check(cond, msg):
    if not cond:
        FAILURES.append(msg)


def module_types():
    return sorted(k for k in MODULE_CLASSES if k != "Output")


def ends(t, which):
    """Return the low/high end value for controller value type t."""
    if isinstance(t, Range):
        return t.min if which == "min" else t.max
    if t is bool:
        return which == "max"
    if isinstance(t, type) and issubclass(t, Enum):
        members = list(t)
        return members[0] if which == "min" else members[-1]
    return None


def set_controllers(mod, which):
    """Set every controller of mod to its range end (parents before dependants)."""
    items = list(mod.controllers.items())
    plain = [(n, c) for n, c in items if not isinstance(c.value_type, DependentRange)]
    dependent = [(n, c) for n, c in items if isinstance(c.value_type, DependentRange)]
    for name, ctl in plain + dependent:
        if not ctl.attached(mod) or name == "user_defined_controllers":
            continue
        t = ctl.instance_value_type(mod)
        v = ends(t, which)
        if v is not None:
            mod.controller_values[name] = v


def set_options(mod, which):
    for name, option in mod.options.items():
        cur = mod.option_values[name]
        if name == "user_defined_controllers":
            # drives controller attachment; exercised separately
            mod.option_values[name] = {"min": 0, "max": 5}[which]
        elif option.size == 1:
            mod.option_values[name] = which == "max"
        elif isinstance(cur, Enum):
            members = list(type(cur))
            mod.option_values[name] = members[0] if which == "min" else members[-1]
        else:
            mod.option_values[name] = 0 if which == "min" else (1 << option.size) - 1


def set_midi(mod, seed):
    from rv.cmidmap import MidiMessageType, Slope

    rnd = random.Random(seed)
    for name in mod.controllers:
        if rnd.random() < 0.6:
            mm = mod.controller_midi_maps[name]
            mm.channel = rnd.randrange(0, 17)
            mm.message_type = rnd.choice(list(MidiMessageType))
            mm.message_parameter = rnd.randrange(0, 0x10000)
            mm.slope = rnd.choice(list(Slope))


def set_common(mod, seed):
    rnd = random.Random(seed)
    mod.mod_finetune = rnd.randrange(-256, 257)
    mod.mod_relative_note = rnd.randrange(-64, 65)
    mod.mod_scale = rnd.randrange(1, 1025)
    mod.color = (rnd.randrange(256), rnd.randrange(256), rnd.randrange(256))
    mod.midi_in_always = rnd.random() < 0.5
    mod.midi_in_channel = rnd.randrange(0, 17)
    mod.midi_out_name = rnd.choice([None, "out", "Some MIDI device"])
    mod.midi_out_channel = rnd.randrange(0, 17)
    mod.midi_out_bank = rnd.randrange(-1, 128)
    mod.midi_out_program = rnd.randrange(-1, 128)
    mod.name = rnd.choice([mod.name, "x", "A rather long module name over 32 chars", "été"])


def set_payload(mod, which, seed):
    """Fill type specific payload with boundary / random contents."""
    rnd = random.Random(seed)

    def fill(chunk, lo, hi, as_float=False):
        n = chunk.length
        if which == "min":
            chunk.values = [lo] * n
        elif which == "max":
            chunk.values = [hi] * n
        elif as_float:
            chunk.values = [rnd.randrange(-1024, 1025) / 1024.0 for _ in range(n)]
        else:
            chunk.values = [rnd.randrange(lo, hi + 1) for _ in range(n)]

    mt = mod.mtype
    if mt == "MultiSynth":
        fill(mod.nv_curve, 0, 255)
        fill(mod.vv_curve, 0, 255)
        fill(mod.np_curve, 0, 65535)
    elif mt == "WaveShaper":
        fill(mod.curve, 0, 65535)
    elif mt == "MultiCtl":
        fill(mod.curve, 0, 65535)
        top = 0xFFFFFFFF
        for i in range(16):
            if which == "min":
                vals = (0,) * 8
            elif which == "max":
                vals = (top,) * 8
            else:
                vals = tuple(rnd.randrange(0, top + 1) for _ in range(8))
            mod.mappings.values[i] = mod.Mapping(vals)
    elif mt == "FMX":
        fill(mod.custom_waveform, -1.0, 1.0, as_float=True)
    elif mt == "SpectraVoice":
        for h in mod.harmonics:
            if which == "min":
                h.freq_hz, h.volume, h.width, h.type = 0, 0, 0, list(mod.HarmonicType)[0]
            elif which == "max":
                h.freq_hz, h.volume, h.width, h.type = 65535, 255, 255, list(mod.HarmonicType)[-1]
            else:
                h.freq_hz = rnd.randrange(0, 65536)
                h.volume = rnd.randrange(0, 256)
                h.width = rnd.randrange(0, 256)
                h.type = rnd.choice(list(mod.HarmonicType))
    elif mt in ("Generator", "Analog generator"):
        if which == "min":
            mod.drawn_waveform.samples = [-128] * 32
        elif which == "max":
            mod.drawn_waveform.samples = [127] * 32
        else:
            mod.drawn_waveform.samples = [rnd.randrange(-128, 128) for _ in range(32)]
    elif mt == "Vorbis player":
        if which == "min":
            mod.data = b""
        elif which == "max":
            mod.data = bytes(range(256)) * 3
        else:
            mod.data = bytes(rnd.randrange(256) for _ in range(rnd.randrange(1, 200)))


def payload_state(mod):
    mt = mod.mtype
    if mt == "MultiSynth":
        return (mod.nv_curve.values, mod.vv_curve.values, mod.np_curve.values)
    if mt == "WaveShaper":
        return (mod.curve.values,)
    if mt == "MultiCtl":
        return (
            mod.curve.values,
            [
                (x.min, x.max, x.controller, x.flags, x.future_use2, x.future_use3,
                 x.future_use4, x.future_use5)
                for x in mod.mappings.values
            ],
        )
    if mt == "FMX":
        return (mod.custom_waveform.values,)
    if mt == "SpectraVoice":
        return (
            mod.harmonic_freqs.values,
            mod.harmonic_volumes.values,
            mod.harmonic_widths.values,
            [int(x) for x in mod.harmonic_types.values],
            [(h.freq_hz, h.volume, h.width, int(h.type)) for h in mod.harmonics],
        )
    if mt in ("Generator", "Analog generator"):
        dw = mod.drawn_waveform
        return (dw.samples, dw.format, dw.freq)
    if mt == "Vorbis player":
        return (mod.data or b"",)
    if mt == "MetaModule":
        return (mod.project.read(),)
    return ()


def state(mod):
    attached = [n for n, c in mod.controllers.items() if c.attached(mod)]
    return dict(
        type=type(mod),
        mtype=mod.mtype,
        name=mod.name.encode("utf8")[:32].decode("utf8", "ignore"),
        flags=mod.flags,
        controllers={n: mod.controller_values[n] for n in attached},
        raw={n: mod.get_raw(n) for n in attached},
        options=dict(mod.option_values),
        # (MIDI bindings of types with detached controllers are position-shifted on
        # load by the library as it stands, so only compare them when all attached)
        cmid={n: mod.controller_midi_maps[n].cmid_data for n in mod.controllers}
        if len(attached) == len(mod.controllers)
        else None,
        common=(
            mod.mod_finetune, mod.mod_relative_note, mod.mod_scale, tuple(mod.color),
            bool(mod.midi_in_always), mod.midi_in_channel, mod.midi_out_name or None,
            mod.midi_out_channel, mod.midi_out_bank, mod.midi_out_program,
        ),
        payload=payload_state(mod),
    )


def diff(a, b):
    return [k for k in a if a[k] != b[k]]


def unit_variants(cls):
    """For modules with unit-dependent ranges yield one kwargs dict per unit."""
    parents = []
    for name, ctl in cls.controllers.items():
        vt = ctl.value_type
        if isinstance(vt, DependentRange) and vt.ctl_name not in parents:
            parents.append(vt.ctl_name)
    if not parents:
        yield {}
        return
    for p in parents:
        for member in cls.controllers[p].value_type:
            yield {p: member}


def build_variants(mtype):
    cls = MODULE_CLASSES[mtype]
    n = 0
    for kw in unit_variants(cls):
        for which in ("default", "min", "max", "random"):
            mod = cls(**kw)
            if which != "default":
                ctl_which = which if which != "random" else "max"
                for p, v in kw.items():
                    mod.controller_values[p] = v
                set_controllers(mod, ctl_which)
                for p, v in kw.items():
                    mod.controller_values[p] = v
                # re-run dependants now that the unit is final
                for name, ctl in mod.controllers.items():
                    if isinstance(ctl.value_type, DependentRange):
                        v = ends(ctl.instance_value_type(mod), ctl_which)
                        if v is not None:
                            mod.controller_values[name] = v
                set_options(mod, "max" if which == "random" else which)
                if hasattr(mod, "recompute_controller_attachment"):
                    mod.recompute_controller_attachment()
                    set_controllers(mod, ctl_which)
                set_payload(mod, which, seed=f"{mtype}-{n}")
                set_midi(mod, seed=f"{mtype}-{n}")
                set_common(mod, seed=f"{mtype}-{n}")
            n += 1
            yield f"{mtype}[{kw}|{which}]", mod


def synth_bytes(mod):
    return Synth(mod).read()


def load_synth(data):
    return read_sunvox_file(io.BytesIO(data)).module


def project_roundtrip(mod):
    p = Project()
    p.attach_module(mod)
    data = p.read()
    p2 = read_sunvox_file(io.BytesIO(data))
    return data, p2.modules[mod.index]


def run_all(digest_expected=None, extra=None):
    h = hashlib.sha256()
    count = 0
    for mtype in module_types():
        for label, mod in build_variants(mtype):
            count += 1
            before = state(mod)
            data = synth_bytes(mod)
            h.update(data)
            check(data[:8] == b"SSYN\0\0\0\0", f"{label}: magic")
            check(data.endswith(b"SEND\0\0\0\0"), f"{label}: SEND")
            loaded = load_synth(data)
            d = diff(before, state(loaded))
            check(not d, f"{label}: synth round trip differs in {d}")
            check(synth_bytes(loaded) == data, f"{label}: second write differs")
            clone = mod.clone()
            check(clone is not mod, f"{label}: clone identity")
            d = diff(before, state(clone))
            check(not d, f"{label}: clone differs in {d}")
            check(diff(before, state(mod)) == [], f"{label}: source mutated")
            if extra:
                extra(label, mod, before)
            # in-project context (last, as attaching gives the module a parent)
            pdata, pmod = project_roundtrip(mod)
            h.update(pdata)
            d = diff(before, state(pmod))
            check(not d, f"{label}: project round trip differs in {d}")
            check(synth_bytes(pmod) == data, f"{label}: project->synth bytes differ")
    try:
        Synth().read()
        check(False, "empty synth serialized")
    except EmptySynthError:
        pass
    try:
        gen = Synth().chunks()
        next(gen)
        check(False, "empty synth yielded a chunk")
    except EmptySynthError:
        pass
    buf = io.BytesIO()
    try:
        Synth(None).write_to(buf)
        check(False, "empty synth wrote")
    except EmptySynthError:
        check(buf.getvalue() == b"", "empty synth wrote partial data")
    digest = h.hexdigest()
    if digest_expected is not None:
        check(digest == digest_expected, f"serialized bytes digest changed: {digest}")
    return count, digest


def finish(count):
    if FAILURES:
        for f in FAILURES[:40]:
            print("FAIL:", f)
        print(f"{len(FAILURES)} failures")
        sys.exit(1)
    print(f"PASS ({count} module variants)")

EXPECTED_DIGEST = "eea60413fa8c31d1406687427fa4e0f4cd97d181b1aac6c42e719434ae0096c0"


# ---------------------------------------------------------------------------
# Checks specific to this refactoring: Synth.chunks() layout, Module.clone()
# and Module.options_chunks().
# ---------------------------------------------------------------------------
import struct  # noqa: E402

from rv.lib.iff import chunks as read_iff_chunks  # noqa: E402


def reference_options_chdt(mod):
    """Independent re-computation of the options bytemap."""
    out = bytearray(64)
    used = 0
    for option in mod.options.values():
        v = int(mod.option_values[option.name])
        for b in range(option.size):
            if (v >> b) & 1:
                out[option.byte] |= 1 << (option.bit + b)
        used = max(used, option.byte + 1)
    return bytes(out[:used])


def layout_checks(label, mod, before):
    chunk_list = list(Synth(mod).chunks())
    names = [n for n, _ in chunk_list]
    check(chunk_list[0] == (b"SSYN", b""), f"{label}: first chunk")
    check(chunk_list[1] == (b"VERS", bytes([1, 2, 1, 2])), f"{label}: VERS")
    check(chunk_list[2][0] == b"SFFF", f"{label}: SFFF third")
    check(chunk_list[-1] == (b"SEND", b""), f"{label}: last chunk")
    for absent in (b"SXXX", b"SYYY", b"SZZZ", b"SVPR", b"SLNK"):
        check(absent not in names, f"{label}: {absent} in stand-alone synth")
    attached = [n for n, c in mod.controllers.items() if c.attached(mod)]
    cvals = [struct.unpack("<i", d)[0] for n, d in chunk_list if n == b"CVAL"]
    check(cvals == [before["raw"][n] for n in attached], f"{label}: CVAL values/order")
    cmids = [d for n, d in chunk_list if n == b"CMID"]
    if attached:
        check(len(cmids) == 1, f"{label}: exactly one CMID")
        expected = b"".join(mod.controller_midi_maps[n].cmid_data for n in attached)
        check(cmids and cmids[0] == expected, f"{label}: CMID data")
        i = names.index(b"CMID")
        check(names[i - 1] == b"CVAL", f"{label}: CMID directly after CVALs")
    else:
        check(not cmids, f"{label}: CMID without controllers")
    if mod.chnk:
        i = names.index(b"CHNK")
        check(chunk_list[i][1] == struct.pack("<I", mod.chnk), f"{label}: CHNK value")
        check(b"CVAL" not in names[i:] and b"CMID" not in names[i:], f"{label}: CHNK pos")
        rest = [c for c in chunk_list[i + 1 : -1] if c[0] is not None]
        expected = [c for c in mod.specialized_iff_chunks() if c[0] is not None]
        check(rest == expected, f"{label}: specialised chunks after CHNK")
    else:
        check(b"CHNK" not in names and b"CHNM" not in names, f"{label}: no CHNK")
    if mod.options:
        oc = list(mod.options_chunks())
        check(len(oc) == 2, f"{label}: options_chunks count")
        check(oc[0] == (b"CHNM", struct.pack("<I", mod.options_chnm)), f"{label}: opt CHNM")
        check(oc[1] == (b"CHDT", reference_options_chdt(mod)), f"{label}: opt CHDT")
        pos = [k for k, c in enumerate(chunk_list) if c == oc[0]]
        check(
            any(chunk_list[k + 1] == oc[1] for k in pos), f"{label}: opts in synth"
        )
    # file written == chunks joined
    blob = b"".join(
        n + struct.pack("<I", len(d)) + d for n, d in chunk_list if n is not None
    )
    check(blob == Synth(mod).read(), f"{label}: write_to vs chunks()")
    reread = list(read_iff_chunks(io.BytesIO(blob)))
    check(reread == [c for c in chunk_list if c[0] is not None], f"{label}: iff reread")


def misc_checks():
    # laziness / order of the generator
    amp = m.Amplifier(volume=1024, dc_offset=-128)
    gen = Synth(amp).chunks()
    check(next(gen) == (b"SSYN", b""), "first next() yields magic")
    check(next(gen)[0] == b"VERS", "second next() yields VERS")
    # custom version is byte reversed; loaded version is reported separately
    s = Synth(amp)
    s.sunsynth_version = (9, 8, 7, 6)
    data = s.read()
    check(data[8:20] == b"VERS\x04\0\0\0\x06\x07\x08\x09", "custom VERS bytes")
    s2 = read_sunvox_file(io.BytesIO(data))
    check(s2.loaded_sunsynth_version == (9, 8, 7, 6), "loaded version")
    check(s2.sunsynth_version == (2, 1, 2, 1), "default version")
    check(s2.module.volume == 1024 and s2.module.dc_offset == -128, "amp ends")
    s.sunsynth_version = (256, 0, 0, 0)
    try:
        s.read()
        check(False, "version overflow accepted")
    except struct.error:
        pass
    # out-of-int32 raw value -> struct.error from CVAL packing
    amp2 = m.Amplifier()
    amp2.controller_values["volume"] = 1 << 40
    try:
        Synth(amp2).read()
        check(False, "CVAL overflow accepted")
    except struct.error:
        pass
    # Synth.clone and Module.clone agree, clone of a clone is stable
    lfo = m.Lfo(frequency_unit=m.Lfo.FrequencyUnit.hz, freq=4096)
    c1 = lfo.clone()
    c2 = Synth(lfo).clone().module
    check(state(c1) == state(c2) == state(lfo), "Synth.clone vs Module.clone")
    check(type(Synth(lfo).clone()) is Synth, "Synth.clone type")
    check(synth_bytes(c1.clone().clone()) == synth_bytes(lfo), "clone chain bytes")
    # cloning a module that lives in a project gives a detached stand-alone copy
    p = Project()
    gen_mod = p.new_module(m.Generator, x=100, y=200, layer=3, volume=0, panning=-128)
    gen_mod.drawn_waveform.samples = [(-1) ** i * 4 * i for i in range(32)]
    p.connect(gen_mod, p.output)
    cl = gen_mod.clone()
    check(cl.parent is None and cl.index is None, "clone detached")
    check((cl.x, cl.y, cl.layer) == (512, 512, 0), "clone gets default position")
    check(cl.in_links == [] and cl.out_links == [], "clone has no links")
    check(state(cl) == state(gen_mod), "in-project clone state")
    check(gen_mod.parent is p and p.modules[gen_mod.index] is gen_mod, "source kept")
    # MetaModule: attachment is recomputed while writing
    mm = m.MetaModule()
    mm.option_values["user_defined_controllers"] = 3
    n_before = sum(c.attached(mm) for c in mm.controllers.values())
    names = [n for n, _ in Synth(mm).chunks()]
    n_after = sum(c.attached(mm) for c in mm.controllers.values())
    check(n_after == n_before + 3 == names.count(b"CVAL"), "MetaModule recompute")
    mm.option_values["user_defined_controllers"] = 0
    names = [n for n, _ in Synth(mm).chunks()]
    check(names.count(b"CVAL") == n_before, "MetaModule detach on write")
    # base Module cannot be serialised
    from rv.modules import Module

    try:
        Synth(Module()).read()
        check(False, "base Module serialised")
    except RuntimeError:
        pass
    # options: None option value is a TypeError when written
    ms = m.MultiSynth()
    ms.option_values["trigger"] = None
    try:
        list(ms.options_chunks())
        check(False, "None option accepted")
    except TypeError:
        pass
    # option value wider than its field is masked
    ms = m.MultiSynth()
    ms.option_values["active_curve"] = 7
    ms.option_values["out_port_mode"] = 0xFF
    chdt = list(ms.options_chunks())[1][1]
    check(chdt[2] == 3 and chdt[4] == 0xC0 and len(chdt) == 8, "option masking")


if __name__ == "__main__":
    count, digest = run_all(digest_expected=EXPECTED_DIGEST, extra=layout_checks)
    misc_checks()
    finish(count)
