#!/usr/bin/env python
"""Behaviour check for property C08 (connection graph and slot order persist).

Exercises, on whatever tree is on PYTHONPATH:

  A. ModuleReader.process_SLNK / process_SLnK  (link table parsing, trailing -1)
  B. Project.chunks()                          (SLNK always, SLnK only if needed)
  C. SunVoxReader.process_end_of_file()        (slot reconstruction, out tables)
  D. Project.connect() histories + save/load   (whole pipeline)
  E. SFGS / BVER / legacy pattern handling     (neighbouring project chunks)

The expected values come from small reference models written out below, which
restate the documented behaviour on plain Python lists.  The script prints PASS
and exits 0 when everything agrees.
"""
import hashlib
import logging
import random
import struct
import sys
from io import BytesIO

from rv.api import Pattern, PatternClone, Project, m, read_sunvox_file
from rv.errors import ModuleOwnershipError
from rv.lib.iff import write_chunk
from rv.readers.module import ModuleReader
from rv.readers.reader import ReaderFinished
from rv.readers.sunvox import SunVoxReader

FAILURES = []
COUNT = [0]


def check(cond, msg):
    COUNT[0] += 1
    if not cond:
        FAILURES.append(msg)
        print("FAIL:", msg)


def strip_trailing(seq, value=-1):
    seq = list(seq)
    while seq and seq[-1] == value:
        seq.pop()
    return seq


def pack_i(values):
    return b"".join(struct.pack("<i", v) for v in values)


# --------------------------------------------------------------------------
# A. link table parsing in the module reader
# --------------------------------------------------------------------------


def ref_parse(existing, data):
    """Expected content of a link table after one SLNK/SLnK chunk."""
    if not data:
        return list(existing)
    if len(data) % 4:
        raise struct.error
    values = [
        struct.unpack("<i", data[i : i + 4])[0] for i in range(0, len(data), 4)
    ]
    return strip_trailing(list(existing) + values)


def section_a():
    rnd = random.Random(801)
    cases = [
        [],
        [-1],
        [-1, -1, -1],
        [0],
        [3, -1],
        [3, -1, -1, -1],
        [-1, 3],
        [-1, -1, 4, -1, 5, -1, -1],
        [0, 0, 0],
        [2**31 - 1, -(2**31), -2, -1],
        list(range(40)) + [-1] * 9,
    ]
    for _ in range(60):
        n = rnd.randrange(0, 12)
        cases.append([rnd.choice([-1, -1, 0, 1, 2, 7, 300, -2]) for _ in range(n)])
    for attr, meth in (("in_links", "process_SLNK"), ("in_link_slots", "process_SLnK")):
        other = "in_link_slots" if attr == "in_links" else "in_links"
        for case in cases:
            for prefill in ([], [5], [5, -1], [-1, -1]):
                reader = ModuleReader(BytesIO(), 1)
                reader._object = m.Amplifier()
                table = getattr(reader.object, attr)
                table.extend(prefill)
                data = pack_i(case)
                result = getattr(reader, meth)(data)
                check(result is None, f"{meth} returns None")
                check(getattr(reader.object, attr) is table, f"{meth} keeps list object")
                check(
                    table == ref_parse(prefill, data),
                    f"{meth}({case}) on {prefill}: {table}",
                )
                check(getattr(reader.object, other) == [], f"{meth} leaves {other} alone")
                check(
                    reader.object.out_links == [] and reader.object.out_link_slots == [],
                    f"{meth} leaves out tables alone",
                )
        # two chunks in a row accumulate
        reader = ModuleReader(BytesIO(), 1)
        reader._object = m.Amplifier()
        getattr(reader, meth)(pack_i([1, -1, -1]))
        getattr(reader, meth)(pack_i([-1, 2, -1]))
        check(getattr(reader.object, attr) == [1, -1, 2], f"{meth} accumulates")
        # malformed sizes
        for bad in (b"\x01", b"\x01\x00\x00", b"\x01\x00\x00\x00\xff", b"\0" * 7):
            reader = ModuleReader(BytesIO(), 1)
            reader._object = m.Amplifier()
            getattr(reader.object, attr).extend([9, -1])
            try:
                getattr(reader, meth)(bad)
            except struct.error:
                check(
                    getattr(reader.object, attr) == [9, -1],
                    f"{meth} bad size leaves table untouched",
                )
            else:
                check(False, f"{meth} accepted {bad!r}")
        # empty data is a no-op, even with trailing -1 already present
        reader = ModuleReader(BytesIO(), 1)
        reader._object = m.Amplifier()
        getattr(reader.object, attr).extend([4, -1])
        getattr(reader, meth)(b"")
        check(getattr(reader.object, attr) == [4, -1], f"{meth} empty is no-op")
    # the output module (index 0) is handled the same way
    reader = ModuleReader(BytesIO(), 0)
    reader._object = m.Output()
    reader.process_SLNK(pack_i([2, 1, -1]))
    reader.process_SLnK(pack_i([0, 3, -1]))
    check(reader.object.in_links == [2, 1], "output SLNK")
    check(reader.object.in_link_slots == [0, 3], "output SLnK")


# --------------------------------------------------------------------------
# B. link chunks produced by the writer
# --------------------------------------------------------------------------


def link_chunks_by_module(project):
    """[(chunk names between SFFF..SEND, SLNK data, SLnK data or None)]"""
    out = []
    names, slnk, slnk2 = [], None, None
    for name, data in project.chunks():
        if name == b"SEND":
            out.append((names, slnk, slnk2))
            names, slnk, slnk2 = [], None, None
            continue
        names.append(name)
        if name == b"SLNK":
            slnk = data
        elif name == b"SLnK":
            slnk2 = data
    return out


def section_b():
    rnd = random.Random(802)
    tables = [
        ([], []),
        ([1], [0]),
        ([1], [-1]),
        ([-1], [-1]),
        ([-1, -1], [-1, -1]),
        ([-1, 0], [-1, 0]),
        ([2, 3], [0, 0]),
        ([2, 3], [0, 1]),
        ([2, -1, 3], [0, -1, 0]),
        ([2, -1, 3], [1, -1, 0]),
        ([2], [-2]),
        ([2], [2**31 - 1]),
        ([1, 2, 3, 4, 5], [0, 0, 0, 0, 5]),
    ]
    for _ in range(40):
        n = rnd.randrange(0, 9)
        tables.append(
            (
                [rnd.choice([-1, 0, 1, 2, 3]) for _ in range(n)],
                [rnd.choice([-1, 0, 0, 0, 1, 2]) for _ in range(n)],
            )
        )
    for links, slots in tables:
        p = Project()
        a = p.new_module(m.Amplifier)
        p.attach_module(None)
        b = p.attach_module(m.Amplifier(), loading=True)
        a.in_links[:] = links
        a.in_link_slots[:] = slots
        b.in_links[:] = list(reversed(links))
        b.in_link_slots[:] = list(reversed(slots))
        per_module = link_chunks_by_module(p)
        check(len(per_module) == 4, "one SEND per module slot")
        check(per_module[2] == ([], None, None), "empty module slot writes only SEND")
        check(per_module[0][1] == b"" and per_module[0][2] is None, "output: empty SLNK")
        for idx, (lk, sl) in ((1, (links, slots)), (3, (b.in_links, b.in_link_slots))):
            names, slnk, slnk2 = per_module[idx]
            check(names.count(b"SLNK") == 1, "exactly one SLNK")
            check(slnk == pack_i(lk), f"SLNK data for {lk}")
            need = any(s not in (-1, 0) for s in sl)
            if need:
                check(slnk2 == pack_i(sl), f"SLnK data for {sl}")
                check(names.index(b"SLnK") == names.index(b"SLNK") + 1, "SLnK follows SLNK")
            else:
                check(b"SLnK" not in names, f"no SLnK for {sl}")
            check(names.index(b"SLNK") == names.index(b"SMIP") + 1, "SLNK after SMIP")
            after = names[names.index(b"SLNK") + (2 if need else 1)]
            check(after == b"CVAL", "controller values follow link chunks")
        # the tables themselves are not modified by writing
        check(a.in_links == links and a.in_link_slots == slots, "writer leaves tables")
    # mismatched table lengths / bad values fail with struct.error before SLNK
    for links, slots in (([1, 2], [0]), ([1], [0, 0]), ([1], []), ([2**31], [0]), ([1], [2**31])):
        p = Project()
        a = p.new_module(m.Amplifier)
        a.in_links[:] = links
        a.in_link_slots[:] = slots
        seen = []
        try:
            for name, _ in p.chunks():
                seen.append(name)
        except struct.error:
            tail = seen[seen.index(b"SEND") :]
            check(b"SLNK" not in tail[1:], f"no SLNK emitted before error {links} {slots}")
            check(tail[-1] == b"SMIP", "error raised right after SMIP")
        else:
            check(False, f"writer accepted {links} {slots}")
    # empty in_links ignores whatever is in in_link_slots
    p = Project()
    a = p.new_module(m.Amplifier)
    a.in_link_slots[:] = [5]
    check(link_chunks_by_module(p)[1][1:] == (b"", None), "empty links -> empty SLNK only")
    # golden file: a fixed small project must serialise to the same bytes
    p = Project()
    g = p.new_module(m.Generator)
    f = p.new_module(m.Filter)
    c = p.new_module(m.MultiCtl)
    g >> f >> p.output
    g >> p.output
    c >> [g, f]
    p.connect(~g, f)
    p.attach_pattern(Pattern(lines=2, tracks=1))
    p.attach_pattern(None)
    p.attach_pattern(PatternClone(source=0, x=4))
    p.timeline_position = 3
    digest = hashlib.sha256(p.read()).hexdigest()
    check(digest == GOLDEN.get("file", digest), f"golden file digest {digest}")
    GOLDEN_SEEN["file"] = digest


GOLDEN = {"file": "8a5b4644de927b8f204ef8b73d5f369ca96e784007651d9d39e47e3b0346a519"}
GOLDEN_SEEN = {}


# --------------------------------------------------------------------------
# C. end-of-file pass of the project reader
# --------------------------------------------------------------------------


class RefMod:
    def __init__(self, index, in_links, in_link_slots):
        self.index = index
        self.in_links = list(in_links)
        self.in_link_slots = list(in_link_slots)
        self.out_links = []
        self.out_link_slots = []

    def tables(self):
        return (self.in_links, self.in_link_slots, self.out_links, self.out_link_slots)


def ref_end_of_file(spec):
    """Reference model of the end-of-file link pass.

    spec: list of None or (in_links, in_link_slots).  Returns
    (tables per module | None, warnings) or raises the expected exception.
    """
    mods = [None if s is None else RefMod(i, *s) for i, s in enumerate(spec)]
    warnings = []
    while mods and mods[-1] is None:
        mods.pop()
    for mod in mods[1:] + mods[:1]:
        if not mod or mod.in_link_slots:
            continue
        for src in mod.in_links:
            if src == -1:
                mod.in_link_slots.append(-1)
                continue
            if src >= len(mods):
                warnings.append((mod.index, src))
                continue
            other = mods[src]
            if other is None:
                raise AttributeError
            in_slot = len(other.out_link_slots)
            out_slot = len(mod.in_link_slots)
            mod.in_link_slots.append(in_slot)
            other.out_links.append(mod.index)
            other.out_link_slots.append(out_slot)
    for mod in mods:
        if not mod:
            continue
        for i, src in enumerate(mod.in_links):
            slot = mod.in_link_slots[i]  # may raise IndexError
            other = mods[src]  # may raise IndexError
            if not other:
                raise RuntimeError
            while slot >= len(other.out_links):
                other.out_links.append(-1)
            while slot >= len(other.out_link_slots):
                other.out_link_slots.append(-1)
            if slot != -1:
                other.out_links[slot] = mod.index  # may raise IndexError
                other.out_link_slots[slot] = i
    return [None if x is None else x.tables() for x in mods], warnings


class ListHandler(logging.Handler):
    def __init__(self):
        super().__init__(level=logging.WARNING)
        self.records = []

    def emit(self, record):
        self.records.append(record)


def build_loaded_project(spec, version=(2, 1, 2, 1)):
    """A project in the state the reader has just before the end-of-file pass."""
    p = Project()
    p.modules.clear()
    p.loaded_sunvox_version = version
    for i, s in enumerate(spec):
        if s is None:
            p.attach_module(None, loading=True)
            continue
        mod = m.Output() if i == 0 else m.Amplifier()
        p.attach_module(mod, loading=True)
        mod.in_links.extend(s[0])
        mod.in_link_slots.extend(s[1])
    return p


def run_end_of_file(project):
    reader = SunVoxReader(BytesIO())
    reader._object = project
    handler = ListHandler()
    logger = logging.getLogger("rv.readers.sunvox")
    logger.addHandler(handler)
    old_level = logger.level
    logger.setLevel(logging.WARNING)
    try:
        try:
            reader.process_end_of_file()
        except ReaderFinished:
            outcome = "finished"
        except Exception as e:  # noqa
            outcome = type(e)
        else:
            outcome = "returned"
    finally:
        logger.removeHandler(handler)
        logger.setLevel(old_level)
    return outcome, handler.records


def compare_end_of_file(spec, label):
    try:
        expected, warnings = ref_end_of_file(spec)
        expected_outcome = "finished"
    except Exception as e:  # noqa
        expected, warnings = None, None
        expected_outcome = type(e)
    project = build_loaded_project(spec)
    identities = [
        None if x is None else tuple(id(t) for t in (x.in_links, x.in_link_slots, x.out_links, x.out_link_slots))
        for x in project.modules
    ]
    outcome, records = run_end_of_file(project)
    check(outcome == expected_outcome, f"{label}: outcome {outcome} != {expected_outcome} for {spec}")
    if expected is None:
        return
    got = [
        None if x is None else (x.in_links, x.in_link_slots, x.out_links, x.out_link_slots)
        for x in project.modules
    ]
    check(got == expected, f"{label}: tables {got} != {expected} for {spec}")
    for x, ids in zip(project.modules, identities):
        if x is not None:
            now = tuple(id(t) for t in (x.in_links, x.in_link_slots, x.out_links, x.out_link_slots))
            check(now == ids, f"{label}: list objects are updated in place")
    check(
        [(r.msg, r.args) for r in records]
        == [
            ("Found SLNK on %r referencing non-existent module %r", w)
            for w in warnings
        ],
        f"{label}: warnings {[r.getMessage() for r in records]} != {warnings}",
    )
    check(all(r.levelno == logging.WARNING for r in records), f"{label}: warning level")


def random_spec(rnd, weird):
    n = rnd.randrange(1, 8)
    spec = []
    for i in range(n):
        if i and rnd.random() < 0.15:
            spec.append(None)
            continue
        k = rnd.randrange(0, 5)
        if weird:
            pool = [-1, -1] + list(range(n)) + [n, n + 3, -2]
        else:
            pool = [-1] + [j for j in range(n)]
        links = [rnd.choice(pool) for _ in range(k)]
        mode = rnd.choice(["absent", "absent", "full", "short" if weird else "full"])
        if mode == "absent":
            slots = []
        else:
            slots = [
                -1 if x == -1 and rnd.random() < 0.8 else rnd.choice([0, 0, 1, 2, 3, -1] + ([-2] if weird else []))
                for x in links
            ]
            if mode == "short" and slots:
                slots.pop()
        spec.append((links, slots))
    return spec


def section_c():
    fixed = [
        [([], [])],
        [([1], []), ([], [])],
        [([1], [0]), ([], [])],
        [([1, 2], []), ([2], []), ([], [])],
        [([1, 2], []), ([2], []), ([1], [])],  # self loop and cycle
        [([2, -1, 1], []), ([], []), ([1], [])],  # freed slot in the middle
        [([2, -1, 1], [1, -1, 0]), ([0], [0]), ([1], [1])],
        [([1], [3]), ([], [])],  # sparse out slot
        [([1], []), None, ([1], [2]), ([1], [])],  # slot chunk for some modules only
        [([1], []), None, ([1], [])],
        [([1], []), ([], []), None, None],  # trailing empty modules
        [([2], []), None, ([], [])],
        [([1], []), None],  # link to an empty module slot
        [([1], [0]), None, ([], [])],  # same, with explicit slot
        [([5], []), ([], [])],  # non-existent module, slots absent
        [([5], [0]), ([], [])],  # non-existent module, slots present
        [([1, 5, 1], []), ([], [])],
        [([-1], [0]), ([], [])],  # freed link with a live slot number
        [([-1, -1], []), ([0], [])],
        [([1], [-1]), ([], [])],
        [([1], [-2]), ([], [])],
        [([1, 1], [-2, 0]), ([], [])],
        [([1, 2], [0]), ([], []), ([], [])],  # slot table shorter than link table
        [([-2], []), ([], []), ([], [])],
        [([1, 1, 1], []), ([], [])],  # duplicate links
        [([1, 1, 1], [0, 0, 0]), ([], [])],  # colliding slots
        [([1, 2, 3], [0, 0, 0]), ([2, 3], [1, 1]), ([3], [2]), ([0], [0])],
    ]
    for i, spec in enumerate(fixed):
        compare_end_of_file(spec, f"fixed[{i}]")
    rnd = random.Random(803)
    for i in range(400):
        compare_end_of_file(random_spec(rnd, weird=False), f"rand[{i}]")
    for i in range(400):
        compare_end_of_file(random_spec(rnd, weird=True), f"weird[{i}]")
    # no modules at all
    p = Project()
    p.modules.clear()
    outcome, records = run_end_of_file(p)
    check(outcome == "finished" and p.modules == [] and not records, "empty module list")
    p = Project()
    p.modules.clear()
    p.modules.extend([None, None])
    outcome, _ = run_end_of_file(p)
    check(outcome == "finished" and p.modules == [], "only empty module slots")
    # legacy pattern fix-up happens after the link pass, for real patterns only
    for version, masked in (((1, 9, 4, 9), True), ((1, 9, 5, 0), False), ((2, 1, 2, 1), False), ((1, 7), True)):
        p = build_loaded_project([([1], []), ([], [])], version=version)
        pat = Pattern(lines=2, tracks=2)
        pat.data[0][0].module = 0x1FE
        pat.data[1][1].module = 0x07
        pat.data[1][0].module = 0xFF00
        p.attach_pattern(pat)
        p.attach_pattern(None)
        p.attach_pattern(PatternClone(source=0))
        outcome, _ = run_end_of_file(p)
        got = [[n.module for n in line] for line in pat.data]
        want = [[0xFE, 0], [0, 7]] if masked else [[0x1FE, 0], [0xFF00, 7]]
        check(outcome == "finished" and got == want, f"legacy module mask {version}: {got}")
        check(p.modules[1].out_links == [0], "links rebuilt alongside pattern fix-up")
    # an error in the link pass leaves the patterns untouched
    p = build_loaded_project([([1], [0]), None, ([], [])], version=(1, 8, 0, 0))
    pat = Pattern(lines=1, tracks=1)
    pat.data[0][0].module = 0x1FE
    p.attach_pattern(pat)
    outcome, _ = run_end_of_file(p)
    check(outcome is RuntimeError and pat.data[0][0].module == 0x1FE, "error precedes pattern fix-up")


# --------------------------------------------------------------------------
# D. connect histories and full save/load
# --------------------------------------------------------------------------


def ref_connect(tables, src, dst, disconnect):
    """tables: {index: [in_links, in_link_slots, out_links, out_link_slots]}"""
    in_links, in_slots = tables[dst][0], tables[dst][1]
    out_links, out_slots = tables[src][2], tables[src][3]
    if disconnect:
        if src not in in_links:
            return
        i = in_links.index(src)
        o = out_links.index(dst)
        in_links[i] = -1
        out_links[o] = -1
        in_slots[i] = -1
        out_slots[o] = -1
        return
    if src in in_links:
        return
    i = len(in_links)
    in_links.append(src)
    o = len(out_links)
    out_links.append(dst)
    in_slots.append(o)
    out_slots.append(i)


def tables_of(project):
    return [
        None
        if x is None
        else [list(x.in_links), list(x.in_link_slots), list(x.out_links), list(x.out_link_slots)]
        for x in project.modules
    ]


def rewrite_links(project, overrides):
    """Serialise project, replacing the link chunks of some modules.

    overrides: {module index: (in_links, in_link_slots or None)}
    """
    f = BytesIO()
    index = 0
    for name, data in project.chunks():
        if index in overrides and name in (b"SLNK", b"SLnK"):
            if name == b"SLNK":
                links, slots = overrides[index]
                write_chunk(f, b"SLNK", pack_i(links))
                if slots is not None:
                    write_chunk(f, b"SLnK", pack_i(slots))
            continue
        write_chunk(f, name, data)
        if name == b"SEND":
            index += 1
    f.seek(0)
    return f


def load_outcome(f):
    try:
        return read_sunvox_file(f)
    except Exception as e:  # noqa
        return type(e)


def section_d():
    rnd = random.Random(804)
    for trial in range(150):
        p = Project()
        n = rnd.randrange(1, 7)
        mods = [p.output]
        for i in range(n):
            if rnd.random() < 0.15:
                p.attach_module(None)
            cls = rnd.choice([m.Amplifier, m.MultiCtl, m.Generator, m.Filter])
            mods.append(p.attach_module(cls(), loading=True))
        model = {x.index: [[], [], [], []] for x in mods}
        for step in range(rnd.randrange(0, 25)):
            a, b = rnd.choice(mods), rnd.choice(mods)
            disconnect = rnd.random() < 0.35
            style = rnd.randrange(4)
            if disconnect:
                if style == 0:
                    p.connect(~a, b)
                elif style == 1:
                    p.connect(a, ~b)
                elif style == 2:
                    p.connect([~a], [~b])
                else:
                    a >> ~b
            else:
                if style == 0:
                    p.connect(a, b)
                elif style == 1:
                    a >> b
                elif style == 2:
                    b << a
                else:
                    p.connect([a], [b])
            ref_connect(model, a.index, b.index, disconnect)
            got = {x.index: tables_of(p)[x.index] for x in mods}
            check(got == model, f"connect history {trial}/{step}")
        # list operands: every pair, row by row
        if len(mods) >= 3 and rnd.random() < 0.5:
            srcs = rnd.sample(mods, 2)
            dsts = rnd.sample(mods, 2)
            p.connect(srcs, dsts)
            for a in srcs:
                for b in dsts:
                    ref_connect(model, a.index, b.index, False)
            check({x.index: tables_of(p)[x.index] for x in mods} == model, "list connect")
        before = tables_of(p)
        # what the file says
        file_spec = []
        for t in before:
            if t is None:
                file_spec.append(None)
                continue
            links = strip_trailing(t[0])
            slots = strip_trailing(t[1]) if any(s not in (-1, 0) for s in t[1]) else []
            file_spec.append((links if t[0] else [], slots if t[0] else []))
        expected, _ = ref_end_of_file(file_spec)
        loaded = p.clone()
        check(tables_of(p) == before, "saving does not modify the project")
        after = tables_of(loaded)
        check(
            [None if t is None else tuple(t) for t in after]
            == [None if t is None else tuple(map(list, t)) for t in expected],
            f"roundtrip {trial}: {after} != {expected}",
        )
        check(
            [None if t is None else t[0] for t in after]
            == [None if t is None else strip_trailing(t[0]) for t in before][: len(after)],
            f"roundtrip {trial}: in_links preserved",
        )
        check([type(x) for x in loaded.modules] == [type(x) for x in p.modules][: len(after)], "module types")
        # second generation is a fixed point
        again = tables_of(loaded.clone())
        second_spec = []
        for t in after:
            if t is None:
                second_spec.append(None)
                continue
            slots = strip_trailing(t[1]) if any(s not in (-1, 0) for s in t[1]) else []
            second_spec.append((strip_trailing(t[0]), slots if t[0] else []))
        expected2, _ = ref_end_of_file(second_spec)
        check(
            [None if t is None else tuple(t) for t in again]
            == [None if t is None else tuple(map(list, t)) for t in expected2],
            f"second roundtrip {trial}",
        )
        # files with the slot chunk forced present / absent / partial
        for variant in ("all", "none", "some"):
            overrides = {}
            spec = []
            for idx, t in enumerate(before):
                if t is None:
                    spec.append(None)
                    continue
                present = {"all": True, "none": False, "some": rnd.random() < 0.5}[variant]
                overrides[idx] = (t[0], t[1] if present else None)
                if t[0]:
                    spec.append((strip_trailing(t[0]), strip_trailing(t[1]) if present else []))
                else:
                    spec.append(([], []))
            try:
                want, _ = ref_end_of_file(spec)
            except Exception as e:  # noqa
                want = type(e)
            got = load_outcome(rewrite_links(p, overrides))
            if isinstance(want, type):
                check(got is want, f"crafted {variant} {trial}: {got} != {want}")
            else:
                check(not isinstance(got, type), f"crafted {variant} {trial}: raised {got}")
                if not isinstance(got, type):
                    check(
                        [None if t is None else tuple(t) for t in tables_of(got)]
                        == [None if t is None else tuple(map(list, t)) for t in want],
                        f"crafted {variant} {trial}: {tables_of(got)} != {want}",
                    )
    # ownership errors and no-ops of connect
    p, q = Project(), Project()
    a = p.new_module(m.Amplifier)
    b = q.new_module(m.Amplifier)
    for args in ((a, b), (b, a), (~a, b), ([a], [p.output, b])):
        try:
            p.connect(*args)
        except ModuleOwnershipError as e:
            check(
                str(e) == "Modules must have same parent to be connected or disconnected",
                "ownership message",
            )
        else:
            check(False, "foreign module accepted")
    check(a.out_links == [0] and p.output.in_links == [a.index], "partial list connect before error")
    check(p.connect(a, p.output) is None and a.out_links == [0], "connect twice is a no-op")
    p.connect(~p.output, a)
    check(a.out_links == [0], "disconnecting an absent link is a no-op")
    # hand-made files: crafted link chunks on a simple 4-module project
    base = Project()
    x, y, z = (base.new_module(m.Amplifier) for _ in range(3))
    crafted = [
        {0: ([3, 2, 1], None)},
        {0: ([3, 2, 1], [0, 0, 0])},
        {0: ([3, -1, 1, -1, -1], None), 2: ([1, 3], [4, 2])},
        {0: ([1], None), 1: ([2], None), 2: ([3], None), 3: ([1], None)},
        {0: ([1, 1], None)},
        {0: ([9], None)},
        {0: ([9], [0])},
        {1: ([-1, -1, -1], None)},
        {1: ([-1, -1, -1], [-1, -1, -1])},
        {1: ([2, -1], [-1, 5])},
        {1: ([2, 3], [1])},
        {2: ([1, 3], [-1, -1])},
        {3: ([3], None)},
        {3: ([3], [2])},
    ]
    for overrides in crafted:
        spec = [([], [])] * 4
        spec = [
            (strip_trailing(overrides[i][0]), strip_trailing(overrides[i][1] or []))
            if i in overrides
            else ([], [])
            for i in range(4)
        ]
        try:
            want, _ = ref_end_of_file(spec)
        except Exception as e:  # noqa
            want = type(e)
        got = load_outcome(rewrite_links(base, overrides))
        if isinstance(want, type):
            check(got is want, f"hand-made {overrides}: {got} != {want}")
        else:
            check(
                not isinstance(got, type)
                and [tuple(t) for t in tables_of(got)] == [tuple(map(list, t)) for t in want],
                f"hand-made {overrides}: {got if isinstance(got, type) else tables_of(got)} != {want}",
            )
    # a MultiCtl keeps its i-th mapping on its i-th outgoing link
    p = Project()
    ctl = p.new_module(m.MultiCtl)
    amps = [p.new_module(m.Amplifier) for _ in range(4)]
    ctl >> amps
    p.connect(~ctl, amps[1])
    loaded = p.clone()
    check(loaded.modules[ctl.index].out_links == [amps[0].index, -1, amps[2].index, amps[3].index], "multictl slots")
    check(loaded.modules[ctl.index].out_link_slots == [0, -1, 0, 0], "multictl slot numbers")




# --------------------------------------------------------------------------
# E. project-level chunks handled next to the link pass
# --------------------------------------------------------------------------


def section_e():
    for val in list(range(64)) + [0x40, 0x7F, 0x1C7, 0xFFFFFFFF, 0x12345678]:
        reader = SunVoxReader(BytesIO())
        reader._object = Project()
        check(reader.process_SFGS(struct.pack("<I", val)) is None, "SFGS returns None")
        check(
            (reader.object.receive_sync_midi, reader.object.receive_sync_other)
            == (val % 8, (val // 8) % 8),
            f"SFGS {val:#x}",
        )
    for midi in range(8):
        for other in range(8):
            p = Project()
            p.receive_sync_midi, p.receive_sync_other = midi, other
            q = p.clone()
            check((q.receive_sync_midi, q.receive_sync_other) == (midi, other), "sync roundtrip")
    # files without BVER get the legacy "based on" version; others keep theirs
    p = Project()
    p.new_module(m.Amplifier) >> p.output
    f = BytesIO()
    for name, data in p.chunks():
        if name != b"BVER":
            write_chunk(f, name, data)
    f.seek(0)
    q = read_sunvox_file(f)
    check(q.based_on_version == (1, 7, 0, 0), "legacy based-on version")
    check(q.modules[1].out_links == [0] and q.output.in_link_slots == [0], "legacy file links")
    p.based_on_version = (1, 9, 4, 2)
    p.sunvox_version = (1, 9, 4, 9)
    q = p.clone()
    check(q.based_on_version == (1, 9, 4, 2), "explicit based-on version")
    check(q.loaded_sunvox_version == (1, 9, 4, 9), "loaded version")
    # whole-file legacy pattern fix-up
    p = Project()
    p.sunvox_version = (1, 9, 4, 9)
    pat = Pattern(lines=1, tracks=1)
    pat.data[0][0].module = 0x1FE
    p.attach_pattern(pat)
    check(p.clone().patterns[0].data[0][0].module == 0xFE, "legacy file masks module")
    p.sunvox_version = (1, 9, 5, 0)
    check(p.clone().patterns[0].data[0][0].module == 0x1FE, "current file keeps module")
    # reading to the end of the file is reported through ReaderFinished only
    reader = SunVoxReader(BytesIO())
    reader._object = Project()
    try:
        reader.process_end_of_file()
    except ReaderFinished:
        check(True, "ReaderFinished")
    else:
        check(False, "process_end_of_file returned")


def main():
    logging.getLogger("rv").addHandler(logging.NullHandler())
    logging.getLogger("rv").propagate = False
    section_a()
    section_b()
    section_c()
    section_d()
    section_e()
    if "--show-golden" in sys.argv:
        print(GOLDEN_SEEN)
    if FAILURES:
        print(f"{len(FAILURES)} of {COUNT[0]} checks FAILED")
        sys.exit(1)
    print(f"PASS ({COUNT[0]} checks)")


if __name__ == "__main__":
    main()
