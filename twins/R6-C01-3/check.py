"""Behaviour check for project building / finishing code (property C01).

Exercises Project.attach_module / attach_pattern / connect (link and unlink,
lists, inverted operands, ownership errors), SunVoxReader.process_end_of_file
(empty-slot trimming, derivation of missing link slots, out-link rebuilding,
legacy high-byte clearing, error for a link to an empty slot),
Module.iff_chunks / options_chunks / load_options / load_cmid / clone and
Container.read / write_to / clone, for all attachable module types.
"""
import logging
import struct
import sys
from io import BytesIO

from rv.api import NOTE, Pattern, PatternClone, Project, Synth, m, read_sunvox_file
from rv.errors import ModuleOwnershipError, PatternOwnershipError
from rv.modules import MODULE_CLASSES
from rv.modules.module import Chunk, Module

logging.disable(logging.CRITICAL)

FAILURES = []


def check(cond, label):
    if not cond:
        FAILURES.append(label)
        print("FAIL:", label)


def raises(exc, fn, label):
    try:
        fn()
    except exc as e:
        return e
    except Exception as e:  # noqa
        check(False, "%s: expected %s, got %r" % (label, exc.__name__, e))
        return None
    check(False, "%s: expected %s, nothing raised" % (label, exc.__name__))


def chunk(name, data=b""):
    return name + struct.pack("<I", len(data)) + data


def parse(blob):
    out, pos = [], 0
    while pos < len(blob):
        (size,) = struct.unpack("<I", blob[pos + 4 : pos + 8])
        out.append((blob[pos : pos + 4], blob[pos + 8 : pos + 8 + size]))
        pos += 8 + size
    return out


def save(container):
    f = BytesIO()
    container.write_to(f)
    return f.getvalue()


def links(mod):
    return (
        list(mod.in_links),
        list(mod.in_link_slots),
        list(mod.out_links),
        list(mod.out_link_slots),
    )


def rstrip_unused(seq):
    seq = list(seq)
    while seq and seq[-1] == -1:
        seq.pop()
    return seq


# --------------------------------------------------------------------------- attach


def check_attach():
    p = Project()
    check(p.modules == [p.output] and p.output.index == 0, "fresh project")
    check(p.attach_module(None) is None and p.modules[1] is None, "None appended")
    check(p.attach_module(None, loading=True) is None and len(p.modules) == 3, "None x2")
    a = m.Amplifier()
    check(p.attach_module(a) is a, "attach returns module")
    check(a.index == 1 and p.modules[1] is a and a.parent is p, "first empty slot reused")
    b = m.Amplifier()
    p.attach_module(b, loading=True)
    check(b.index == 3 and len(p.modules) == 4 and p.modules[2] is None, "loading appends")
    before = list(p.modules)
    check(p.attach_module(a) is a and p.modules == before, "re-attach is a no-op")
    c = p.new_module(m.Generator)
    check(c.index == 2, "new_module fills remaining gap")
    d = p.new_module(m.Generator)
    check(d.index == 4 and p.modules[-1] is d, "then appends")
    raises(RuntimeError, lambda: p.attach_module(Module()), "base Module rejected")
    other = Project()
    raises(ModuleOwnershipError, lambda: other.attach_module(a), "foreign module rejected")
    check(a.parent is p and a not in other.modules, "foreign attach left no trace")
    # an Output only becomes project.output in slot 0
    q = Project()
    first = q.output
    extra = m.Output()
    q.attach_module(extra)
    check(q.output is first and extra.index == 1, "second Output is not .output")
    r = Project()
    r.modules.clear()
    new_out = m.Output()
    r.attach_module(new_out, loading=True)
    check(r.output is new_out and new_out.index == 0, "Output in slot 0 becomes .output")
    # += sugar
    s = Project()
    g1, g2 = m.Generator(), m.Generator()
    pat = Pattern()
    s += [g1, [g2], pat]
    s += PatternClone(source=0)
    check([g1.index, g2.index] == [1, 2] and s.patterns[0] is pat, "__iadd__")
    check(isinstance(s.patterns[1], PatternClone), "__iadd__ clone")
    # patterns
    t = Project()
    p1 = Pattern()
    check(t.attach_pattern(p1) == 0 and p1.project is t, "attach_pattern index 0")
    check(t.attach_pattern(None) == 1 and t.patterns[1] is None, "empty pattern slot")
    cl = PatternClone(source=0)
    check(t.attach_pattern(cl) == 2 and cl.project is t, "clone attached")
    raises(PatternOwnershipError, lambda: t.attach_pattern(p1), "pattern attached twice")
    raises(PatternOwnershipError, lambda: Project().attach_pattern(cl), "clone foreign")
    check(len(t.patterns) == 3, "failed attach_pattern appends nothing")


# -------------------------------------------------------------------------- connect


def check_connect():
    p = Project()
    a = p.new_module(m.Generator)
    b = p.new_module(m.Generator)
    c = p.new_module(m.Amplifier)
    d = p.new_module(m.Amplifier)
    out = p.output
    check(p.connect(a, c) is None, "connect returns None")
    check(links(a) == ([], [], [3], [0]) and links(c) == ([1], [0], [], []), "a->c")
    p.connect(a, c)
    check(links(a) == ([], [], [3], [0]) and links(c) == ([1], [0], [], []), "idempotent")
    p.connect([a, b], [c, d])
    check(links(a) == ([], [], [3, 4], [0, 0]), "a fan-out")
    check(links(b) == ([], [], [3, 4], [1, 1]), "b fan-out")
    check(links(c) == ([1, 2], [0, 0], [], []), "c fan-in")
    check(links(d) == ([1, 2], [1, 1], [], []), "d fan-in")
    res = c >> out
    check(res is out, ">> returns right operand")
    d >> out
    check(links(out) == ([3, 4], [0, 0], [], []), "output fan-in")
    # disconnect through either inverted operand
    p.connect(~a, c)
    check(links(a) == ([], [], [-1, 4], [-1, 0]), "unlink via inverted source")
    check(c.in_links == [-1, 2] and c.in_link_slots == [-1, 0], "c after unlink")
    p.connect(b, ~d)
    check(links(b) == ([], [], [3, -1], [1, -1]), "unlink via inverted target")
    check(d.in_links == [1, -1] and d.in_link_slots == [1, -1], "d after unlink")
    snapshot = [links(x) for x in p.modules]
    p.connect(~a, c)
    p.connect(~b, ~d)
    p.connect(~d, a)
    check([links(x) for x in p.modules] == snapshot, "unlinking nothing is a no-op")
    # reconnect after disconnect appends a new entry
    a >> c
    check(c.in_links == [-1, 2, 1] and c.in_link_slots == [-1, 0, 2], "relink target")
    check(a.out_links == [-1, 4, 3] and a.out_link_slots == [-1, 0, 2], "relink source")
    # mixed list with an inverted member
    e = p.new_module(m.Reverb)
    p.connect([a, b], e)
    p.connect([~a, b], [e])
    check(e.in_links == [-1, 2] and e.in_link_slots == [-1, 2], "mixed list")
    # keep the unused entry on d away from the end (a trailing one is not saved)
    e >> d
    check(d.in_links == [1, -1, 5] and d.in_link_slots == [1, -1, 0], "hole kept inside")
    # self connection
    f = p.new_module(m.Delay)
    f >> f
    check(links(f) == ([f.index], [0], [f.index], [0]), "self link")
    # ownership
    foreign = Project().new_module(m.Generator)
    err = raises(ModuleOwnershipError, lambda: p.connect(foreign, c), "foreign source")
    if err is not None:
        check(isinstance(err.__context__, ValueError), "ValueError kept as context")
    raises(ModuleOwnershipError, lambda: p.connect(a, ~foreign), "foreign inverted target")
    raises(ModuleOwnershipError, lambda: p.connect(m.Generator(), c), "unattached source")
    check(c.in_links == [-1, 2, 1], "failed connect leaves links alone")
    # generators as operands: the inner one is consumed during the first outer pass
    g = Project()
    x, y, z = (g.new_module(m.Generator) for _ in range(3))
    g.connect(iter([x, y]), iter([z, g.output]))
    check(z.in_links == [1] and g.output.in_links == [1], "iterator operands")
    # ModuleList sugar
    h = Project()
    s1, s2, mix = h.new_module(m.Generator), h.new_module(m.Generator), h.new_module(m.Amplifier)
    ret = mix << [s1, s2]
    check(list(ret) == [s1, s2] and ret.parent is h, "<< returns ModuleList")
    ret >> h.output
    check(h.output.in_links == [1, 2] and mix.in_links == [1, 2], "ModuleList >>")
    return p


# ------------------------------------------------------------------ end of file pass


def module_chunks(mtype=None, extra=()):
    out = [chunk(b"SFFF", struct.pack("<I", 0x49)), chunk(b"SNAM", b"m".ljust(32, b"\0"))]
    if mtype:
        out.append(chunk(b"STYP", mtype + b"\0"))
    out.extend(extra)
    out.append(chunk(b"SEND"))
    return b"".join(out)


def slnk(*v):
    return chunk(b"SLNK", struct.pack("<%di" % len(v), *v))


def slnk_slots(*v):
    return chunk(b"SLnK", struct.pack("<%di" % len(v), *v))


def head(vers=(1, 2, 1, 2)):
    return chunk(b"SVOX") + chunk(b"VERS", bytes(vers))


def load(blob):
    return read_sunvox_file(BytesIO(blob))


def check_end_of_file():
    # No SLnK anywhere: slots are handed out starting with module 1, output last.
    blob = (
        head()
        + module_chunks(None, [slnk(3, 1)])
        + module_chunks(b"Generator")
        + module_chunks(b"Generator")
        + module_chunks(b"Amplifier", [slnk(1, -1, 2)])
        + module_chunks(b"Amplifier", [slnk(2, 1)])
        + chunk(b"SEND")
        + chunk(b"SEND")
    )
    p = load(blob)
    check(len(p.modules) == 5, "trailing empty slots dropped")
    out, g1, g2, a1, a2 = p.modules
    check(links(a1) == ([1, -1, 2], [0, -1, 0], [0], [0]), "a1 derived slots")
    check(links(a2) == ([2, 1], [1, 1], [], []), "a2 derived slots")
    check(links(out) == ([3, 1], [0, 2], [], []), "output handled last")
    check(links(g1) == ([], [], [3, 4, 0], [0, 1, 1]), "g1 out links")
    check(links(g2) == ([], [], [3, 4], [2, 0]), "g2 out links")
    # Explicit SLnK: out-links are placed at the recorded positions and padded.
    blob = (
        head()
        + module_chunks(None, [slnk(1), slnk_slots(3)])
        + module_chunks(b"Generator")
        + module_chunks(b"Amplifier", [slnk(1, -1), slnk_slots(1, -1)])
    )
    p = load(blob)
    out, g, a = p.modules
    check(out.in_link_slots == [3] and a.in_link_slots == [1], "SLnK kept (trimmed)")
    check(g.out_links == [-1, 2, -1, 0], "out_links padded with -1")
    check(g.out_link_slots == [-1, 0, -1, 0], "out_link_slots padded with -1")
    # an in-link of -1 looks at the last module but never writes to it
    blob = (
        head()
        + module_chunks(None, [slnk(-1, 1)])
        + module_chunks(b"Generator")
    )
    p = load(blob)
    check(links(p.modules[0]) == ([-1, 1], [-1, 0], [], []), "-1 link on output")
    check(links(p.modules[1]) == ([], [], [0], [1]), "source of the real link")
    # link to an empty slot in the middle -> RuntimeError
    blob = (
        head()
        + module_chunks(None, [slnk(1, 2), slnk_slots(0, 0)])
        + chunk(b"SEND")
        + module_chunks(b"Generator")
    )
    err = raises(RuntimeError, lambda: load(blob), "link to empty slot")
    check(err is None or err.args == (), "RuntimeError without arguments")
    # link beyond the module list with no SLnK: warned about and skipped,
    # but the rebuild pass then fails on the missing slot entry.
    blob = head() + module_chunks(None, [slnk(7)]) + module_chunks(b"Generator")
    raises(IndexError, lambda: load(blob), "dangling link, no SLnK")
    # all slots empty -> no modules at all
    p = load(head() + chunk(b"SEND") + chunk(b"SEND"))
    check(p.modules == [], "only empty slots")
    # legacy high byte
    cells = struct.pack("<BBHHH", 1, 2, 0xABCD, 3, 4) * 2
    pat = (
        chunk(b"PDTA", cells)
        + chunk(b"PCHN", struct.pack("<I", 2))
        + chunk(b"PLIN", struct.pack("<I", 1))
        + chunk(b"PEND")
    )
    clone = chunk(b"PPAR", struct.pack("<I", 0)) + chunk(b"PEND")
    for vers, want in (((9, 9, 4, 9, 1)[1:], 0xCD), ((0, 0, 5, 9, 1)[1:], 0xABCD)):
        p = load(head(vers) + pat + chunk(b"PEND") + clone + module_chunks())
        got = [n.module for n in p.patterns[0].data[0]]
        check(got == [want, want], "legacy high byte for VERS %r" % (vers,))
        check(p.patterns[1] is None and p.patterns[2].source == 0, "other slots intact")


# ------------------------------------------------------------------------- modules


def check_module_chunks():
    p = Project()
    gen = p.new_module(
        m.Generator,
        name="€" * 11,  # 33 bytes: straddles the 32-byte limit
        x=-5,
        y=6,
        layer=7,
        mod_scale=300,
        color=(1, 2, 3),
        midi_in_always=True,
        midi_in_channel=4,
        midi_out_name="dev é",
        midi_out_channel=2,
        midi_out_bank=-1,
        midi_out_program=9,
        finetune=-3,
        relative_note=12,
        visualization=0x11223344,
    )
    got = list(gen.iff_chunks())
    want = [
        (b"SFFF", struct.pack("<I", gen.flags)),
        (b"SNAM", ("€" * 10).encode("utf-8").ljust(32, b"\0")),
        (b"STYP", b"Generator\0"),
        (b"SFIN", struct.pack("<i", -3)),
        (b"SREL", struct.pack("<i", 12)),
        (b"SXXX", struct.pack("<i", -5)),
        (b"SYYY", struct.pack("<i", 6)),
        (b"SZZZ", struct.pack("<i", 7)),
        (b"SSCL", struct.pack("<I", 300)),
        (b"SVPR", struct.pack("<I", 0x11223344)),
        (b"SCOL", bytes((1, 2, 3))),
        (b"SMII", struct.pack("<I", 9)),
        (b"SMIN", "dev é".encode("utf-8") + b"\0"),
        (b"SMIC", struct.pack("<I", 2)),
        (b"SMIB", struct.pack("<i", -1)),
        (b"SMIP", struct.pack("<i", 9)),
    ]
    check(got == want, "iff_chunks inside a project")
    drop = {b"SXXX", b"SYYY", b"SZZZ", b"SVPR"}
    check(
        list(gen.iff_chunks(in_project=False)) == [c for c in want if c[0] not in drop],
        "iff_chunks(in_project=False)",
    )
    loose = m.Generator()
    check(
        [n for n, _ in loose.iff_chunks()]
        == [n for n, _ in want if n not in drop and n != b"SMIN"],
        "unattached module, no MIDI out name",
    )
    check(
        [n for n, _ in loose.iff_chunks(in_project=True)]
        == [n for n, _ in want if n != b"SMIN"],
        "in_project=True forces placement chunks",
    )
    check(b"STYP" not in [n for n, _ in p.output.iff_chunks()], "Output has no STYP")
    for name in ("", "a" * 32, "a" * 31 + "é", "a" * 30 + "€", "\U0001F3B5" * 9, "x" * 80):
        loose.name = name
        snam = dict(loose.iff_chunks())[b"SNAM"]
        expect = name.encode("utf-8")[:32].decode("utf-8", "ignore").encode("utf-8")
        check(len(snam) == 32 and snam == expect.ljust(32, b"\0"), "SNAM for %r" % name)
    loose.midi_out_name = ""
    check(b"SMIN" not in dict(loose.iff_chunks()), "empty MIDI out name skipped")
    gen_iter = Module().iff_chunks()
    raises(RuntimeError, lambda: next(gen_iter), "base Module cannot be serialized")
    bad = m.Generator(color=(1, 2))
    raises(struct.error, lambda: list(bad.iff_chunks()), "two-component colour")
    bad = m.Generator(color=(1, 2, 256))
    raises(struct.error, lambda: list(bad.iff_chunks()), "colour component overflow")
    bad = m.Generator(midi_out_channel=-1)
    raises(struct.error, lambda: list(bad.iff_chunks()), "negative SMIC")
    # chunks are produced lazily, one field at a time
    lazy = m.Generator()
    it = lazy.iff_chunks()
    next(it)
    lazy.name = "changed later"
    check(next(it)[1].startswith(b"changed later\0"), "fields read when yielded")


def check_options_and_cmid():
    seen_options = 0
    for mtype, cls in sorted(MODULE_CLASSES.items()):
        if mtype == "Output":
            continue
        mod = cls()
        # CMID: full, truncated (partial record ignored) and empty data
        names = list(mod.controllers.keys())
        full = b"".join(
            struct.pack("<BBBBHBB", 1 + i % 8, i % 16, i % 6, 0, 1000 + i, 0, 0xC8)
            for i in range(len(names))
        )
        mod.load_cmid(full)
        for i, n in enumerate(names):
            mm = mod.controller_midi_maps[n]
            check(
                (mm.message_type.value, mm.channel, mm.slope.value, mm.message_parameter)
                == (1 + i % 8, i % 16, i % 6, 1000 + i),
                "%s: cmid %s" % (mtype, n),
            )
        if len(names) >= 2:
            other = cls()
            other.load_cmid(full[:13])
            check(other.controller_midi_maps[names[0]].message_parameter == 1000, "1st rec")
            check(list(other.controller_midi_maps.keys()) == [names[0]], "partial ignored")
        blank = cls()
        blank.load_cmid(b"")
        check(len(blank.controller_midi_maps) == 0, mtype + ": empty CMID touches nothing")
        if not mod.options:
            continue
        seen_options += 1
        # options: flip every option, save, reload through load_options
        for opt_name, opt in mod.options.items():
            if opt.size == 1:
                setattr(mod, opt_name, not mod.option_values[opt_name])
            else:
                setattr(mod, opt_name, (2**opt.size) - 2)
        got = list(mod.options_chunks())
        check(got[0] == (b"CHNM", struct.pack("<I", mod.options_chnm)), mtype + ": CHNM")
        name, chdt = got[1]
        used = max(o.byte for o in mod.options.values()) + 1
        check(name == b"CHDT" and len(chdt) == used and len(got) == 2, mtype + ": CHDT")
        expect = [0] * used
        for o in mod.options.values():
            expect[o.byte] |= (int(mod.option_values[o.name]) & ((1 << o.size) - 1)) << o.bit
        check(list(chdt) == expect, mtype + ": option bit layout")
        for data in (chdt, chdt + b"\0" * 10, chdt.ljust(64, b"\0"), chdt.ljust(70, b"\0")):
            fresh = cls()
            ch = Chunk()
            ch.chnm, ch.chdt = mod.options_chnm, data
            fresh.load_options(ch)
            check(fresh.option_values == mod.option_values, mtype + ": load_options")
            check(ch.chdt == data, mtype + ": chunk data not modified")
        short = cls()
        ch = Chunk()
        ch.chnm, ch.chdt = mod.options_chnm, b""
        short.load_options(ch)
        check(
            all(v in (0, False) for v in short.option_values.values()),
            mtype + ": missing option bytes read as zero",
        )
        check(
            all(
                isinstance(short.option_values[o.name], bool) == (o.size == 1)
                for o in mod.options.values()
            ),
            mtype + ": 1-bit options are bool",
        )
    check(seen_options >= 5, "several module types with options covered")


# ---------------------------------------------------------------- whole round trip


def project_snapshot(p):
    mods = []
    for mod in p.modules:
        if mod is None:
            mods.append(None)
            continue
        attached = [k for k, c in mod.controllers.items() if c.attached(mod)]
        mods.append(
            (
                type(mod).__name__,
                mod.name.encode("utf-8")[:32].decode("utf-8", "ignore"),
                mod.index,
                mod.flags,
                (mod.x, mod.y, mod.layer, mod.mod_scale, int(mod.visualization)),
                tuple(mod.color),
                (mod.mod_finetune, mod.mod_relative_note),
                (mod.midi_in_always, mod.midi_in_channel, mod.midi_out_name or None),
                (mod.midi_out_channel, mod.midi_out_bank, mod.midi_out_program),
                [mod.get_raw(k) for k in attached],
                [mod.controller_midi_maps[k].cmid_data for k in attached],
                dict(mod.option_values),
                list(mod.in_links),
                list(mod.in_link_slots),
                rstrip_unused(mod.out_links),
                rstrip_unused(mod.out_link_slots),
            )
        )
    pats = []
    for pat in p.patterns:
        if pat is None:
            pats.append(None)
        elif isinstance(pat, PatternClone):
            pats.append((pat.source, pat.flags_PFFF, pat.x, pat.y))
        else:
            pats.append((pat.name, pat.tracks, pat.lines, pat.x, pat.y, pat.raw_data))
    return (p.name, p.initial_bpm, p.flags), mods, pats


def check_round_trip(connected):
    # the project built by check_connect has -1 holes and non-trivial slots
    blob = save(connected)
    check(connected.read() == blob, "Container.read == write_to")
    loaded = load(blob)
    a, b = project_snapshot(loaded), project_snapshot(connected)
    check(a == b, "connected project round trip")
    check(save(loaded) == blob, "connected project: bytes are a fixed point")
    cloned = connected.clone()
    check(isinstance(cloned, Project) and cloned is not connected, "clone is new Project")
    check(project_snapshot(cloned) == b, "Container.clone")
    check(all(x is None or x.parent is cloned for x in cloned.modules), "clone parents")
    # every attachable module type, default values, one project
    p = Project()
    p.name = "all types"
    for mtype, cls in sorted(MODULE_CLASSES.items()):
        if mtype != "Output":
            mod = p.new_module(cls, name=mtype + " ü")
            mod >> p.output
    pat = Pattern(tracks=2, lines=2, name="n")
    pat.data[1][1].note = NOTE.C5
    pat.data[1][1].module = 3
    p.attach_pattern(pat)
    p.attach_pattern(None)
    p.attach_pattern(PatternClone(source=0, x=8, y=-8))
    blob = save(p)
    loaded = load(blob)
    check(project_snapshot(loaded) == project_snapshot(p), "all module types round trip")
    check(save(loaded) == blob, "all module types: fixed point")
    check(names_balanced(blob, p), "one SEND per module slot, one PEND per pattern slot")
    # Module.clone goes through a Synth
    for cls in (m.Generator, m.Sampler, m.MetaModule, m.MultiSynth, m.Amplifier):
        src = p.new_module(cls, name="src")
        copy = src.clone()
        check(type(copy) is cls and copy is not src, cls.__name__ + ": Module.clone type")
        check(copy.parent is None and copy.name == "src", cls.__name__ + ": clone detached")
        attached = [k for k, c in src.controllers.items() if c.attached(src)]
        check(
            [copy.get_raw(k) for k in attached] == [src.get_raw(k) for k in attached],
            cls.__name__ + ": clone controller values",
        )
        check(copy.option_values == src.option_values, cls.__name__ + ": clone options")
    syn = Synth(p.modules[1])
    check(syn.read() == save(syn), "Synth.read")
    check(type(syn.clone()).__name__ == "Synth", "Synth.clone")
    raises(NotImplementedError, lambda: __import__("rv.container").container.Container().chunks(), "abstract chunks")


def names_balanced(blob, p):
    names = [n for n, _ in parse(blob)]
    return names.count(b"SEND") == len(p.modules) and names.count(b"PEND") == len(p.patterns)


def main():
    check_attach()
    connected = check_connect()
    check_end_of_file()
    check_module_chunks()
    check_options_and_cmid()
    check_round_trip(connected)
    if FAILURES:
        print("%d check(s) failed" % len(FAILURES))
        sys.exit(1)
    print("PASS")


if __name__ == "__main__":
    main()
