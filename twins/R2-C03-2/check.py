"""Behaviour check for refactoring C03-2 (Sampler record / envelope encoders).

Run as:  cd <root> && PYTHONPATH=<root>/src/python python check.py

The script builds a deterministic corpus of Sampler modules (inside synths and
projects), serializes them, decodes the bytes with an independent decoder and
checks

* the 400-byte instrument record field by field (documented offsets/widths),
* every 44-byte sample header, the CHNM numbering 2*i+1 / 2*i+2, CHFF, CHFR,
* envelope chunks 0x102..0x108 (header, counts, points) and legacy point bytes,
* the embedded effect chunk 0x10a and that every CHNM is below CHNK,
* error behaviour for out-of-range / wrongly typed members,
* sha256 digests of every output (recorded on the unrefactored tree).
"""
import hashlib
import io
import os
import struct
import sys
import warnings

warnings.filterwarnings("ignore")

from rv.api import NOTE, NOTECMD, Pattern, PatternClone, Project, Synth, m
from rv.api import read_sunvox_file
from rv.cmidmap import MidiMessageType, Slope
from rv.errors import EmptySynthError
from rv.modules import MODULE_CLASSES

FAILURES = []


def check(cond, msg):
    if not cond:
        FAILURES.append(msg)


# ---------------------------------------------------------------- decoder
def decode(data):
    """Independent chunk-stream decoder: list of (id, payload)."""
    out = []
    pos = 0
    while pos < len(data):
        assert pos + 8 <= len(data), "truncated chunk header"
        cid = data[pos : pos + 4]
        (size,) = struct.unpack_from("<I", data, pos + 4)
        pos += 8
        assert pos + size <= len(data), "truncated chunk payload"
        out.append((cid, data[pos : pos + size]))
        pos += size
    assert pos == len(data)
    return out


def u32(b):
    assert len(b) == 4
    return struct.unpack("<I", b)[0]


def i32(b):
    assert len(b) == 4
    return struct.unpack("<i", b)[0]


# ---------------------------------------------------------------- corpus
INS = struct.Struct("<I22sHHHI96s48s48s10B4BHBbBbI4sI128sIii")
SMP = struct.Struct("<IIIBbBBbB22sI")
assert INS.size == 400 and SMP.size == 44


def make_sample(smp, k):
    s = smp.Sample()
    fmt = [smp.Format.int8, smp.Format.int16, smp.Format.float32][k % 3]
    ch = [smp.Channels.mono, smp.Channels.stereo][k % 2]
    s.format, s.channels = fmt, ch
    s.data = bytes((k * 7 + j) % 256 for j in range(s.frame_size * (3 + k)))
    s.loop_start = k
    s.loop_len = 2 * k + 1
    s.volume = (k * 9) % 65
    s.finetune = (k * 31) % 256 - 128
    s.loop_type = list(smp.LoopType)[k % len(list(smp.LoopType))]
    s.loop_sustain = bool(k % 2)
    s.panning = (k * 29) % 256 - 128
    s.relative_note = (k * 13) % 256 - 128
    s.reserved2 = k % 256
    s.rate = 8000 + 1000 * k
    s.start_pos = 5 * k
    s.name = [b"", b"kick", b"exactly-22-bytes-long!", b"a sample name that is far too long"][k % 4]
    return s


def sampler_default():
    return m.Sampler()


def sampler_samples_low():
    smp = m.Sampler(instrument_name=b"an instrument name that is too long")
    for k in (0, 1, 3, 4, 6):
        smp.samples[k] = make_sample(smp, k)
    smp.vibrato_type = smp.VibratoType.square
    smp.vibrato_attack = 255
    smp.vibrato_depth = 128
    smp.vibrato_rate = 63
    smp.volume_fadeout = 8192
    smp.volume_old = 255
    smp.ins_finetune = -128
    smp.ins_relative_note = 127
    smp.unused1, smp.unused2, smp.unused3 = 0xFFFFFFFF, 0xFFFF, 0x1234
    smp.unused4, smp.unused5, smp.unused6 = 0x01020304, 0xFE, 0x0A0B0C0D
    smp.version, smp.max_version = 5, 7
    smp.editor_cursor, smp.editor_selected_size = -1, 2147483647
    keys = list(smp.note_samples)
    for j, key in enumerate(keys):
        smp.note_samples[key] = (j * 5) % 7
    return smp


def sampler_last_slot():
    smp = m.Sampler(instrument_name=b"exactly-22-bytes-long!")
    smp.samples[127] = make_sample(smp, 5)
    return smp


def sampler_gap_then_cleared():
    smp = m.Sampler()
    smp.samples[2] = make_sample(smp, 2)
    smp.samples[9] = make_sample(smp, 9)
    smp.samples[9] = None
    return smp


def sampler_envelopes():
    smp = m.Sampler()
    vol, pan, pit = smp.volume_envelope, smp.panning_envelope, smp.pitch_envelope
    vol.points = [(i * 10, (i * 0x7FF) % 0x8001) for i in range(15)]
    vol.sustain_point, vol.loop_start_point, vol.loop_end_point = 3, 1, 14
    vol.enable, vol.sustain, vol.loop = False, True, True
    vol.ctl_index, vol.gain_pct, vol.velocity = 9, 77, 1
    pan.points = [(0, -0x4000), (65535, 0x4000)]
    pan.sustain_point, pan.loop_start_point, pan.loop_end_point = 1, 0, 1
    pan.enable, pan.sustain, pan.loop = True, False, True
    pit.points = []
    pit.enable = True
    for k, env in enumerate(smp.effect_control_envelopes):
        env.points = [(j * (k + 1), (j * 0x1000 + k) % 0x8001) for j in range(k * 5)]
        env.enable = bool(k % 2)
        env.ctl_index = k
    return smp


def sampler_effect():
    smp = m.Sampler()
    smp.samples[0] = make_sample(smp, 1)
    inner = m.Sampler()
    inner.samples[1] = make_sample(inner, 2)
    inner.effect = Synth(m.Reverb())
    smp.effect = Synth(inner)
    return smp


SAMPLER_BUILDERS = [
    sampler_default,
    sampler_samples_low,
    sampler_last_slot,
    sampler_gap_then_cleared,
    sampler_envelopes,
    sampler_effect,
]


# ---------------------------------------------------------------- checks
def char(value, width):
    return (value + b"\0" * width)[:width]


def legacy_points(env):
    xs = [x for x, _ in env.points][:12]
    ys = [y // 0x200 for _, y in env.points][:12]
    xs += [0] * (12 - len(xs))
    ys += [0] * (12 - len(ys))
    off = env.range[0] // 0x200
    out = b""
    for x, y in zip(xs, ys):
        out += struct.pack("<HH", x, y - off)
    return out


def expected_instrument(smp):
    vol, pan = smp.volume_envelope, smp.panning_envelope
    used = [i for i, s in enumerate(smp.samples) if s is not None]
    ns = bytes(smp.note_samples.values())
    return INS.pack(
        smp.unused1, char(smp.instrument_name, 22), smp.unused2,
        (max(used) + 1) if used else 0, smp.unused3, smp.unused4,
        ns[:96], legacy_points(vol), legacy_points(pan),
        len(vol.points), len(pan.points),
        vol.sustain_point, vol.loop_start_point, vol.loop_end_point,
        pan.sustain_point, pan.loop_start_point, pan.loop_end_point,
        int(vol.enable) + 2 * int(vol.sustain) + 4 * int(vol.loop),
        int(pan.enable) + 2 * int(pan.sustain) + 4 * int(pan.loop),
        int(smp.vibrato_type), smp.vibrato_attack, smp.vibrato_depth, smp.vibrato_rate,
        smp.volume_fadeout, smp.volume_old, smp.ins_finetune, smp.unused5,
        smp.ins_relative_note, smp.unused6, b"PMAS", smp.version,
        char(ns, 128), smp.max_version, smp.editor_cursor, smp.editor_selected_size,
    )


def expected_sample_header(smp, s):
    fmt = {smp.Format.int8: 0x00, smp.Format.int16: 0x10, smp.Format.float32: 0x20}[s.format]
    chn = 0x40 if s.channels == smp.Channels.stereo else 0
    width = {smp.Format.int8: 1, smp.Format.int16: 2, smp.Format.float32: 4}[s.format]
    width *= 2 if chn else 1
    return SMP.pack(
        len(s.data) // width, s.loop_start, s.loop_len, s.volume, s.finetune,
        int(s.loop_type) + fmt + chn + (4 if s.loop_sustain else 0),
        s.panning + 128, s.relative_note, s.reserved2, char(s.name, 22), s.start_pos,
    )


def expected_envelope(env):
    out = struct.pack(
        "<HBBBBBBHHHHI",
        int(env.enable) + 2 * int(env.sustain) + 4 * int(env.loop),
        env.ctl_index, env.gain_pct, env.velocity, 0, 0, 0,
        len(env.points), env.sustain_point, env.loop_start_point, env.loop_end_point, 0,
    )
    for x, y in env.points:
        out += struct.pack("<HH", x, y - env.range[0])
    return out


def expected_specialized(smp):
    """Independent model of the CHNM/CHDT/CHFF/CHFR stream after CHNK."""
    out = [(b"CHNM", struct.pack("<I", 0)), (b"CHDT", expected_instrument(smp))]
    for i, s in enumerate(smp.samples):
        if s is None:
            continue
        out += [
            (b"CHNM", struct.pack("<I", 2 * i + 1)),
            (b"CHDT", expected_sample_header(smp, s)),
            (b"CHNM", struct.pack("<I", 2 * i + 2)),
            (b"CHDT", s.data),
            (b"CHFF", struct.pack("<I", int(s.format) | int(s.channels))),
            (b"CHFR", struct.pack("<I", s.rate)),
        ]
    out.append((b"CHNM", struct.pack("<I", 0x101)))
    out.append(None)  # options CHDT: not modelled here
    envs = [smp.volume_envelope, smp.panning_envelope, smp.pitch_envelope]
    envs += list(smp.effect_control_envelopes)
    for number, env in enumerate(envs, 0x102):
        check(env.chnm == number, "envelope chnm %x" % number)
        out += [(b"CHNM", struct.pack("<I", number)), (b"CHDT", expected_envelope(env))]
    if smp.effect:
        out += [(b"CHNM", struct.pack("<I", 0x10A)), (b"CHDT", smp.effect.read())]
    return out


def check_sampler_stream(label, smp, chunks):
    ids = [c for c, _ in chunks]
    at = ids.index(b"CHNK")
    check(u32(chunks[at][1]) == 0x10B, label + ": CHNK count")
    end = at + 1
    while end < len(chunks) and chunks[end][0] in (b"CHNM", b"CHDT", b"CHFF", b"CHFR"):
        end += 1
    got = chunks[at + 1 : end]
    want = expected_specialized(smp)
    check(len(got) == len(want), label + ": specialized chunk count %d/%d" % (len(got), len(want)))
    for k, (g, w) in enumerate(zip(got, want)):
        if w is not None:
            check(g == w, label + ": specialized chunk #%d %r" % (k, g[0]))
    for cid, payload in got:
        if cid == b"CHNM":
            check(u32(payload) < 0x10B, label + ": CHNM below CHNK")
    # direct method-level comparisons
    gc = list(smp.global_config_chunks())
    check(gc == want[:2], label + ": global_config_chunks()")
    check(len(gc[1][1]) == 400, label + ": instrument record is 400 bytes")
    for i, s in enumerate(smp.samples):
        if s is not None:
            sc = list(smp.sample_chunks(i, s))
            check(len(sc) == 6 and len(sc[1][1]) == 44, label + ": sample header 44 bytes")
            check(sc[1][1] == expected_sample_header(smp, s), label + ": sample_chunks(%d)" % i)
    for env in [smp.volume_envelope, smp.panning_envelope, smp.pitch_envelope] + list(
        smp.effect_control_envelopes
    ):
        check(env.point_bytes == legacy_points(env), label + ": point_bytes")
        check(len(env._x_values) == 12 and len(env._y_values) == 12, label + ": 12 legacy points")
        check(isinstance(env._x_values, list), label + ": _x_values is a list")
        check(
            list(env.chunks())
            == [(b"CHNM", struct.pack("<I", env.chnm)), (b"CHDT", expected_envelope(env))],
            label + ": Envelope.chunks()",
        )
    if smp.effect and isinstance(smp.effect.module, m.Sampler):
        inner = decode(smp.effect.read())
        check_sampler_stream(label + ":effect", smp.effect.module, inner)


def expect(exc, fn, msg):
    try:
        fn()
    except exc:
        return
    except Exception as e:  # noqa
        check(False, "%s: raised %r instead of %s" % (msg, e, exc.__name__))
        return
    check(False, "%s: no %s raised" % (msg, exc.__name__))


def check_errors():
    def bad(mutate):
        smp = sampler_samples_low()
        mutate(smp)
        return lambda: Synth(smp).read()

    expect(struct.error, bad(lambda s: setattr(s, "volume_old", 256)), "volume_old=256")
    expect(struct.error, bad(lambda s: setattr(s, "ins_finetune", 200)), "ins_finetune=200")
    expect(struct.error, bad(lambda s: setattr(s, "unused2", -1)), "unused2=-1")
    expect(struct.error, bad(lambda s: setattr(s, "editor_cursor", 2**31)), "editor_cursor")
    expect(TypeError, bad(lambda s: setattr(s, "instrument_name", "text")), "str name")
    expect(KeyError, bad(lambda s: setattr(s.samples[1], "format", None)), "format=None")
    expect(KeyError, bad(lambda s: setattr(s.samples[1], "channels", 5)), "channels=5")
    expect(struct.error, bad(lambda s: setattr(s.samples[3], "panning", 200)), "panning=200")
    expect(TypeError, bad(lambda s: setattr(s.samples[3], "name", "text")), "str sample name")
    expect(IndexError, bad(lambda s: s.effect_control_envelopes.pop()), "3 effect envelopes")
    expect(
        struct.error,
        bad(lambda s: setattr(s.volume_envelope, "points", [(0, -1)])),
        "negative envelope y",
    )
    expect(
        struct.error,
        bad(lambda s: setattr(s.volume_envelope, "sustain_point", 256)),
        "legacy sustain point > 255",
    )
    expect(
        ValueError,
        bad(lambda s: setattr(s.pitch_envelope, "points", [(1, 2, 3)])),
        "malformed point",
    )
    # failure happens on first next() of the generators, nothing is yielded
    smp = sampler_samples_low()
    smp.unused6 = -1
    gen = smp.global_config_chunks()
    expect(struct.error, lambda: next(gen), "global_config_chunks first next")
    smp = sampler_samples_low()
    smp.samples[0].volume = 999
    gen = smp.sample_chunks(0, smp.samples[0])
    expect(struct.error, lambda: next(gen), "sample_chunks first next")
    # envelope: CHNM is yielded before the CHDT payload is computed
    smp = sampler_samples_low()
    smp.volume_envelope.gain_pct = 300
    gen = smp.volume_envelope.chunks()
    check(next(gen) == (b"CHNM", struct.pack("<I", 0x102)), "envelope CHNM first")
    expect(struct.error, lambda: next(gen), "envelope CHDT error")
    # int keys work in place of enum members for sample format / channels
    smp = sampler_samples_low()
    smp.samples[1].format = 2
    smp.samples[1].channels = 8
    gen = smp.sample_chunks(1, smp.samples[1])
    next(gen)
    hdr = next(gen)[1]
    check(hdr[14] & 0x70 == 0x50, "int format/channels accepted: %x" % hdr[14])


def file_corpus():
    root = os.path.join(os.getcwd(), "tests", "files")
    out = []
    for fn in sorted(os.listdir(root)):
        if fn.endswith((".sunvox", ".sunsynth")):
            with open(os.path.join(root, fn), "rb") as f:
                out.append(("file:" + fn, read_sunvox_file(f)))
    return out


def samplers_of(obj):
    if isinstance(obj, Synth):
        mods = [obj.module]
    else:
        mods = [x for x in obj.modules if x is not None]
    for mod in mods:
        if isinstance(mod, m.Sampler):
            yield mod
        if isinstance(mod, m.MetaModule):
            yield from samplers_of(mod.project)


EXPECTED_DIGEST = "e7144c61f39b7d1835b6bed0936b5b18bfec55154879e303f6e544272eabf332"


def main():
    h = hashlib.sha256()
    n_samplers = 0
    for build in SAMPLER_BUILDERS:
        smp = build()
        data = Synth(smp).read()
        check(Synth(smp).read() == data, build.__name__ + ": repeatable")
        check_sampler_stream(build.__name__, smp, decode(data))
        h.update(build.__name__.encode() + hashlib.sha256(data).digest())
        # the same module inside a project and inside a metamodule
        p = Project()
        smp2 = build()
        p.attach_module(smp2)
        smp2 >> p.output
        outer = Project()
        outer.new_module(m.MetaModule, project=p) >> outer.output
        data = outer.read()
        meta_payload = [pl for c, pl in decode(data) if c == b"CHDT"][0]
        check_sampler_stream(build.__name__ + ":nested", smp2, decode(meta_payload)[
            [c for c, _ in decode(meta_payload)].index(b"SEND") + 1 :
        ])
        h.update(hashlib.sha256(data).digest())
        # round trip through the library reader keeps the bytes stable
        again = read_sunvox_file(io.BytesIO(Synth(build()).read()))
        h.update(hashlib.sha256(again.read()).digest())
        n_samplers += 1
    for label, obj in file_corpus():
        data = obj.read()
        decode(data)
        for smp in samplers_of(obj):
            n_samplers += 1
            if not smp.is_legacy:
                check_sampler_stream(label, smp, [(b"CHNK", struct.pack("<I", smp.chnk))]
                                     + list(smp.specialized_iff_chunks()))
        h.update(label.encode() + hashlib.sha256(data).digest())
    check(n_samplers > len(SAMPLER_BUILDERS), "no samplers found in tests/files")
    check_errors()
    digest = h.hexdigest()
    if "--digest" in sys.argv:
        print(digest)
        return 0
    check(digest == EXPECTED_DIGEST, "corpus digest changed: " + digest)
    if FAILURES:
        for f in FAILURES[:40]:
            print("FAIL:", f)
        print("%d failure(s)" % len(FAILURES))
        return 1
    print("PASS")
    return 0


if __name__ == "__main__":
    sys.exit(main())
