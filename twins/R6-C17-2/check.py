"""Behaviour check for C17-2 (controller.py, modules/meta.py, modules/metamodule.py).

Exercises controller registries, ranges, the per-instance user defined
controllers of MetaModule (attach flags, labels, aliases, mappings) and the
generated class docstrings.  Must print PASS on the original and patched tree.
"""
import hashlib
import io
import logging
import os
import sys
from enum import Enum, IntEnum
from struct import pack

import rv
import rv.api  # noqa: F401  (registers every module class)
from rv import errors
from rv.controller import (
    CompactRange,
    Controller,
    DependentRange,
    NoOffsetRange,
    Range,
    WarnOnlyRange,
)
from rv.errors import ControllerValueError, RangeValidationError
from rv.modules import MODULE_CLASSES, Module
from rv.modules.amplifier import Amplifier
from rv.modules.analoggenerator import AnalogGenerator
from rv.modules.lfo import Lfo
from rv.modules.meta import ModuleMeta
from rv.modules.metamodule import (
    MAX_USER_DEFINED_CONTROLLERS,
    USER_DEFINED_RE,
    MetaModule,
    UserDefined,
    UserDefinedProxy,
    slugify,
)
from rv.modules.multisynth import MultiSynth
from rv.project import Project
from rv.readers.reader import read_sunvox_file
from rv.synth import Synth

ROOT = os.path.dirname(os.path.dirname(os.path.dirname(os.path.dirname(rv.__file__))))
FILES = os.path.join(ROOT, "tests", "files")
checks = 0

# sha256 over the generated docstrings / registries, taken from the original tree
EXPECTED_DOC_DIGEST = "dbefe7772f94996074aed5bb039caa0302267fac0797ad57ed48bd86cc5c27f7"
EXPECTED_REGISTRY_DIGEST = "58f1f83ab5caade783aa2c2de5d0e2b7ba3c39199fddb5f29b13ef0c05d173d6"


def ok(cond, msg):
    global checks
    checks += 1
    if not cond:
        print("FAIL:", msg)
        sys.exit(1)


def raises(exc, fn, msg):
    try:
        fn()
    except exc as e:
        ok(True, msg)
        return e
    except BaseException as e:  # noqa
        ok(False, f"{msg}: expected {exc.__name__}, got {type(e).__name__}: {e}")
    else:
        ok(False, f"{msg}: expected {exc.__name__}, nothing raised")


class Capture(logging.Handler):
    def __init__(self):
        super().__init__(level=logging.DEBUG)
        self.records = []

    def emit(self, record):
        self.records.append(record)


cap = Capture()
clog = logging.getLogger("rv.controller")
clog.addHandler(cap)
clog.setLevel(logging.DEBUG)
clog.propagate = False


def synth_bytes(mod):
    f = io.BytesIO()
    Synth(mod).write_to(f)
    return f.getvalue()


def load(name):
    with open(os.path.join(FILES, name + ".sunsynth"), "rb") as fh:
        return read_sunvox_file(fh).module


# --------------------------------------------------------------------------
# Controller basics: ordering counter, tuple -> Range, descriptor protocol
# --------------------------------------------------------------------------
n0 = Controller._next_order
c1 = Controller((0, 10), 3)
c2 = Controller(None, None, attached=False)
ok(Controller._next_order == n0 + 2, "order counter advances by one per controller")
ok((c1._order, c2._order) == (n0, n0 + 1), "orders are consecutive")
ok(type(c1.value_type) is Range and (c1.value_type.min, c1.value_type.max) == (0, 10),
   "tuple becomes Range")
ok(c1.default == 3 and c1._attached is True and c2._attached is False, "defaults/attached")
ok(c1.attached(None) is True and c2.attached(None) is False, "attached()")
ok(c1.controller(None) is c1, "controller() is identity")
ok(c1.name is None and c1.number is None, "unbound controller has no name/number")
ok(c1.__get__(None, object) is c1, "class access returns descriptor")
ud = UserDefined(0)
ok(Controller._next_order == n0 + 3 and ud._order == n0 + 2, "subclasses share the counter")
ok("_next_order" not in vars(UserDefined), "counter lives on Controller only")
r = Range(1, 2)
ok(Controller(r, 1).value_type is r, "Range instance kept as is")


class Color(Enum):
    red = 1
    blue = 2


class Holder:
    index = None
    mtype = "Holder"

    def __init__(self):
        self.controller_values = {}
        self.controllers_loaded = set()
        self.events = []

    def on_controller_changed(self, controller, value, down, up):
        self.events.append(("any", controller.name, value, down, up))

    def on_level_changed(self, value, down, up):
        self.events.append(("level", value, down, up))


level = Controller((-5, 5), 0)
level.name = "level"
color = Controller(Color, Color.red)
color.name = "color"
nothing = Controller(None, None)
nothing.name = "nothing"
h = Holder()
level.set_initial(h, 4)
color.set_initial(h, "blue")
nothing.set_initial(h, 123)
ok(h.controller_values == {"level": 4, "color": Color.blue, "nothing": None}, "set_initial")
ok(h.events == [], "set_initial does not notify")
color.set_initial(h, 1)
ok(h.controller_values["color"] is Color.red, "enum by value")
raises(KeyError, lambda: color.set_initial(h, "green"), "unknown enum name")
raises(ValueError, lambda: color.set_initial(h, 7), "unknown enum value")
e = raises(ControllerValueError, lambda: level.set_initial(h, 6), "out of range raises")
ok(e.args == ("0(Holder).level=6 is not within [-5, 5]",), "message text")
ok(isinstance(e.__cause__, RangeValidationError) and e.__cause__.args == (6, -5, 5), "cause")
ok(h.controller_values["level"] == 4, "value kept when raising")
h.index = 0x1F
e = raises(ControllerValueError, lambda: level.set_initial(h, -9), "below range raises")
ok(e.args == ("1f(Holder).level=-9 is not within [-5, 5]",), "hex index in message")
cap.records.clear()
with errors.override_raise_controller_value_errors(False):
    level.set_initial(h, 6)
ok(h.controller_values["level"] == 6, "warn mode stores the value")
ok(len(cap.records) == 1 and cap.records[0].levelno == logging.WARNING
   and cap.records[0].getMessage() == "1f(Holder).level=6 is not within [-5, 5]",
   "warn mode logs once")
level.__set__(h, 2)
ok(h.events == [("level", 2, True, True), ("any", "level", 2, True, True)], "__set__ notifies")
level.__set__(None, 3)
ok(h.controller_values["level"] == 2, "__set__ on class is a no-op")
ok(level.__get__(h, Holder) == 2, "__get__ reads instance value")
h.events.clear()
level.propagate(h, 1)
ok(h.events == [("level", 1, False, False), ("any", "level", 1, False, False)], "propagate")

# pattern_value
ok(level.pattern_value(h, 5) == 32768 and level.pattern_value(h, -5) == 0, "range scaled")
ok(level.pattern_value(h, 0) == 16384 and level.pattern_value(h, 1) == 19660, "range mid")
ok(Controller((0, 32768), 0).pattern_value(h, 777) == 777, "identity scale")
ok(Controller((0, 3), 0).pattern_value(h, 1) == 10922, "truncation")
compact = Controller(CompactRange(-128, 128), 0)
ok(compact.pattern_value(h, -2) == 126 and compact.pattern_value(h, 128) == 256, "compact")
ok(color.pattern_value(h, Color.blue) is Color.blue, "enum passes through")
ok(nothing.pattern_value(h, 9) == 9, "None type passes through")
raises(ZeroDivisionError, lambda: Controller((3, 3), 3).pattern_value(h, 3), "empty range")
ok(Controller(CompactRange(3, 3), 3).pattern_value(h, 3) == 0, "compact empty range")

# Range family
ok(Range(0, 1) == Range(0, 1) and Range(0, 1) != Range(0, 2), "Range equality")
ok(Range(0, 1) != CompactRange(0, 1) and Range(0, 1) != WarnOnlyRange(0, 1), "type matters")
ok(Range(0, 1) != (0, 1), "not equal to tuple")
ok(repr(Range(-1, 9)) == "<Range -1..9>" and repr(WarnOnlyRange(1, 2)) == "<WarnOnlyRange 1..2>"
   and repr(NoOffsetRange(-3, 3)) == "<NoOffsetRange -3..3>", "repr")
ok(Range(-10, 10).from_raw_value(3) == -7 and Range(-10, 10).to_raw_value(-7) == 3, "offset")
ok(Range(0, 10).from_raw_value(3) == 3 and Range(2, 10).to_raw_value(3) == 3, "no offset")
ok(NoOffsetRange(-10, 10).from_raw_value(3) == 3 and NoOffsetRange(-10, 10).to_raw_value(-7) == -7,
   "NoOffsetRange")
ok(Range(0, 5)(5) == 5 and Range(0, 5)(0) == 0, "call returns value")
e = raises(RangeValidationError, lambda: Range(0, 5)(6), "Range raises")
ok(e.args == (6, 0, 5), "error args")
raises(RangeValidationError, lambda: Range(0, 5).validate(-1), "validate raises")
raises(RangeValidationError, lambda: CompactRange(0, 5)(9), "CompactRange raises")
raises(RangeValidationError, lambda: NoOffsetRange(0, 5)(9), "NoOffsetRange raises")


class MyRange(Range):
    pass


class MyWarn(WarnOnlyRange):
    pass


raises(RangeValidationError, lambda: MyRange(0, 5)(9), "Range subclass raises")
for cls in (WarnOnlyRange, MyWarn):
    cap.records.clear()
    ok(cls(1, 4)(9) == 9 and cls(1, 4)(0) == 0, f"{cls.__name__} lets values through")
    ok([r.getMessage() for r in cap.records] == ["(9, 1, 4)", "(0, 1, 4)"]
       and all(r.levelno == logging.WARNING for r in cap.records), f"{cls.__name__} warns")
    cap.records.clear()
    ok(cls(1, 4)(2) == 2 and cap.records == [], "in range: silent")
raises(TypeError, lambda: Range(0, 5)("a"), "uncomparable value")

# DependentRange
dr = DependentRange("mode", {1: Range(0, 1), 2: Range(0, 2)}, Range(0, 9))
ok(repr(dr) == "<DependentRange (varies)>", "DependentRange repr")
dep = Controller(dr, 0)
dep.name = "dep"
h2 = Holder()
ok(dep.instance_value_type(h2) is dr.default, "nothing loaded -> default")
h2.controller_values["mode"] = 2
ok(dep.instance_value_type(h2) is dr.default, "not flagged loaded -> default")
h2.controllers_loaded.add("mode")
ok(dep.instance_value_type(h2) is dr.range_map[2], "loaded -> mapped range")
h2.controller_values["mode"] = None
ok(dep.instance_value_type(h2) is dr.default, "None value -> default")
h2.controller_values["mode"] = 3
raises(KeyError, lambda: dep.instance_value_type(h2), "unmapped value")
lfo = Lfo(frequency_unit=Lfo.FrequencyUnit.ms, freq=3000)
ok(lfo.freq == 3000 and Lfo.freq.instance_value_type(lfo) == WarnOnlyRange(1, 4000), "lfo dep")
ok(Lfo().freq == 256 and Lfo.freq.instance_value_type(Lfo()) == WarnOnlyRange(1, 2048), "lfo default")

# --------------------------------------------------------------------------
# ModuleMeta: per-class registries and generated docs
# --------------------------------------------------------------------------
reg = hashlib.sha256()
doc = hashlib.sha256()
for mtype in sorted(MODULE_CLASSES):
    cls = MODULE_CLASSES[mtype]
    ok(type(cls) is ModuleMeta, f"{mtype} metaclass")
    ok("controllers" in vars(cls) and "options" in vars(cls), f"{mtype} own registries")
    ok(type(cls.controllers) is dict and type(cls.options) is dict, "plain dicts")
    for i, (name, ctl) in enumerate(cls.controllers.items(), 1):
        ok(ctl.name == name and ctl.number == i, f"{mtype}.{name} numbering")
        ok(getattr(cls, name) is ctl, f"{mtype}.{name} descriptor identity")
        reg.update(f"{mtype}|{i}|{name}|{ctl.label}|{ctl.value_type!r}|{ctl.default!r}|"
                   f"{ctl._attached}\n".encode())
    orders = [c._order for c in cls.controllers.values()]
    ok(orders == sorted(orders), f"{mtype} definition order")
    for name, opt in cls.options.items():
        reg.update(f"{mtype}|opt|{name}|{opt.name}\n".encode())
    doc.update((cls.__doc__ or "<none>").encode())
    for k in sorted(dir(cls)):
        v = getattr(cls, k)
        if isinstance(v, type) and issubclass(v, Enum):
            doc.update(f"\n##{k}\n{v.__doc__}".encode())
ok(len(MODULE_CLASSES) >= 35, "all module classes registered")
ok(MODULE_CLASSES["MetaModule"] is MetaModule and MODULE_CLASSES["Amplifier"] is Amplifier,
   "registry by mtype")
ok(Module.controllers == {} and Module.options == {} and Module.controllers is not
   Amplifier.controllers, "base registry empty and separate")
ok(Module.__doc__.startswith("Abstract base class"), "Module docstring untouched")
ok(Amplifier.controllers is not AnalogGenerator.controllers, "registries per class")
print("doc digest     ", doc.hexdigest())
print("registry digest", reg.hexdigest())
ok(doc.hexdigest() == EXPECTED_DOC_DIGEST, "generated docstrings unchanged")
ok(reg.hexdigest() == EXPECTED_REGISTRY_DIGEST, "controller registries unchanged")
rule = "=" * 40
ok(Amplifier.__doc__.splitlines()[0] == '"Amplifier" SunVox Effect Module', "doc header")
ok(" ".join([rule] * 4) in Amplifier.__doc__.splitlines(), "4 column rule")
ok(AnalogGenerator.Waveform.__doc__.splitlines()[:5] ==
   ["An enumeration.", "", rule + " " + rule, "{:40s} {:40s}".format("Name", "Value"),
    rule + " " + rule], "enum table header")


# a brand new subclass gets its own registry, extends nothing in the parent
before = dict(Amplifier.controllers)


class LocalAmp(Amplifier):
    mtype = None
    extra = Controller((0, 3), 1)

    class Kind(IntEnum):
        a = 0
        b = 1


ok(list(LocalAmp.controllers)[-1] == "extra" and LocalAmp.extra.number == len(before) + 1,
   "new controller appended in subclass")
ok(Amplifier.controllers == before and "extra" not in Amplifier.controllers, "parent intact")
ok(LocalAmp.extra.label == "Extra" and LocalAmp.extra.name == "extra", "label/name assigned")
ok(LocalAmp.Kind.__doc__.splitlines()[-2] == "{:40s} {:40d}".format("b", 1), "enum rows")
ok("extra" in LocalAmp.__doc__ and "``%02x`` (%d)" % (len(before) + 1, len(before) + 1)
   in LocalAmp.__doc__, "doc table lists new controller")
ok("LocalAmp" not in MODULE_CLASSES and None not in MODULE_CLASSES, "falsy mtype not registered")
# restore numbering side effects on shared descriptors (none expected)
ok([c.number for c in Amplifier.controllers.values()] == list(range(1, len(before) + 1)),
   "parent numbering intact")


class NoCtl(Module):
    mtype = None
    mgroup = "Misc"


ok(NoCtl.__doc__.endswith("This module has no controllers."), "no-controller doc")


def bad_enum():
    class Broken(Module):
        mtype = None
        mgroup = "Misc"

        class Names(Enum):
            a = "x"


raises(ValueError, bad_enum, "non-int enum values cannot be tabulated")

# --------------------------------------------------------------------------
# UserDefined / UserDefinedProxy
# --------------------------------------------------------------------------
for i in (0, 1, 95):
    u = UserDefined(i)
    ok(u.name == f"user_defined_{i + 1}" and u.number == i + 6, "name and number")
    ok(u.value_type == Range(0, 44100) and u.default == 0, "unmapped type/default")
    ok(u.label is None and u._attached is False and u.attached(None) is False, "detached")
    ok(u.attach(None) is None and u.attached(None) is True, "attach")
    ok(u.detach(None) is None and u.attached(None) is False, "detach")
    ok("label" not in vars(u), "label falls back to class default")
ok(MAX_USER_DEFINED_CONTROLLERS == 96 and USER_DEFINED_RE.pattern == r"user_defined_\d+", "consts")
ok([slugify(s) for s in ("", "9 lives", "Cut Off!", "a_b", "Ünï")] ==
   ["_", "_9_lives", "cut_off", "a_b", "uni"], "slugify")

names = list(MetaModule.controllers)
ok(names[:5] == ["volume", "input_module", "play_patterns", "bpm", "tpl"], "builtin ctls")
ok(names[5:] == [f"user_defined_{i}" for i in range(1, 97)], "user defined ctl names")
for i, name in enumerate(names[5:]):
    p = MetaModule.controllers[name]
    ok(type(p) is UserDefinedProxy and p.index == i and p.number == i + 6, f"proxy {name}")
    ok(p.value_type == Range(0, 32768) and p.default == 0 and p._attached is True, "proxy cfg")
    ok(getattr(MetaModule, name) is p, "class access gives proxy")
    ok(p.label == f"User Defined {i + 1}", "proxy label from metaclass")
ok(MetaModule.options_chnm == 2 and type(MetaModule.options_chnm) is int, "options_chnm")
ok(MetaModule.MappingArray.chnm == 1 and type(MetaModule.MappingArray.chnm) is int, "map chnm")
ok((MetaModule.MappingArray.length, MetaModule.MappingArray.type,
    MetaModule.MappingArray.element_size) == (96, "HH", 4), "mapping array layout")

n_before = Controller._next_order
m1, m2 = MetaModule(), MetaModule()
ok(Controller._next_order == n_before + 192, "each MetaModule creates 96 controllers")
ok([u._order for u in m1.user_defined] == list(range(n_before, n_before + 96)), "creation order")
ok(m1.chnk == 104 and type(m1.chnk) is int, "chnk")
ok(len(m1.user_defined) == 96 and all(type(u) is UserDefined for u in m1.user_defined), "96 UDs")
ok(m1.user_defined is not m2.user_defined
   and not {id(u) for u in m1.user_defined} & {id(u) for u in m2.user_defined}, "UD per instance")
ok([u.name for u in m1.user_defined] == names[5:], "UD names line up with proxies")
ok(m1.mappings is not m2.mappings and m1.mappings.values is not m2.mappings.values, "mappings")
ok(all(type(v) is MetaModule.Mapping and (v.module, v.controller) == (0, 0)
       for v in m1.mappings.values) and len(m1.mappings.values) == 96, "default mappings")
ok(len({id(v) for v in m1.mappings.values + m2.mappings.values}) == 192, "Mapping objects unique")
ok(m1.project is not m2.project and m1.project.metamodule is m1, "embedded projects")
ok(m1.user_defined_aliases == [] and m1.user_defined_controllers == 0, "no aliases at first")
ok(all(not u.attached(m1) for u in m1.user_defined), "all detached at first")
ok(all(MetaModule.controllers[n].controller(m1) is m1.user_defined[i]
       and not MetaModule.controllers[n].attached(m1)
       and MetaModule.controllers[n].instance_value_type(m1) is m1.user_defined[i].value_type
       for i, n in enumerate(names[5:])), "proxy forwards to instance controllers")
snap2 = synth_bytes(m2)
snap_fresh = synth_bytes(MetaModule())
ok(snap2 == snap_fresh, "fresh metamodules serialise the same")

# attach some on m1 only
m1.user_defined_controllers = 3
ok([u.attached(m1) for u in m1.user_defined] == [True] * 3 + [False] * 93, "first 3 attached")
ok(all(not u.attached(m2) for u in m2.user_defined), "other instance unaffected")
ok(m1.user_defined_aliases == [None, None, None], "unlabelled aliases")
m1_amp = m1.project.new_module(Amplifier)
for slot, ctl_index in enumerate((0, 4, 6)):  # volume, stereo_width, fine_volume
    m1.mappings.values[slot].module = m1_amp.index
    m1.mappings.values[slot].controller = ctl_index
m1.user_defined[0].label = "Cut Off"
m1.user_defined[2].label = "9 Lives"
m1.user_defined[5].label = "Hidden"
ok(m1.user_defined_aliases == ["u_cut_off", None, "u__9_lives"], "aliases from labels")
ok(m2.user_defined_aliases == [] and all(u.label is None for u in m2.user_defined)
   and UserDefined.label is None, "labels are per instance")
ok("u_cut_off" in dir(m1) and "u__9_lives" in dir(m1) and "u_hidden" not in dir(m1)
   and "u_cut_off" not in dir(m2), "dir lists aliases")
ok(m1.u_cut_off == 0 and m1.user_defined_1 == 0, "alias read")
m1.u_cut_off = 1000
ok(m1.user_defined_1 == 1000 and m1.controller_values["user_defined_1"] == 1000, "alias write")
ok(m1_amp.volume == 1000, "alias write reaches the embedded module")
m1.u__9_lives = 7
ok(m1.user_defined_3 == 7 and "u__9_lives" not in vars(m1), "alias write goes to controller")
ok(m1_amp.fine_volume == 7, "third mapping reaches fine_volume")
m1.user_defined_2 = 200
ok(m1.controller_values["user_defined_2"] == 200 and m1_amp.stereo_width == 200, "proxy write")
raises(ControllerValueError, lambda: setattr(m1, "user_defined_2", 44101), "UD range enforced")
raises(IndexError, lambda: setattr(m1, "user_defined_9", 1), "unmapped UD targets Output")
raises(AttributeError, lambda: m1.u_hidden, "alias of detached controller")
raises(AttributeError, lambda: m1.nope, "unknown attribute")
raises(AttributeError, lambda: m2.u_cut_off, "alias unknown on other instance")
m2.u_cut_off = 5
ok(vars(m2)["u_cut_off"] == 5 and m2.user_defined_1 == 0, "plain attribute on other instance")
del m2.u_cut_off
ok(m2.user_defined_1 == 0 and synth_bytes(m2) == snap2, "other instance bytes unchanged")
bare = MetaModule.__new__(MetaModule)
raises(AttributeError, lambda: bare.anything, "no user_defined yet -> AttributeError")
ok(bare.user_defined_aliases == [], "aliases of half-built instance")

chunks = list(m1.specialized_iff_chunks())
ok(chunks[0] == (b"CHNM", pack("<I", 0)) and chunks[1][0] == b"CHDT", "project chunk first")
ok(chunks[2] == (b"CHNM", pack("<I", 1)) and chunks[3] == (b"CHDT", m1.mappings.bytes)
   and m1.mappings.bytes[:12] == pack("<6H", 1, 0, 1, 4, 1, 6),
   "mappings chunk")
ok(chunks[4] == (b"CHNM", pack("<I", 2)) and chunks[5][0] == b"CHDT" and chunks[5][1][0] == 3,
   "options chunk")
ok(chunks[6:] == [(b"CHNM", pack("<I", 8)), (b"CHDT", b"Cut Off\0"),
                  (b"CHNM", pack("<I", 10)), (b"CHDT", b"9 Lives\0")], "label chunks")
m1.user_defined_controllers = 1
ok([u.attached(m1) for u in m1.user_defined] == [True] + [False] * 95, "detach on shrink")
ok(m1.user_defined_aliases == ["u_cut_off"], "aliases shrink")
m1.user_defined_controllers = 96
ok(all(u.attached(m1) for u in m1.user_defined), "attach all")
ok(m1.user_defined_aliases[5] == "u_hidden" and m1.u_hidden == 0, "label of late attach")
m1.user_defined_controllers = 0
ok(not any(u.attached(m1) for u in m1.user_defined), "detach all")
ok(all(not u.attached(m2) for u in m2.user_defined), "other instance still detached")

# --------------------------------------------------------------------------
# MetaModule wired to an embedded project
# --------------------------------------------------------------------------
def build():
    p = Project()
    gen = p.new_module(AnalogGenerator, volume=100, polyphony_ch=4)
    amp = p.new_module(Amplifier, volume=300, balance=-20)
    mm = MetaModule(project=p)
    mm.user_defined_controllers = 3
    mm.mappings.values[0].module, mm.mappings.values[0].controller = gen.index, 0
    mm.mappings.values[1].module, mm.mappings.values[1].controller = amp.index, 1
    mm.mappings.values[2].module, mm.mappings.values[2].controller = 99, 0
    mm.user_defined[0].label = "Gen Vol"
    mm.user_defined[1].label = "Bal"
    return mm, gen, amp


a, gen_a, amp_a = build()
b, gen_b, amp_b = build()
ok(a.project.metamodule is a and b.project.metamodule is b, "projects know their metamodule")
snap_b = synth_bytes(b)
for entry in ("method", "chunk"):
    mm, gen, amp = build()
    if entry == "method":
        ok(mm.update_user_defined_controllers() is None, "update via module")
    else:
        ok(MetaModule.MappingArray.update_user_defined_controllers(mm) is None, "update via chunk")
    ok(mm.user_defined[0].value_type == AnalogGenerator.volume.value_type
       and mm.user_defined[0].default == AnalogGenerator.volume.default, "ud0 mirrors gen.volume")
    ok(mm.user_defined[1].value_type == Amplifier.balance.value_type
       and mm.user_defined[1].default == Amplifier.balance.default, "ud1 mirrors amp.balance")
    ok(mm.user_defined[2].value_type == Range(0, 44100) and mm.user_defined[2].default == 0,
       "dangling mapping skipped")
    ok(mm.user_defined[3].value_type == Range(0, 44100), "beyond count untouched")
    ok((mm.user_defined_1, mm.user_defined_2, mm.user_defined_3) == (100, -20, 0), "values copied")
a.update_user_defined_controllers()
ok(b.user_defined[0].value_type == Range(0, 44100) and b.user_defined_2 == 0
   and synth_bytes(b) == snap_b, "updating one metamodule leaves the other alone")
ok(MetaModule().user_defined[0].value_type == Range(0, 44100), "fresh instance unaffected")
# embedded -> metamodule (matches on the 1-based controller number)
amp_a.balance = 55
ok((a.user_defined_1, a.user_defined_2) == (100, -20), "balance (number 2) is not mapped upward")
amp_a.volume = 56
ok(a.user_defined_2 == 56 and b.user_defined_2 == 0 and amp_b.volume == 300, "upward propagate")
ok(amp_a.balance == 56 - 128, "which in turn pushes down into the 0-based target")
gen_a.volume = 7
ok(a.user_defined_1 == 100, "gen.volume (number 1) does not match mapping controller 0")
# metamodule -> embedded (down): Range.min is added
a.user_defined_2 = 10
ok(amp_a.balance == 10 + Amplifier.balance.value_type.min and amp_a.volume == 56
   and amp_b.balance == -20, "downward propagate offsets by range minimum")
a.u_gen_vol = 33
ok(gen_a.volume == 33 and gen_b.volume == 100 and a.user_defined_1 == 33,
   "downward propagate through alias")
ok(synth_bytes(b) == snap_b, "peer bytes stable through all of it")

# save / load / clone
bytes_a = synth_bytes(a)
a2 = read_sunvox_file(io.BytesIO(bytes_a)).module
ok(synth_bytes(a2) == bytes_a, "roundtrip stable")
ok([u.label for u in a2.user_defined[:3]] == ["Gen Vol", "Bal", None], "labels loaded")
ok([u.attached(a2) for u in a2.user_defined[:4]] == [True, True, True, False], "attach loaded")
ok(a2.user_defined_aliases == ["u_gen_vol", "u_bal", None], "aliases loaded")
ok([(v.module, v.controller) for v in a2.mappings.values[:3]] == [(1, 0), (2, 1), (99, 0)],
   "mappings loaded")
a3 = a.clone()
ok(synth_bytes(a3) == bytes_a, "clone equal")
a3.user_defined[0].label = "Other"
a3.user_defined_controllers = 5
a3.mappings.values[4].module = 1
a3.project.modules[1].volume = 1
ok(synth_bytes(a) == bytes_a and synth_bytes(a2) == bytes_a, "clone mutation does not leak back")
a.user_defined[1].label = "Changed"
b3 = synth_bytes(a3)
a.user_defined_controllers = 1
ok(synth_bytes(a3) == b3 and synth_bytes(a2) == bytes_a, "original mutation does not leak out")

for name in ("metamodule", "metamodule-option-78", "metamodule-option-79", "metamodule-option-7a"):
    x, y = load(name), load(name)
    bx = synth_bytes(x)
    ok(bx == synth_bytes(y), f"{name}: loads equal")
    ok(synth_bytes(read_sunvox_file(io.BytesIO(bx)).module) == bx, f"{name}: roundtrip")
    ok(x.user_defined is not y.user_defined and x.user_defined[0] is not y.user_defined[0],
       f"{name}: own user defined controllers")
    x.user_defined_controllers = min(96, x.user_defined_controllers + 4)
    x.user_defined[0].label = "zz"
    x.user_defined[0].value_type = Range(0, 1)
    ok(synth_bytes(y) == bx and y.user_defined[0].label != "zz"
       and y.user_defined[0].value_type != Range(0, 1), f"{name}: second load isolated")
mm = load("metamodule")
ok([u.label for u in mm.user_defined[:3]] == ["V", "W", None], "file labels")
ok(mm.user_defined_aliases == ["u_v", "u_w"] and mm.u_v == mm.user_defined_1, "file aliases")
ok(mm.user_defined[0].value_type == AnalogGenerator.volume.value_type, "file ud0 type")

# multisynth (options_chnm on another class) still loads and saves
ms = load("multisynth")
ok(MultiSynth.options_chnm == 1 and synth_bytes(ms) == synth_bytes(load("multisynth")), "multisynth")

print(f"PASS ({checks} checks)")
