"""Behaviour check for Module.iff_chunks / options_chunks / get_raw and
rv.lib.iff.write_chunk (property C03).

Every module type is serialised in several configurations; the standard module
chunks are decoded independently and compared with the object's public state,
and all outputs are compared with digests recorded on the unmodified tree.

Run from the repository root:
    PYTHONPATH=<root>/src/python python check.py
"""
import hashlib
import io
import os
import struct
import sys
from enum import Enum

import rv.api as rv
from rv.controller import Range
from rv.lib.iff import write_chunk
from rv.modules import MODULE_CLASSES
from rv.modules.module import Chunk, Module
from rv.project import Project
from rv.synth import Synth

failures = []
digests = {}


def check(cond, msg):
    if not cond:
        failures.append(msg)


def record(label, data):
    digests[label] = hashlib.sha256(data).hexdigest()[:20]


def u32(v):
    return struct.pack("<I", v)


def i32(v):
    return struct.pack("<i", v)


def expected_snam(name):
    raw = name.encode("utf8")[:32]
    # drop an incomplete trailing UTF-8 sequence, independently of the library
    while raw:
        try:
            raw.decode("utf8")
            break
        except UnicodeDecodeError:
            raw = raw[:-1]
    return raw + b"\0" * (32 - len(raw))


def verify_standard_chunks(label, module, in_project_arg):
    got = list(module.iff_chunks(in_project_arg) if in_project_arg != "default" else module.iff_chunks())
    in_project = (module.parent is not None) if in_project_arg in (None, "default") else bool(in_project_arg)
    exp = [(b"SFFF", u32(module.flags)), (b"SNAM", expected_snam(module.name))]
    if module.mtype is not None and module.mtype != "Output":
        exp.append((b"STYP", module.mtype.encode("utf8") + b"\0"))
    exp.append((b"SFIN", i32(module.mod_finetune)))
    exp.append((b"SREL", i32(module.mod_relative_note)))
    if in_project:
        exp += [(b"SXXX", i32(module.x)), (b"SYYY", i32(module.y)), (b"SZZZ", i32(module.layer))]
    exp.append((b"SSCL", u32(module.mod_scale)))
    if in_project:
        exp.append((b"SVPR", u32(int(module.visualization))))
    exp.append((b"SCOL", bytes(module.color)))
    exp.append((b"SMII", u32(int(module.midi_in_always) + module.midi_in_channel * 2)))
    if module.midi_out_name:
        exp.append((b"SMIN", module.midi_out_name.encode("utf8") + b"\0"))
    exp.append((b"SMIC", u32(module.midi_out_channel)))
    exp.append((b"SMIB", i32(module.midi_out_bank)))
    exp.append((b"SMIP", i32(module.midi_out_program)))
    check(got == exp, f"{label}: standard chunks differ")
    check(all(type(c) is tuple and len(c) == 2 for c in got), f"{label}: 2-tuples")
    record(label, b"".join(c + u32(len(p)) + p for c, p in got))


def verify_options(label, module):
    got = list(module.specialized_iff_chunks()) if type(module).specialized_iff_chunks is Module.specialized_iff_chunks else None
    opt = list(module.options_chunks())
    check([c for c, _ in opt] == [b"CHNM", b"CHDT"], f"{label}: options chunk ids")
    check(opt[0][1] == u32(module.options_chnm), f"{label}: options CHNM")
    payload = opt[1][1]
    if module.options:
        check(len(payload) == max(o.byte for o in module.options.values()) + 1, f"{label}: options length")
        check(module.options_chnm < module.chnk, f"{label}: options chnm below CHNK")
    else:
        check(payload == b"", f"{label}: empty options payload")
    seen = [0] * len(payload)
    for o in module.options.values():
        mask = 2**o.size - 1
        raw = int(module.option_values[o.name]) & mask
        check((payload[o.byte] >> o.bit) & mask == raw, f"{label}: option {o.name}")
        seen[o.byte] |= mask << o.bit
    for b, m in zip(payload, seen):
        check(b & ~m == 0, f"{label}: stray option bits")
    if got is not None:
        check(got == (opt if module.options else [(None, None)]), f"{label}: default specialized chunks")
    record(label + "-options", payload)


def verify_get_raw(label, module):
    out = []
    for name, ctl in module.controllers.items():
        raw = module.get_raw(name)
        t = ctl.instance_value_type(module)
        value = getattr(module, name)
        if isinstance(value, Enum):
            value = value.value
        if value is None:
            value = 0
        if hasattr(t, "to_raw_value"):
            exp = t.to_raw_value(value)
        else:
            exp = int(value)
        check(raw == exp and type(raw) is type(exp), f"{label}: get_raw {name} {raw!r} != {exp!r}")
        out.append(f"{name}={raw!r}")
    record(label + "-raw", ";".join(out).encode())


def tweak(module, which):
    for name, ctl in module.controllers.items():
        t = ctl.instance_value_type(module)
        try:
            if isinstance(t, Range):
                setattr(module, name, t.min if which == 0 else t.max)
            elif isinstance(t, type) and issubclass(t, Enum):
                members = list(t)
                setattr(module, name, members[0] if which == 0 else members[-1])
            elif t is bool:
                setattr(module, name, which == 1)
        except Exception:
            pass


class Recorder:
    def __init__(self):
        self.calls = []

    def write(self, b):
        self.calls.append(bytes(b))


NAMES = [
    "",
    "a",
    "x" * 31,
    "x" * 32,
    "x" * 33,
    "y" * 100,
    "x" * 31 + "é",  # 2-byte character straddles the limit
    "x" * 30 + "é",  # fits exactly
    "x" * 30 + "€",  # 3-byte character straddles the limit
    "x" * 29 + "😀",  # 4-byte character straddles the limit
    "x" * 28 + "😀",  # fits exactly
    "é" * 20,
    "nul\0inside",
]


def main():
    # 1. every module type, attached and detached, default/min/max values
    for mtype, cls in sorted(MODULE_CLASSES.items()):
        for which in (None, 0, 1):
            m = cls()
            if which is not None:
                tweak(m, which)
            label = f"{mtype}-{which}"
            verify_standard_chunks(label + "-free", m, "default")
            verify_standard_chunks(label + "-free-none", m, None)
            verify_standard_chunks(label + "-free-forced", m, True)
            verify_get_raw(label, m)
            verify_options(label, m)
            record(label + "-synth", Synth(m).read())
            if mtype != "Output":
                p = Project()
                p.attach_module(m)
                verify_standard_chunks(label + "-proj", m, "default")
                verify_standard_chunks(label + "-proj-false", m, False)
                verify_standard_chunks(label + "-proj-0", m, 0)
                verify_standard_chunks(label + "-proj-1", m, 1)
                record(label + "-project", p.read())

    # 2. option bits: flip every option of every module on and off
    for mtype, cls in sorted(MODULE_CLASSES.items()):
        for oname, o in sorted(cls.options.items()):
            for v in (0, 1, 2**o.size - 1, 2**o.size, -1, True, False):
                m = cls()
                m.option_values[oname] = v
                verify_options(f"{mtype}-opt-{oname}-{v!r}", m)
            m = cls()
            m.option_values[oname] = None
            try:
                list(m.options_chunks())
                check(False, f"{mtype}.{oname}=None must raise")
            except TypeError:
                pass
            del m.option_values[oname]
            try:
                list(m.options_chunks())
                check(False, f"{mtype}.{oname} missing must raise")
            except TypeError:
                pass

    # 3. names, midi names, colours, visualization, positions
    for i, name in enumerate(NAMES):
        m = rv.m.Amplifier(name=name)
        verify_standard_chunks(f"name-{i}", m, "default")
        data = Synth(m).read()
        check(data[data.index(b"SNAM") + 4 :][:4] == u32(32), f"name-{i}: SNAM size 32")
        record(f"name-{i}-synth", data)
    for kw in (
        dict(midi_out_name="dev é", midi_out_channel=3, midi_out_bank=5, midi_out_program=127),
        dict(midi_out_name=""),
        dict(midi_in_always=True, midi_in_channel=16),
        dict(midi_in_always=False, midi_in_channel=1),
        dict(x=-5, y=2**31 - 1, layer=7, scale=1, color=(0, 128, 255)),
        dict(finetune=-256, relative_note=-12, visualization=0xFFFFFFFF),
        dict(color=[1, 2, 3]),
    ):
        for cls in (rv.m.Generator, rv.m.Smooth, rv.m.Sampler, rv.m.MetaModule):
            m = cls(**kw)
            label = f"kw-{cls.__name__}-{sorted(kw)}"
            verify_standard_chunks(label, m, "default")
            p = Project()
            p.attach_module(m)
            verify_standard_chunks(label + "-p", m, "default")
            record(label + "-bytes", p.read())
    out = Project().output
    verify_standard_chunks("output", out, "default")
    check(b"STYP" not in [c for c, _ in out.iff_chunks()], "Output has no STYP")

    # 4. controller raw values incl. None and enum
    m = rv.m.Generator()
    m.controller_values["volume"] = None
    check(m.get_raw("volume") == 0, "None controller value is raw 0")
    m = rv.m.MultiSynth()
    for name, ctl in m.controllers.items():
        t = ctl.instance_value_type(m)
        if isinstance(t, Range) and t.min < 0:
            setattr(m, name, t.min)
            check(m.get_raw(name) == 0, f"negative range min -> 0 ({name})")
            setattr(m, name, t.max)
            check(m.get_raw(name) == t.max - t.min, f"negative range max ({name})")
    try:
        m.get_raw("no_such_controller")
        check(False, "unknown controller must raise")
    except KeyError:
        pass

    # 5. error types
    try:
        list(Module().iff_chunks())
        check(False, "base Module must raise")
    except RuntimeError as e:
        check(str(e) == "Cannot serialize base Module instance.", "base Module message")
    for bad in ((1, 2), (1, 2, 3, 4), (1, 2, 256)):
        m = rv.m.Generator(color=bad)
        got = []
        try:
            for c in m.iff_chunks():
                got.append(c[0])
            check(False, f"color {bad} must raise")
        except struct.error:
            pass
        check(got and got[-1] == b"SSCL", f"color {bad}: error raised at SCOL")
    m = rv.m.Generator(x=2**31)
    got = []
    try:
        for c in m.iff_chunks(True):
            got.append(c[0])
        check(False, "x overflow must raise")
    except struct.error:
        pass
    check(got[-1] == b"SREL", "x overflow raised at SXXX")
    m = rv.m.Generator(name=None)
    check(list(m.iff_chunks())[1][1].rstrip(b"\0") == b"Generator", "name=None keeps default")

    # 6. raw Chunk helper in module.py
    c = Chunk()
    c.chnm, c.chdt = 7, b"abc"
    check(list(c.chunks()) == [(b"CHNM", u32(7)), (b"CHDT", b"abc"), (b"CHFF", u32(0)), (b"CHFR", u32(44100))], "Chunk default")
    c.chff = None
    c.chfr = None
    check(list(c.chunks()) == [(b"CHNM", u32(7)), (b"CHDT", b"abc")], "Chunk without CHFF/CHFR")

    # 7. write_chunk
    cases = [
        (b"ABCD", b"", [b"ABCD", u32(0), b""]),
        (b"AB", b"xyz", [b"AB  ", u32(3), b"xyz"]),
        (b"", b"x", [b"    ", u32(1), b"x"]),
        (b"ABCDEFG", b"12345", [b"ABCD", u32(5), b"12345"]),
        (bytearray(b"BPM"), bytearray(b"\x01\x02"), [b"BPM ", u32(2), b"\x01\x02"]),
        (b"BPM ", memoryview(b"\0" * 300), [b"BPM ", u32(300), b"\0" * 300]),
        (None, b"ignored", []),
        (None, None, []),
    ]
    for name, data, exp in cases:
        r = Recorder()
        check(write_chunk(r, name, data) is None, "write_chunk returns None")
        check(r.calls == exp, f"write_chunk({name!r}) calls {r.calls!r}")
    r = Recorder()
    try:
        write_chunk(r, b"ABCD", None)
        check(False, "data None must raise")
    except TypeError:
        pass
    check(r.calls == [], "nothing written when data has no length")
    r = Recorder()
    try:
        write_chunk(r, "ABCD", b"")
        check(False, "str name must raise")
    except TypeError:
        pass
    check(r.calls == [], "nothing written for str name")
    f = io.BytesIO()
    for name, data in [(b"SVOX", b""), (None, None), (b"X", b"1"), (b"SEND", b"")]:
        write_chunk(f, name, data)
    check(f.getvalue() == b"SVOX\0\0\0\0X   \x01\0\0\x001SEND\0\0\0\0", "write_chunk stream")

    total = hashlib.sha256("".join(f"{k}={v};" for k, v in sorted(digests.items())).encode()).hexdigest()
    if os.environ.get("RV_CHECK_RECORD"):
        print(len(digests), total)
        for f_ in failures[:20]:
            print("  ", f_)
        return 0
    check(len(digests) == EXPECTED_COUNT, f"digest count {len(digests)}")
    check(total == EXPECTED_TOTAL, f"combined digest {total}")
    if failures:
        print("FAIL")
        for f_ in failures[:40]:
            print("  ", f_)
        return 1
    print(f"PASS ({len(digests)} outputs checked)")
    return 0


EXPECTED_COUNT = 1801
EXPECTED_TOTAL = "3a18be7a26c03b23c315349c4a7c640fede5e31a74672d82438720623a6e5442"

if __name__ == "__main__":
    sys.exit(main())
