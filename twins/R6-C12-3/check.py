"""Behaviour check for Note CC/EE/XX/YY accessors and the SFGS word (C12, patch 3).

The library is compared with a reference model written with plain integer
arithmetic.  Prints PASS / exits 0.
"""
import io
import itertools
import random
import struct
import sys

import rv.api as rv
from rv.note import NOTECMD, Note
from rv.readers.sunvox import SunVoxReader

failures = []


def check(cond, msg):
    if not cond:
        failures.append(msg)


# ------------------------------------------------------------------ Note
# sub-field -> (column it lives in, is it the high byte?)
SUBFIELDS = {
    "controller": ("ctl", True),
    "effect": ("ctl", False),
    "val_xx": ("val", True),
    "val_yy": ("val", False),
}


def model_get(word, high):
    return word >> 8 if high else word & 0xFF


def model_set(word, high, new):
    if high:
        return (word & 0x00FF) | ((new & 0xFF) << 8)
    return (word & 0xFF00) | (new & 0xFF)


def snapshot(n):
    return (n.note, n.vel, n.module, n.ctl, n.val)


rng = random.Random(3)

# 1. every 16-bit old word, a few new values per sub-field
NEW_FEW = [0, 1, 0x7F, 0x80, 0xFE, 0xFF]
n = Note(note=NOTECMD.C5, vel=100, module=7)
for old in range(0x10000):
    n.ctl = old
    n.val = old ^ 0xA5C3
    check(n.controller == old >> 8 and n.effect == old & 0xFF, f"ctl getters {old:#x}")
    check(
        n.val_xx == (old ^ 0xA5C3) >> 8 and n.val_yy == (old ^ 0xA5C3) & 0xFF,
        f"val getters {old:#x}",
    )
    name = ("controller", "effect", "val_xx", "val_yy")[old & 3]
    column, high = SUBFIELDS[name]
    new = NEW_FEW[(old >> 2) % len(NEW_FEW)]
    before = snapshot(n)
    setattr(n, name, new)
    want_word = model_set(getattr(Note(ctl=before[3], val=before[4]), column), high, new)
    after = snapshot(n)
    for i, col in enumerate(("note", "vel", "module", "ctl", "val")):
        if col == column:
            check(after[i] == want_word, f"{name}: {before[i]:#x} <- {new:#x} gave {after[i]:#x}")
        else:
            check(after[i] == before[i], f"{name} disturbed {col}")
    check(getattr(n, name) == new, f"{name} read-back")

# 2. every new value 0..255 (plus out-of-width ones) over a sample of old words
OLD_SAMPLE = [0, 1, 0xFF, 0x100, 0x00FF, 0xFF00, 0xFFFF, 0x8001, 0x7FFE, 0x1234] + [
    rng.randrange(0x10000) for _ in range(40)
]
NEW_ALL = list(range(256)) + [-1, -2, -255, -256, 256, 257, 0x1FF, 0x1234, 0xFFFF, 1 << 20]
for name, (column, high) in SUBFIELDS.items():
    sibling = [k for k, v in SUBFIELDS.items() if v[0] == column and k != name][0]
    for old in OLD_SAMPLE:
        for new in NEW_ALL:
            n = Note(note=NOTECMD.NOTE_OFF, vel=3, module=0xFFFF, ctl=0x0F0F, val=0xF0F0)
            setattr(n, column, old)
            before = snapshot(n)
            sibling_before = getattr(n, sibling)
            setattr(n, name, new)
            word = getattr(n, column)
            check(word == model_set(old, high, new), f"{name}: {old:#x} <- {new}")
            check(type(word) is int and 0 <= word <= 0xFFFF, f"{name}: result is a 16-bit int")
            check(getattr(n, name) == new & 0xFF, f"{name}: masked read-back")
            check(getattr(n, sibling) == sibling_before, f"{name} disturbed {sibling}")
            after = snapshot(n)
            other = [i for i, c in enumerate(("note", "vel", "module", "ctl", "val")) if c != column]
            check(all(after[i] == before[i] for i in other), f"{name} disturbed another column")
            # encodes and decodes unchanged
            m = Note()
            m.raw_data = n.raw_data
            check(getattr(m, name) == new & 0xFF and getattr(m, sibling) == sibling_before, "through bytes")

# 3. sequences of sets: each sub-field holds the last value given to it
n = Note()
state = {k: 0 for k in SUBFIELDS}
for _ in range(3000):
    name = rng.choice(list(SUBFIELDS))
    new = rng.randrange(256)
    setattr(n, name, new)
    state[name] = new
    check({k: getattr(n, k) for k in SUBFIELDS} == state, "history")
    check(n.ctl == state["controller"] << 8 | state["effect"], "ctl word")
    check(n.val == state["val_xx"] << 8 | state["val_yy"], "val word")

# 4. columns outside 16 bits (plain assignment is not validated): getters do
#    not mask the high byte, setters fold the word back into 16 bits
for old in (0x12345, 0xFFFFFF, -1, -0x1234, 1 << 40):
    for name, (column, high) in SUBFIELDS.items():
        n = Note()
        setattr(n, column, old)
        check(getattr(n, name) == model_get(old, high), f"{name} getter on {old:#x}")
        setattr(n, name, 0x5A)
        check(getattr(n, column) == model_set(old, high, 0x5A), f"{name} setter on {old:#x}")
        check(0 <= getattr(n, column) <= 0xFFFF, "folded into 16 bits")

# 5. IntEnum / bool arguments; bad argument types raise TypeError and change nothing
n = Note(ctl=0x1122, val=0x3344)
n.effect = NOTECMD.C1
n.controller = True
check(n.ctl == (1 << 8) | int(NOTECMD.C1) and type(n.ctl) is int, "IntEnum/bool arguments")
for name in SUBFIELDS:
    for bad in (None, 1.5, "7", b"\x01"):
        n = Note(ctl=0x1122, val=0x3344)
        try:
            setattr(n, name, bad)
        except TypeError:
            pass
        else:
            check(False, f"{name}={bad!r} accepted")
        check((n.ctl, n.val) == (0x1122, 0x3344), f"{name}={bad!r} changed the note")

# 6. constructor, clone, is_empty, tabular_repr see the same words
n = Note(ctl=0xAB12, val=0xCD34)
check((n.controller, n.effect, n.val_xx, n.val_yy) == (0xAB, 0x12, 0xCD, 0x34), "constructor")
c = n.clone()
c.val_yy = 0
check(n.val == 0xCD34 and c.val == 0xCD00, "clone is independent")
e = Note()
check(e.is_empty(), "empty")
e.effect = 1
check(not e.is_empty(), "not empty after effect")
check("AB 12 CD34" in n.tabular_repr(), "tabular_repr: " + n.tabular_repr())


# ------------------------------------------------------------------ SFGS
def sfgs_and_neighbours(project):
    names, payload = [], None
    for name, data in project.chunks():
        names.append(name)
        if name == b"SFGS":
            payload = data
        if name == b"BPM ":
            break
    return names, payload


def decode(data):
    reader = SunVoxReader(io.BytesIO())
    project = rv.Project()
    project.receive_sync_midi = project.receive_sync_other = "unset"
    reader.object = project
    reader.process_SFGS(data)
    return project


for midi, other in itertools.product(range(8), repeat=2):
    project = rv.Project()
    project.receive_sync_midi = midi
    project.receive_sync_other = other
    names, payload = sfgs_and_neighbours(project)
    check(names == [b"SVOX", b"VERS", b"BVER", b"FLGS", b"SFGS", b"BPM "], f"chunk order {names}")
    check(payload == struct.pack("<I", midi | other << 3), f"SFGS bytes {midi},{other}")
    back = decode(payload)
    check((back.receive_sync_midi, back.receive_sync_other) == (midi, other), f"SFGS decode {midi},{other}")
    check(type(back.receive_sync_midi) is int and type(back.receive_sync_other) is int, "plain ints")
    # changing one half keeps the other
    for new in range(8):
        project.receive_sync_midi = new
        check(sfgs_and_neighbours(project)[1] == struct.pack("<I", new | other << 3), "midi half only")
    project.receive_sync_midi = midi
    for new in range(8):
        project.receive_sync_other = new
        check(sfgs_and_neighbours(project)[1] == struct.pack("<I", midi | new << 3), "other half only")

# defaults and enum members
project = rv.Project()
SC = rv.Project.SyncCommand
check(sfgs_and_neighbours(project)[1] == struct.pack("<I", 0b001001), "default SFGS")
project.receive_sync_midi = SC.tempo | SC.position
project.receive_sync_other = SC.start_stop | SC.position
check(sfgs_and_neighbours(project)[1] == struct.pack("<I", 0b101110), "enum-built SFGS")

# every bit pattern: bits above the two 3-bit sets are dropped on load
for word in [0, 0x3F, 0x40, 0xFFFFFFC0, 0xFFFFFFFF, 0x80000007, 0x12345678, 0x000001FF]:
    back = decode(struct.pack("<I", word))
    check(back.receive_sync_midi == word & 7, f"midi of {word:#x}")
    check(back.receive_sync_other == word >> 3 & 7, f"other of {word:#x}")
for _ in range(300):
    word = rng.randrange(1 << 32)
    back = decode(struct.pack("<I", word))
    check((back.receive_sync_midi, back.receive_sync_other) == (word & 7, word >> 3 & 7), "random word")

# out-of-width attribute values are written as given (no masking on save)
project = rv.Project()
project.receive_sync_midi = 0x100
project.receive_sync_other = 0x20
check(sfgs_and_neighbours(project)[1] == struct.pack("<I", 0x100 | 0x20 << 3), "no masking on save")

# error types
for data in (b"", b"123", b"12345"):
    project = rv.Project()
    reader = SunVoxReader(io.BytesIO())
    reader.object = project
    try:
        reader.process_SFGS(data)
    except struct.error:
        pass
    else:
        check(False, "short SFGS accepted")
    check(
        (project.receive_sync_midi, project.receive_sync_other) == (SC.start_stop, SC.start_stop),
        "failed SFGS load leaves project alone",
    )
for attr, bad, exc in [
    ("receive_sync_other", 1 << 30, struct.error),
    ("receive_sync_midi", -1, struct.error),
    ("receive_sync_other", None, TypeError),
    ("receive_sync_midi", None, TypeError),
    ("receive_sync_other", 1.0, TypeError),
]:
    project = rv.Project()
    setattr(project, attr, bad)
    seen = []
    try:
        for name, _ in project.chunks():
            seen.append(name)
            if name == b"BPM ":
                break
    except exc:
        check(seen[-1] == b"FLGS", f"{attr}={bad!r}: raised at SFGS")
    except Exception as e:  # noqa
        check(False, f"{attr}={bad!r}: {type(e).__name__}")
    else:
        check(False, f"{attr}={bad!r} accepted")

# whole-file round trip, including a pattern using the four sub-fields
project = rv.Project()
project.receive_sync_midi = 5
project.receive_sync_other = 6
pattern = rv.Pattern(tracks=2, lines=4)
project.attach_pattern(pattern)
for ln, row in enumerate(pattern.data):
    for tr, cell in enumerate(row):
        cell.controller = 10 * ln + tr
        cell.effect = 0xF0 | ln
        cell.val_xx = 0x80 + tr
        cell.val_yy = ln * 16 + tr
        cell.controller = cell.controller + 1  # overwrite a non-zero byte
buf = io.BytesIO()
project.write_to(buf)
buf.seek(0)
loaded = rv.read_sunvox_file(buf)
check((loaded.receive_sync_midi, loaded.receive_sync_other) == (5, 6), "file: SFGS")
for ln, row in enumerate(loaded.patterns[0].data):
    for tr, cell in enumerate(row):
        check(
            (cell.controller, cell.effect, cell.val_xx, cell.val_yy)
            == (10 * ln + tr + 1, 0xF0 | ln, 0x80 + tr, ln * 16 + tr),
            f"file: cell {ln},{tr}",
        )
buf2 = io.BytesIO()
loaded.write_to(buf2)
check(buf2.getvalue() == buf.getvalue(), "file byte-identical on second save")

if failures:
    print("FAIL", len(failures))
    for f in failures[:20]:
        print("  ", f)
    sys.exit(1)
print("PASS")
