"""Behaviour check for ModuleMeta (registry / controllers / options set-up) and the
genrv command line tool (arg_parser, resolve_object_name, generate, main).

Passes on the unchanged tree and with the patch applied.
"""
import contextlib
import io
import logging
import os
import sys
import tempfile
import types
from enum import IntEnum
from pathlib import Path

import genrv
import yaml
from genrv.tools import generate as gen_tool
from rv import modules as rvm
from rv.controller import (
    CompactRange,
    Controller,
    DependentRange,
    NoOffsetRange,
    Range,
    WarnOnlyRange,
)
from rv.modules import MODULE_CLASSES, Behavior, Module
from rv.modules.meta import ModuleMeta
from rv.option import Option

ROOT = Path(genrv.__file__).resolve().parents[3]
SPEC = yaml.safe_load((ROOT / "specs" / "fileformat.yaml").read_text())
BASE_DIR = ROOT / "src" / "python" / "rv" / "modules" / "base"

failures = []


def expect(cond, msg):
    if not cond:
        failures.append(msg)


# ------------------------------------------------- classes against the spec


def check_classes_against_spec():
    mts = SPEC["module_types"]
    expect(len(mts) == 43, f"{len(mts)} module types in spec")
    expected_types = {(mt.get("type") or name): name for name, mt in mts.items()}
    expect(set(MODULE_CLASSES) == set(expected_types), "registered type names differ from spec")
    n_ctl = n_opt = 0
    for mtype, name in expected_types.items():
        mt = mts[name]
        cls = MODULE_CLASSES.get(mtype)
        if cls is None:
            continue
        expect(cls is getattr(rvm, name), f"{mtype}: registry does not hold rv.modules.{name}")
        expect(cls.mtype == mtype and cls.mgroup == mt["group"], f"{mtype}: header")
        expect(cls.default_flags == (mt.get("defaultFlags") or 0), f"{mtype}: flags")
        spec_ctls = [(k, v) for c in (mt.get("controllers") or []) for k, v in c.items()]
        expect(type(cls.controllers) is dict, f"{mtype}: controllers container")
        want_names = ["in_" if k == "in" else k for k, _ in spec_ctls]
        # MetaModule and Sampler add hand-written controllers after the generated ones
        extras = {"MetaModule": [f"user_defined_{i}" for i in range(1, 97)],
                  "Sampler": ["vibrato_type", "vibrato_attack", "vibrato_depth", "vibrato_rate", "volume_fadeout"]}
        expect(list(cls.controllers) == want_names + extras.get(name, []), f"{mtype}: controller order")
        for i, extra in enumerate(extras.get(name, []), len(want_names) + 1):
            expect(cls.controllers[extra].number == i and cls.controllers[extra].name == extra, f"{mtype}.{extra}: number")
        for i, ((cname, cdef), (key, ctl)) in enumerate(zip(spec_ctls, cls.controllers.items()), 1):
            n_ctl += 1
            expect(ctl.name == key, f"{mtype}.{key}: name {ctl.name}")
            expect(ctl.number == i, f"{mtype}.{key}: number {ctl.number} != {i}")
            expect(ctl.label == key.replace("_", " ").title(), f"{mtype}.{key}: label {ctl.label!r}")
            expect(getattr(cls, key) is ctl, f"{mtype}.{key}: attribute identity")
            vt = ctl.value_type
            if "min" in cdef and "max" in cdef:
                kind = CompactRange if cdef.get("compact") else NoOffsetRange if cdef.get("no_offset") else Range
                expect(type(vt) is kind and (vt.min, vt.max) == (cdef["min"], cdef["max"]), f"{mtype}.{key}: range")
                expect(ctl.default == cdef["default"], f"{mtype}.{key}: default")
            elif "enum" in cdef:
                expect(vt is getattr(cls, cdef["enum"]), f"{mtype}.{key}: enum")
                expect(ctl.default is vt[gen_tool.enumname(cdef["default"])], f"{mtype}.{key}: enum default")
            elif "bool" in cdef:
                expect(vt is bool and ctl.default == cdef["default"], f"{mtype}.{key}: bool")
            elif "depends_on" in cdef:
                expect(isinstance(vt, DependentRange) and vt.ctl_name == cdef["depends_on"], f"{mtype}.{key}: dep")
                got = [(k.name, type(r), r.min, r.max) for k, r in vt.range_map.items()]
                want = [(gen_tool.enumname(k), WarnOnlyRange, r["min"], r["max"]) for k, r in cdef["ranges"].items()]
                expect(got == want, f"{mtype}.{key}: range table")
            expect(ctl._attached == cdef.get("attached", True), f"{mtype}.{key}: attached")
        spec_opts = {k: v for o in (mt.get("options") or []) for k, v in o.items()}
        expect(type(cls.options) is dict, f"{mtype}: options container")
        expect(list(cls.options) == sorted(spec_opts), f"{mtype}: option keys / order")
        for oname, opt in cls.options.items():
            n_opt += 1
            o = spec_opts[oname]
            expect(opt.name == oname and cls.__dict__.get(oname, getattr(cls, oname)) is opt, f"{mtype}.{oname}: identity")
            expect((opt.byte, opt.bit, opt.size) == (o["byte"], o["bit"], o["size"]), f"{mtype}.{oname}: position")
            expect(opt.number == (o.get("number") or None), f"{mtype}.{oname}: number")
    expect(n_ctl == 502, f"{n_ctl} controllers checked")
    expect(n_opt == 49, f"{n_opt} options checked")


# --------------------------------------------------------- synthetic classes


def check_synthetic_classes():
    before = dict(MODULE_CLASSES)
    try:
        class Kind(IntEnum):
            one = 1
            two = 2

        class SynthA(Module):
            mtype = "C13 Synthetic A"
            mgroup = "Synth"
            behaviors = {Behavior.sends_audio}
            Kind_ = Kind
            zulu = Controller((0, 10), 5)
            alpha = Controller(bool, False)
            mid_point_value = Controller((-5, 5), 0)
            second = first = Controller(Kind, Kind.one)
            not_a_controller = 42
            z_opt = Option(name="z_opt", byte=0, bit=0, size=1, default=False)
            a_opt = Option(name="a_opt", byte=1, bit=2, size=1, default=True, inverted=True)

        expect(MODULE_CLASSES.get("C13 Synthetic A") is SynthA, "synthetic class registered")
        expect(
            list(SynthA.controllers) == ["zulu", "alpha", "mid_point_value", "first", "second"],
            f"definition order: {list(SynthA.controllers)}",
        )
        expect(type(SynthA.controllers) is dict and type(SynthA.options) is dict, "containers")
        expect(SynthA.controllers["zulu"].number == 1, "zulu number")
        expect(SynthA.controllers["alpha"].number == 2, "alpha number")
        expect(SynthA.controllers["mid_point_value"].number == 3, "mid number")
        expect(SynthA.controllers["mid_point_value"].label == "Mid Point Value", "label")
        expect(SynthA.controllers["mid_point_value"].name == "mid_point_value", "name")
        shared = SynthA.controllers["first"]
        expect(shared is SynthA.controllers["second"], "alias identity")
        expect((shared.name, shared.number, shared.label) == ("second", 5, "Second"), f"alias {shared.name, shared.number, shared.label}")
        expect(list(SynthA.options) == ["a_opt", "z_opt"], f"options order {list(SynthA.options)}")
        expect(SynthA.options["a_opt"].inverted is True and SynthA.options["z_opt"].byte == 0, "option objects")
        expect("not_a_controller" not in SynthA.controllers and "Kind_" not in SynthA.controllers, "non controllers")

        class SynthB(SynthA):
            mtype = "C13 Synthetic B"
            extra = Controller((0, 1), 0)
            b_opt = Option(name="b_opt", byte=3, bit=0, size=1, default=False)

        expect(MODULE_CLASSES.get("C13 Synthetic B") is SynthB, "subclass registered")
        expect(MODULE_CLASSES.get("C13 Synthetic A") is SynthA, "parent still registered")
        expect(
            list(SynthB.controllers) == ["zulu", "alpha", "mid_point_value", "first", "second", "extra"],
            "inherited order",
        )
        expect(SynthB.controllers["extra"].number == 6, "sub numbering")
        expect(SynthB.controllers is not SynthA.controllers and "extra" not in SynthA.controllers, "separate dicts")
        expect(list(SynthB.options) == ["a_opt", "b_opt", "z_opt"], "inherited options")

        class Unregistered(Module):
            mtype = None
            mgroup = "Misc"
            only = Controller((0, 3), 1)

        class EmptyType(Module):
            mtype = ""
            mgroup = "Misc"

        expect(None not in MODULE_CLASSES and "" not in MODULE_CLASSES, "falsy mtype registered")
        expect(Unregistered not in MODULE_CLASSES.values() and EmptyType not in MODULE_CLASSES.values(), "falsy mtype class registered")
        expect(list(Unregistered.controllers) == ["only"] and Unregistered.controllers["only"].number == 1, "unregistered ctl")
        expect(EmptyType.controllers == {} and EmptyType.options == {}, "empty containers")

        class Replacement(Module):
            mtype = "C13 Synthetic A"
            mgroup = "Synth"

        expect(MODULE_CLASSES["C13 Synthetic A"] is Replacement, "last registration wins")

        # a bare class (no Module base) called "Module" skips the docstring step
        Bare = ModuleMeta("Module", (), {"c2": Controller((0, 1), 0), "c1": Controller((0, 1), 1)})
        expect(list(Bare.controllers) == ["c2", "c1"] and Bare.options == {}, "bare class")
        expect([c.number for c in Bare.controllers.values()] == [1, 2], "bare numbering")
        expect(Bare not in MODULE_CLASSES.values(), "bare class registered")

        # instance level behaviour built on the tables
        m = SynthB()
        expect(m.zulu == 5 and m.extra == 0 and m.second is Kind.one, "instance defaults")
        m.mid_point_value = -3
        expect(m.controller_values["mid_point_value"] == -3, "instance set")
        expect(m.a_opt is False or m.a_opt is True, "option readable")
    finally:
        for k in list(MODULE_CLASSES):
            if k not in before:
                del MODULE_CLASSES[k]
        MODULE_CLASSES.update(before)
    expect(dict(MODULE_CLASSES) == before, "registry restored")


# ------------------------------------------------------------------- tool


def check_tool_helpers():
    p = gen_tool.arg_parser()
    expect(p.description == "Radiant Voices code generator tool", "parser description")
    expect(gen_tool.DESCRIPTION == "Radiant Voices code generator tool", "DESCRIPTION")
    ns = p.parse_args(["--config", "some/path.yaml"])
    expect(ns.config == "some/path.yaml" and vars(ns) == {"config": "some/path.yaml"}, "parsed args")
    with contextlib.redirect_stderr(io.StringIO()):
        try:
            p.parse_args([])
        except SystemExit as e:
            expect(e.code == 2, "missing --config exit code")
        else:
            expect(False, "missing --config accepted")

    r = gen_tool.resolve_object_name
    from genrv.codegen.python.gen import PythonGenerator

    expect(r("genrv.codegen.python.gen:PythonGenerator") is PythonGenerator, "resolve class")
    expect(r("os:path.join") is os.path.join, "resolve dotted attribute")
    expect(r("genrv.tools.generate:enumname") is gen_tool.enumname, "resolve function")
    for bad, exc in (
        ("no_colon_here", ValueError),
        ("a:b:c", ValueError),
        ("c13_no_such_module_xyz:thing", ModuleNotFoundError),
        ("os:no_such_attr", AttributeError),
    ):
        try:
            r(bad)
        except exc:
            pass
        except Exception as e:
            expect(False, f"resolve {bad!r} raised {type(e).__name__}")
        else:
            expect(False, f"resolve {bad!r} did not raise")


def install_fake_generator():
    mod = types.ModuleType("c13_fake_gen")
    mod.calls = []

    class Recorder:
        def __init__(self, **options):
            mod.calls.append(("init", options))

        def run(self, env):
            mod.calls.append(("run", env))

    class Outer:
        Inner = Recorder

    mod.Recorder = Recorder
    mod.Outer = Outer
    sys.modules["c13_fake_gen"] = mod
    return mod


def check_generate_and_main():
    fake = install_fake_generator()
    try:
        sentinel = object()
        result = gen_tool.generate(sentinel, "c13_fake_gen:Outer.Inner", spec_base="s", dest_base="d", extra=1)
        expect(result is None, "generate returns None")
        expect(
            fake.calls == [("init", {"spec_base": "s", "dest_base": "d", "extra": 1}), ("run", sentinel)],
            f"generate calls {fake.calls}",
        )
        try:
            gen_tool.generate(sentinel, generator="c13_fake_gen:Missing")
        except AttributeError:
            pass
        else:
            expect(False, "generate with a missing class did not raise")
        del fake.calls[:]

        with tempfile.TemporaryDirectory() as d:
            cfg = Path(d) / "genrv-config.yaml"
            cfg.write_text(
                yaml.safe_dump(
                    [
                        {"generator": "c13_fake_gen:Recorder", "spec_base": "x/", "dest_base": "y/"},
                        {
                            "generator": "genrv.codegen.python.gen:PythonGenerator",
                            "spec_base": str(ROOT / "specs"),
                            "dest_base": str(Path(d) / "dest"),
                        },
                    ]
                )
            )
            old_argv = sys.argv
            sys.argv = ["genrv", "--config", str(cfg)]
            try:
                with contextlib.redirect_stdout(io.StringIO()), contextlib.redirect_stderr(io.StringIO()):
                    rc = gen_tool.main()
            finally:
                sys.argv = old_argv
                logging.getLogger().handlers[:] = []
            expect(rc == 0 and type(rc) is int, f"main returned {rc!r}")
            expect(fake.calls[0] == ("init", {"spec_base": "x/", "dest_base": "y/"}), "config forwarded")
            env = fake.calls[1][1]
            for fname, f in (("hex", hex), ("repr", repr), ("enumname", gen_tool.enumname)):
                expect(env.filters.get(fname) is f, f"filter {fname}")
            expect("camelcase" in env.filters and "pascalcase" in env.filters, "case filters")
            expect(env.filters["pascalcase"]("foo_bar") == "FooBar", "pascalcase filter")
            expect(env.get_template("python/base_module.py.jinja2") is not None, "python templates")
            ts_templates = [t for t in env.list_templates() if t.startswith("ts/")]
            py_templates = [t for t in env.list_templates() if t.startswith("python/")]
            expect(ts_templates and py_templates and len(ts_templates) + len(py_templates) == len(env.list_templates()), "prefixes")
            expect(logging.getLogger("genrv").level == logging.DEBUG, "genrv log level")
            outdir = Path(d) / "dest" / "modules" / "base"
            produced = sorted(p.name for p in outdir.glob("*.py"))
            expect(len(produced) == 43, f"main generated {len(produced)} files")
            for name in produced:
                expect((outdir / name).read_text() == (BASE_DIR / name).read_text(), f"{name} differs")

            # missing config file and missing argument
            for argv, exc in ((["genrv", "--config", str(Path(d) / "nope.yaml")], FileNotFoundError), (["genrv"], SystemExit)):
                sys.argv = argv
                try:
                    with contextlib.redirect_stdout(io.StringIO()), contextlib.redirect_stderr(io.StringIO()):
                        gen_tool.main()
                except exc:
                    pass
                except BaseException as e:
                    expect(False, f"main{argv[1:]} raised {type(e).__name__}")
                else:
                    expect(False, f"main{argv[1:]} did not raise")
                finally:
                    sys.argv = old_argv
                    logging.getLogger().handlers[:] = []
    finally:
        sys.modules.pop("c13_fake_gen", None)


def main():
    check_classes_against_spec()
    check_synthetic_classes()
    check_tool_helpers()
    check_generate_and_main()
    if failures:
        for f in failures[:40]:
            print("FAIL:", f)
        sys.exit(1)
    print("PASS")


if __name__ == "__main__":
    main()
