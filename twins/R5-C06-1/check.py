"""Behaviour check for the Sampler *write* path (C06, refactoring 1).

Run from the repository root:
    PYTHONPATH=<root>/src/python python check.py

Exercises Sampler.specialized_iff_chunks / global_config_chunks /
sample_data_chunks / sample_chunks and Sampler.Envelope.chunks / point_bytes,
through load -> edit -> save -> load cycles and through direct calls, and
compares the produced bytes against digests recorded on the unchanged tree.
Set CHECK_DUMP=1 to print the digests instead of comparing them.
"""

import hashlib
import logging
import os
import struct
import sys
from io import BytesIO
from struct import pack

from rv.api import Project, Synth, read_sunvox_file
from rv.lib.iff import chunks as iff_chunks
from rv.lib.iff import write_chunk
from rv.modules.metamodule import MetaModule
from rv.modules.sampler import Sampler

logging.disable(logging.CRITICAL)

FIXTURE = os.path.join("tests", "files", "sampler.sunsynth")
FAILURES = []
DIGESTS = {}


def check(cond, label):
    if not cond:
        FAILURES.append(label)
        print("FAIL:", label)


# --------------------------------------------------------------------------
# raw IFF helpers


def iff_list(raw):
    return list(iff_chunks(BytesIO(raw)))


def iff_bytes(items):
    f = BytesIO()
    for name, data in items:
        write_chunk(f, name, data)
    return f.getvalue()


def load(raw):
    return read_sunvox_file(BytesIO(raw))


def digest(label, data):
    if not isinstance(data, (bytes, bytearray)):
        data = repr(data).encode("utf8")
    DIGESTS[label] = hashlib.sha256(data).hexdigest()[:20]


def stream(gen):
    """Serialize a (name, data) chunk generator the way Container.write_to does."""
    f = BytesIO()
    for name, data in gen:
        write_chunk(f, name, data)
    return f.getvalue()


def map_module_chunks(raw, fn):
    """Apply fn(chnm, chdt) -> chdt | None (drop) to every CHNM/CHDT group."""
    out = []
    items = iff_list(raw)
    i = 0
    while i < len(items):
        name, data = items[i]
        if name == b"CHNM":
            (chnm,) = struct.unpack("<I", data)
            group = [items[i]]
            i += 1
            while i < len(items) and items[i][0] in (b"CHDT", b"CHFF", b"CHFR"):
                group.append(items[i])
                i += 1
            chdt = dict(group).get(b"CHDT")
            new = fn(chnm, chdt)
            if new is None:
                continue
            out.extend((n, new if n == b"CHDT" else d) for n, d in group)
            continue
        out.append(items[i])
        i += 1
    return iff_bytes(out)


# --------------------------------------------------------------------------
# variants of the sampler fixture


def variants():
    with open(FIXTURE, "rb") as f:
        modern = f.read()

    def bad_sign(chnm, chdt):
        if chnm == 0:
            return chdt[:0xFC] + b"XXXX" + chdt[0x100:]
        return chdt

    def too_long(chnm, chdt):
        if chnm == 0:
            return chdt + b"\0" * 16
        return chdt

    def no_envelopes(chnm, chdt):
        if 0x102 <= chnm <= 0x108:
            return None
        return chdt

    def short_instrument(chnm, chdt):
        if 0x102 <= chnm <= 0x108:
            return None
        if chnm == 0:
            return chdt[:0x184]
        return chdt

    def no_effect(chnm, chdt):
        if chnm == 0x10A:
            return None
        return chdt

    return {
        "modern": modern,
        "legacy_sign": map_module_chunks(modern, bad_sign),
        "legacy_long": map_module_chunks(modern, too_long),
        "old_envelopes": map_module_chunks(modern, no_envelopes),
        "short_instrument": map_module_chunks(modern, short_instrument),
        "no_effect": map_module_chunks(modern, no_effect),
    }


# --------------------------------------------------------------------------
# canonical description of everything a sampler serializes


def describe_envelope(e):
    return {
        "points": list(e.points),
        "sustain_point": e.sustain_point,
        "loop_start_point": e.loop_start_point,
        "loop_end_point": e.loop_end_point,
        "enable": e.enable,
        "sustain": e.sustain,
        "loop": e.loop,
        "ctl_index": e.ctl_index,
        "gain_pct": e.gain_pct,
        "velocity": e.velocity,
    }


def describe_sample(s):
    if s is None:
        return None
    return {
        k: getattr(s, k)
        for k in (
            "data loop_start loop_len volume finetune format channels rate "
            "loop_type loop_sustain panning relative_note reserved2 name start_pos"
        ).split()
    }


def describe(s, depth=0):
    d = {}
    for k in (
        "name flags mod_finetune mod_relative_note mod_scale color midi_in_always "
        "midi_in_channel midi_out_name midi_out_channel midi_out_bank "
        "midi_out_program instrument_name version max_version unused1 unused2 "
        "unused3 unused4 unused5 unused6 volume_old ins_finetune ins_relative_note "
        "editor_cursor editor_selected_size is_legacy"
    ).split():
        d[k] = getattr(s, k)
    for k in s.controllers:
        d["ctl." + k] = getattr(s, k)
    for k in s.options:
        d["opt." + k] = getattr(s, k)
    d["note_samples"] = s.note_samples.bytes
    d["env.volume"] = describe_envelope(s.volume_envelope)
    d["env.panning"] = describe_envelope(s.panning_envelope)
    d["env.pitch"] = describe_envelope(s.pitch_envelope)
    for i, e in enumerate(s.effect_control_envelopes):
        d["env.fx%d" % i] = describe_envelope(e)
    for i, smp in enumerate(s.samples):
        if smp is not None:
            d["sample.%d" % i] = describe_sample(smp)
    d["sample_slots"] = [i for i, smp in enumerate(s.samples) if smp is not None]
    if s.effect is not None and depth < 2:
        d["effect"] = s.effect.module.mtype + ":" + repr(
            sorted(
                (k, getattr(s.effect.module, k)) for k in s.effect.module.controllers
            )
        )
    else:
        d["effect"] = None
    return d


def diff_keys(a, b):
    return sorted(k for k in set(a) | set(b) if a.get(k) != b.get(k))


# --------------------------------------------------------------------------
# the catalogue of edits


def edit_catalogue():
    S = Sampler

    def env_edit(getter, attr, value):
        def apply(s):
            setattr(getter(s), attr, value)

        return apply

    def sample_edit(index, attr, value):
        def apply(s):
            setattr(s.samples[index], attr, value)

        return apply

    def attr_edit(attr, value):
        def apply(s):
            setattr(s, attr, value)

        return apply

    def vol(s):
        return s.volume_envelope

    def pan(s):
        return s.panning_envelope

    def pitch(s):
        return s.pitch_envelope

    def fx(i):
        return lambda s: s.effect_control_envelopes[i]

    cat = [
        ("volume", attr_edit("volume", 300), ["ctl.volume"]),
        ("panning", attr_edit("panning", -100), ["ctl.panning"]),
        ("polyphony", attr_edit("polyphony", 3), ["ctl.polyphony"]),
        ("vibrato_type", attr_edit("vibrato_type", S.VibratoType.saw),
         ["ctl.vibrato_type"]),
        ("vibrato_attack", attr_edit("vibrato_attack", 200), ["ctl.vibrato_attack"]),
        ("vibrato_depth", attr_edit("vibrato_depth", 17), ["ctl.vibrato_depth"]),
        ("vibrato_rate", attr_edit("vibrato_rate", 63), ["ctl.vibrato_rate"]),
        ("volume_fadeout", attr_edit("volume_fadeout", 8192), ["ctl.volume_fadeout"]),
        ("instrument_name", attr_edit("instrument_name", b"edited-name"),
         ["instrument_name"]),
        ("instrument_name_long",
         attr_edit("instrument_name", b"0123456789abcdefghijklmnopqrstuvwxyz"),
         ["instrument_name"]),
        ("volume_old", attr_edit("volume_old", 12), ["volume_old"]),
        ("ins_finetune", attr_edit("ins_finetune", -7), ["ins_finetune"]),
        ("ins_relative_note", attr_edit("ins_relative_note", 5),
         ["ins_relative_note"]),
        ("editor_cursor", attr_edit("editor_cursor", -3), ["editor_cursor"]),
        ("editor_selected_size", attr_edit("editor_selected_size", 99),
         ["editor_selected_size"]),
        ("unused1", attr_edit("unused1", 0xDEADBEEF), ["unused1"]),
        ("unused5", attr_edit("unused5", 9), ["unused5"]),
        ("name", attr_edit("name", "Renamed"), ["name"]),
        ("color", attr_edit("color", (1, 2, 3)), ["color"]),
        ("mod_finetune", attr_edit("mod_finetune", -11), ["mod_finetune"]),
        ("opt.record_in_mono", attr_edit("record_in_mono", False),
         ["opt.record_in_mono"]),
        ("opt.ignore_velocity", attr_edit("ignore_velocity_for_volume", True),
         ["opt.ignore_velocity_for_volume"]),
        ("vol.points",
         env_edit(vol, "points", [(0, 0), (5, 0x8000), (9, 0x1234), (400, 1)]),
         ["env.volume"]),
        ("vol.points.many",
         env_edit(vol, "points", [(i * 3, (i * 0x777) % 0x8001) for i in range(15)]),
         ["env.volume"]),
        ("vol.points.none", env_edit(vol, "points", []), ["env.volume"]),
        ("vol.sustain_point", env_edit(vol, "sustain_point", 3), ["env.volume"]),
        ("vol.loop", env_edit(vol, "loop", True), ["env.volume"]),
        ("vol.enable", env_edit(vol, "enable", False), ["env.volume"]),
        ("vol.gain_pct", env_edit(vol, "gain_pct", 55), ["env.volume"]),
        ("vol.velocity", env_edit(vol, "velocity", 1), ["env.volume"]),
        ("pan.points",
         env_edit(pan, "points", [(0, -0x4000), (7, 0x4000), (9, 0), (11, -1)]),
         ["env.panning"]),
        ("pan.sustain", env_edit(pan, "sustain", True), ["env.panning"]),
        ("pan.loop_end_point", env_edit(pan, "loop_end_point", 2), ["env.panning"]),
        ("pitch.points", env_edit(pitch, "points", [(0, 0x4000), (100, -0x4000)]),
         ["env.pitch"]),
        ("pitch.enable", env_edit(pitch, "enable", True), ["env.pitch"]),
        ("fx0.points", env_edit(fx(0), "points", [(0, 0), (1, 0x8000)]), ["env.fx0"]),
        ("fx2.ctl_index", env_edit(fx(2), "ctl_index", 7), ["env.fx2"]),
        ("fx3.loop_start_point", env_edit(fx(3), "loop_start_point", 1),
         ["env.fx3"]),
        ("sample0.volume", sample_edit(0, "volume", 11), ["sample.0"]),
        ("sample0.finetune", sample_edit(0, "finetune", -128), ["sample.0"]),
        ("sample0.panning", sample_edit(0, "panning", -128), ["sample.0"]),
        ("sample1.panning", sample_edit(1, "panning", 127), ["sample.1"]),
        ("sample1.loop_type", sample_edit(1, "loop_type", S.LoopType.forward),
         ["sample.1"]),
        ("sample1.loop_sustain", sample_edit(1, "loop_sustain", True), ["sample.1"]),
        ("sample2.relative_note", sample_edit(2, "relative_note", -20),
         ["sample.2"]),
        ("sample2.name", sample_edit(2, "name", b"kick"), ["sample.2"]),
        ("sample2.rate", sample_edit(2, "rate", 8000), ["sample.2"]),
        ("sample0.loop", lambda s: (setattr(s.samples[0], "loop_start", 2),
                                    setattr(s.samples[0], "loop_len", 5)),
         ["sample.0"]),
        ("sample0.start_pos", sample_edit(0, "start_pos", 4), ["sample.0"]),
        ("sample0.reserved2", sample_edit(0, "reserved2", 77), ["sample.0"]),
        ("sample0.data", sample_edit(0, "data", bytes(range(48))), ["sample.0"]),
    ]

    def remap(s):
        from rv.note import NOTE

        s.note_samples[NOTE.C4] = 2
        s.note_samples[NOTE.a9] = 1

    cat.append(("note_samples", remap, ["note_samples"]))

    def reformat(s):
        smp = s.samples[0]
        smp.format = S.Format.int16
        smp.channels = S.Channels.stereo
        smp.data = bytes(range(64))

    cat.append(("sample0.format", reformat, ["sample.0"]))

    def new_sample(s):
        smp = S.Sample()
        smp.data = pack("<8f", *[i / 8 for i in range(8)])
        smp.name = b"fresh"
        s.samples[40] = smp

    cat.append(("sample40.new", new_sample, ["sample.40", "sample_slots"]))

    def drop_sample(s):
        s.samples[2] = None

    cat.append(("sample2.drop", drop_sample, ["sample.2", "sample_slots"]))

    def drop_effect(s):
        s.effect = None

    cat.append(("effect.drop", drop_effect, ["effect"]))
    return cat


# --------------------------------------------------------------------------
# checks


def check_roundtrips(vs):
    for vname, raw in vs.items():
        synth = load(raw)
        out = synth.read()
        digest("roundtrip.%s" % vname, out)
        again = load(out)
        check(
            describe(again.module) == describe(synth.module),
            "roundtrip %s preserves state" % vname,
        )
        check(again.read() == out, "roundtrip %s is a fixed point" % vname)
        digest("state.%s" % vname, sorted(describe(synth.module).items()))
        # the specialized section on its own
        digest(
            "specialized.%s" % vname, stream(synth.module.specialized_iff_chunks())
        )


def check_edits(vs):
    cat = edit_catalogue()
    for vname in ("modern", "old_envelopes", "short_instrument", "no_effect"):
        raw = vs[vname]
        base = describe(load(raw).module)
        for label, apply, expected_keys in cat:
            if label == "effect.drop" and vname == "no_effect":
                continue
            synth = load(raw)
            apply(synth.module)
            edited = describe(synth.module)
            out = synth.read()
            digest("edit.%s.%s" % (vname, label), out)
            reloaded = describe(load(out).module)
            if label == "instrument_name_long":
                edited["instrument_name"] = edited["instrument_name"][:22]
            check(
                reloaded == edited,
                "edit %s/%s is what gets saved (diff %s)"
                % (vname, label, diff_keys(reloaded, edited)),
            )
            check(
                diff_keys(reloaded, base) == sorted(expected_keys),
                "edit %s/%s only changes %s (got %s)"
                % (vname, label, expected_keys, diff_keys(reloaded, base)),
            )
    # legacy instruments replay the raw chunks: specialized edits are lost,
    # module-level edits (written outside the CHNK section) are kept.
    for vname in ("legacy_sign", "legacy_long"):
        raw = vs[vname]
        base_specialized = stream(load(raw).module.specialized_iff_chunks())
        for label, apply, expected_keys in cat:
            synth = load(raw)
            check(synth.module.is_legacy is True, "%s is legacy" % vname)
            apply(synth.module)
            check(
                stream(synth.module.specialized_iff_chunks()) == base_specialized,
                "legacy %s/%s replays raw chunks" % (vname, label),
            )
            digest("legacy.%s.%s" % (vname, label), synth.read())


def check_envelope_units():
    S = Sampler
    point_sets = [
        [],
        [(0, 0)],
        [(0, 0x8000), (8, 0), (0x80, 0), (0x100, 0)],
        [(i, i * 0x200) for i in range(12)],
        [(i * 2, (i * 0x333) % 0x8000) for i in range(13)],
        [(i * 5, 0x8000 - i * 0x100) for i in range(20)],
        [(65535, 0x7FFF)],
    ]
    makers = [
        ("vol", S.VolumeEnvelope, 0),
        ("pan", S.PanningEnvelope, -0x4000),
        ("pitch", S.PitchEnvelope, -0x4000),
        ("fx", lambda: S.EffectControlEnvelope(0x106), 0),
    ]
    for mname, make, shift in makers:
        for n, pts in enumerate(point_sets):
            for flags in range(8):
                e = make()
                e.points = [(x, y + shift) for x, y in pts]
                e.bitmask = flags
                e.sustain_point = n
                e.loop_start_point = flags
                e.loop_end_point = n + flags
                e.ctl_index = flags * 3
                e.gain_pct = 100 - n
                e.velocity = flags & 1
                check(e.bitmask == flags, "bitmask round trip %s" % flags)
                key = "%s.%d.%d" % (mname, n, flags)
                out = list(e.chunks())
                check(
                    [name for name, _ in out] == [b"CHNM", b"CHDT"],
                    "envelope chunk names " + key,
                )
                check(len(out[1][1]) == 0x14 + 4 * len(pts), "envelope size " + key)
                digest("env.chunks." + key, stream(iter(out)))
                if flags == 0:
                    digest("env.point_bytes." + key, e.point_bytes)
                    check(len(e.point_bytes) == 48, "point_bytes length " + key)
                    check(len(e._x_values) == 12, "_x_values length " + key)
                    check(len(e._y_values) == 12, "_y_values length " + key)
                    digest("env.xy." + key, (e._x_values, e._y_values))
                # reload into a fresh envelope
                e2 = make()
                e2.load_chdt(out[1][1])
                check(
                    describe_envelope(e2) == describe_envelope(e),
                    "envelope reload " + key,
                )
    # out-of-range field: CHNM is produced, then struct.error
    e = S.VolumeEnvelope()
    e.ctl_index = 300
    gen = e.chunks()
    check(next(gen) == (b"CHNM", pack("<I", 0x102)), "CHNM precedes the data")
    try:
        next(gen)
    except struct.error:
        pass
    else:
        check(False, "out-of-range ctl_index raises struct.error")
    e = S.PanningEnvelope()
    e.points = [(0, 0x4001)]
    gen = e.chunks()
    next(gen)
    try:
        next(gen)
    except struct.error:
        check(False, "0x4001 + 0x4000 still fits uint16")
    e.points = [(0, -0x4001)]
    gen = e.chunks()
    next(gen)
    try:
        next(gen)
    except struct.error:
        pass
    else:
        check(False, "point below range raises struct.error")


def build_sampler(spec):
    S = Sampler
    s = S(instrument_name=spec.get("instrument_name", b""))
    for index, (fmt, ch, loop, sustain, nbytes) in spec.get("samples", {}).items():
        smp = S.Sample()
        smp.format = fmt
        smp.channels = ch
        smp.loop_type = loop
        smp.loop_sustain = sustain
        smp.data = bytes((index * 7 + i) % 256 for i in range(nbytes))
        smp.name = b"s%d" % index
        smp.panning = (index % 200) - 100
        smp.finetune = (index % 255) - 128
        smp.relative_note = (index % 100) - 50
        smp.volume = index % 65
        smp.rate = 8000 + index
        smp.loop_start = index
        smp.loop_len = index * 2
        smp.start_pos = index * 3
        smp.reserved2 = index % 3
        s.samples[index] = smp
    return s


def check_sample_units():
    S = Sampler
    combos = {}
    index = 0
    for fmt in S.Format:
        for ch in S.Channels:
            for loop in S.LoopType:
                for sustain in (False, True):
                    combos[index] = (fmt, ch, loop, sustain, 24 + index)
                    index += 3
    s = build_sampler({"samples": combos, "instrument_name": b"combo-instrument"})
    for i, smp in enumerate(s.samples):
        if smp is None:
            continue
        out = list(s.sample_chunks(i, smp))
        check(
            [n for n, _ in out] == [b"CHNM", b"CHDT", b"CHNM", b"CHDT", b"CHFF", b"CHFR"],
            "sample chunk names %d" % i,
        )
        check(out[0][1] == pack("<I", i * 2 + 1), "sample meta chnm %d" % i)
        check(out[2][1] == pack("<I", i * 2 + 2), "sample data chnm %d" % i)
        check(len(out[1][1]) == 44, "sample meta size %d" % i)
        digest("sample.chunks.%d" % i, stream(iter(out)))
    digest("sample_data_chunks.combos", stream(s.sample_data_chunks()))
    digest("global_config.combos", stream(s.global_config_chunks()))
    out = Synth(s).read()
    digest("synth.combos", out)
    s2 = load(out).module
    check(describe(s2) == dict(describe(s), is_legacy=False), "combo sampler reload")

    # sample counts with holes / trailing Nones / no samples / last slot
    layouts = {
        "empty": {},
        "first": {0: (S.Format.int8, S.Channels.mono, S.LoopType.off, False, 4)},
        "hole": {
            0: (S.Format.int8, S.Channels.mono, S.LoopType.off, False, 4),
            5: (S.Format.int16, S.Channels.stereo, S.LoopType.forward, True, 8),
        },
        "only_last": {
            127: (S.Format.float32, S.Channels.mono, S.LoopType.off, False, 8)
        },
        "only_17": {17: (S.Format.int16, S.Channels.mono, S.LoopType.off, False, 6)},
    }
    expected_counts = {"empty": 0, "first": 1, "hole": 6, "only_last": 128, "only_17": 18}
    for lname, layout in layouts.items():
        s = build_sampler({"samples": layout})
        gc = list(s.global_config_chunks())
        check([n for n, _ in gc] == [b"CHNM", b"CHDT"], "global config names " + lname)
        check(gc[0][1] == pack("<I", 0), "global config chnm " + lname)
        check(len(gc[1][1]) == 0x190, "global config size " + lname)
        (count,) = struct.unpack("<H", gc[1][1][0x1C:0x1E])
        check(count == expected_counts[lname], "samples_num " + lname)
        check(len(s.samples) == 128, "samples list untouched " + lname)
        digest("global_config." + lname, gc[1][1])
        out = Synth(s).read()
        digest("synth." + lname, out)
        check(
            describe(load(out).module) == dict(describe(s), is_legacy=False),
            "layout reload " + lname,
        )

    # a sampler inside a project inside a metamodule
    p = Project()
    inner = build_sampler({"samples": layouts["hole"], "instrument_name": b"inner"})
    p.attach_module(inner)
    inner >> p.output
    inner.volume_envelope.points = [(0, 100), (10, 0x8000)]
    mm = MetaModule(project=p)
    outer = Project()
    outer.attach_module(mm)
    mm >> outer.output
    raw = outer.read()
    digest("project.metamodule.sampler", raw)
    got = load(raw).modules[1].project.modules[1]
    check(describe(got) == dict(describe(inner), is_legacy=False), "nested sampler")
    got.samples[5].volume = 1
    got.pitch_envelope.points = [(0, 1), (2, 3), (4, 5)]
    nested = load(raw)
    target = nested.modules[1].project.modules[1]
    target.samples[5].volume = 1
    target.pitch_envelope.points = [(0, 1), (2, 3), (4, 5)]
    raw2 = nested.read()
    digest("project.metamodule.sampler.edited", raw2)
    check(
        describe(load(raw2).modules[1].project.modules[1]) == describe(got),
        "nested sampler edit is saved",
    )


def check_eager_errors():
    S = Sampler
    s = build_sampler({})
    s.effect_control_envelopes = s.effect_control_envelopes[:2]
    gen = s.specialized_iff_chunks()
    try:
        first = next(gen)
    except IndexError:
        pass
    else:
        check(False, "short effect_control_envelopes -> IndexError first, got %r" % (first,))
    s = build_sampler({})
    s.pitch_envelope = None
    gen = s.specialized_iff_chunks()
    try:
        first = next(gen)
    except AttributeError:
        pass
    else:
        check(False, "missing envelope -> AttributeError first, got %r" % (first,))
    # chunk order of a plain sampler
    s = build_sampler({"samples": {1: (S.Format.int8, S.Channels.mono, S.LoopType.off, False, 3)}})
    names = [
        struct.unpack("<I", d)[0] for n, d in s.specialized_iff_chunks() if n == b"CHNM"
    ]
    check(
        names == [0, 3, 4, 0x101, 0x102, 0x103, 0x104, 0x105, 0x106, 0x107, 0x108],
        "chunk order %r" % names,
    )
    s.effect = Synth(build_sampler({}))
    names = [
        struct.unpack("<I", d)[0] for n, d in s.specialized_iff_chunks() if n == b"CHNM"
    ]
    check(names[-1] == 0x10A and len(names) == 12, "effect chunk last")
    # out of range sample field
    s.samples[1].volume = 256
    try:
        stream(s.specialized_iff_chunks())
    except struct.error:
        pass
    else:
        check(False, "sample volume 256 raises struct.error")
    s.samples[1].volume = 3
    s.samples[1].format = None
    try:
        stream(s.specialized_iff_chunks())
    except KeyError:
        pass
    else:
        check(False, "unknown sample format raises KeyError")




def main():
    vs = variants()
    check_roundtrips(vs)
    check_edits(vs)
    check_envelope_units()
    check_sample_units()
    check_eager_errors()
    if os.environ.get("CHECK_DUMP"):
        blob = "\n".join("%s %s" % kv for kv in sorted(DIGESTS.items()))
        print(hashlib.sha256(blob.encode()).hexdigest(), len(DIGESTS))
        return 0
    blob = "\n".join("%s %s" % kv for kv in sorted(DIGESTS.items()))
    total = hashlib.sha256(blob.encode()).hexdigest()
    check(len(DIGESTS) == EXPECTED_COUNT, "digest count %d" % len(DIGESTS))
    check(total == EXPECTED_TOTAL, "combined digest of all produced bytes %s" % total)
    if FAILURES:
        print("FAILED (%d)" % len(FAILURES))
        return 1
    print("PASS (%d digests, %s)" % (len(DIGESTS), total[:12]))
    return 0


EXPECTED_COUNT = 684
EXPECTED_TOTAL = "89522376ef2147ef31c699fb5fc9f9d5e69e6e690d51bb40652c2e0b5e5c97e5"

if __name__ == "__main__":
    sys.exit(main())
