"""Behaviour check for the Sampler sample-slot codec and chunk dispatch.

Exercises Sampler.sample_chunks / sample_data_chunks / load_sample_meta /
load_sample_data / load_chunk and Sample.frame_size / frames:

* every format x channels x loop type x sustain combination is written,
  inspected at byte level and decoded again, with slots keeping their indices,
* all 256 values of the sample ``type`` byte and a range of CHFF values are
  decoded directly, including the ones that must be rejected,
* chunk numbers 0..0x110 (and a few odd ones) are dispatched through
  load_chunk in several legacy states,
* truncated records, missing CHFF/CHFR, data-before-description and
  out-of-range values must keep raising the same error types at the same
  point of the chunk stream.

Run as:  cd <root> && PYTHONPATH=<root>/src/python python check.py
"""

import hashlib
import logging
import os
import random
import struct
import sys
from io import BytesIO

from rv.api import NOTE, Synth, m, read_sunvox_file
from rv.chunks.chunk import Chunk
from rv.modules import sampler as sampler_mod

logging.disable(logging.CRITICAL)

Sampler = m.Sampler
FAILURES = []


def expect(cond, label):
    if not cond:
        FAILURES.append(label)
        print("FAIL:", label)


def outcome(fn, *args, **kw):
    try:
        return ("ok", fn(*args, **kw))
    except Exception as e:  # noqa
        return ("err", type(e).__name__, str(e))


# --------------------------------------------------------------------------
# building / dumping samplers
# --------------------------------------------------------------------------

FORMATS = [Sampler.Format.int8, Sampler.Format.int16, Sampler.Format.float32]
CHANNELS = [Sampler.Channels.mono, Sampler.Channels.stereo]


def random_points(rnd, env, max_points):
    lo = env.range[0]
    n = rnd.choice([0, 1, 2, 4, 11, 12, 13, max_points])
    xs = sorted(rnd.randrange(0, 0x10000) for _ in range(n))
    return [(x, lo + rnd.randrange(0, 0x8001)) for x in xs]


def fill_envelope(rnd, env, small):
    env.points = random_points(rnd, env, 40)
    top = 255 if small else 0xFFFF
    env.sustain_point = rnd.randrange(0, top + 1)
    env.loop_start_point = rnd.randrange(0, top + 1)
    env.loop_end_point = rnd.randrange(0, top + 1)
    env.enable = rnd.random() < 0.5
    env.sustain = rnd.random() < 0.5
    env.loop = rnd.random() < 0.5
    env.ctl_index = rnd.randrange(256)
    env.gain_pct = rnd.randrange(256)
    env.velocity = rnd.randrange(256)


def build_sampler(seed):
    rnd = random.Random(seed)
    s = Sampler()
    slots = {
        0: [],
        1: [0],
        2: [127],
        3: [0, 127],
        4: [5, 6, 90],
        5: list(range(128)),
    }.get(seed % 8)
    if slots is None:
        slots = sorted(rnd.sample(range(128), rnd.randrange(1, 9)))
    for i in slots:
        smp = s.Sample()
        smp.format = rnd.choice(FORMATS)
        smp.channels = rnd.choice(CHANNELS)
        frames = rnd.choice([0, 1, 3, 17])
        smp.data = bytes(rnd.randrange(256) for _ in range(frames * smp.frame_size))
        smp.rate = rnd.choice([8000, 44100, 48000, 0xFFFFFFFF, 0])
        smp.loop_start = rnd.randrange(0, 2**32)
        smp.loop_len = rnd.randrange(0, 2**32)
        smp.loop_type = rnd.choice(list(Sampler.LoopType))
        smp.loop_sustain = rnd.random() < 0.5
        smp.volume = rnd.randrange(256)
        smp.finetune = rnd.randrange(-128, 128)
        smp.panning = rnd.randrange(-128, 128)
        smp.relative_note = rnd.randrange(-128, 128)
        smp.reserved2 = rnd.randrange(256)
        smp.name = bytes(rnd.randrange(1, 256) for _ in range(rnd.choice([0, 5, 22])))
        smp.start_pos = rnd.randrange(0, 2**32)
        s.samples[i] = smp
    fill_envelope(rnd, s.volume_envelope, True)
    fill_envelope(rnd, s.panning_envelope, True)
    fill_envelope(rnd, s.pitch_envelope, False)
    for env in s.effect_control_envelopes:
        fill_envelope(rnd, env, False)
    s.note_samples.bytes = bytes(rnd.randrange(256) for _ in range(119))
    s.vibrato_type = rnd.choice(list(Sampler.VibratoType))
    s.vibrato_attack = rnd.randrange(256)
    s.vibrato_depth = rnd.randrange(256)
    s.vibrato_rate = rnd.randrange(64)
    s.volume_fadeout = rnd.randrange(8193)
    s.instrument_name = bytes(
        rnd.randrange(1, 256) for _ in range(rnd.choice([0, 3, 22]))
    )
    s.unused1 = rnd.randrange(2**32)
    s.unused2 = rnd.randrange(2**16)
    s.unused3 = rnd.randrange(2**16)
    s.unused4 = rnd.randrange(2**32)
    s.unused5 = rnd.randrange(256)
    s.unused6 = rnd.randrange(2**32)
    s.volume_old = rnd.randrange(256)
    s.ins_finetune = rnd.randrange(-128, 128)
    s.ins_relative_note = rnd.randrange(-128, 128)
    s.editor_cursor = rnd.randrange(-(2**31), 2**31)
    s.editor_selected_size = rnd.randrange(-(2**31), 2**31)
    if seed % 3 == 0:
        s.effect = Synth(m.Reverb())
    return s


def dump_env(env):
    return dict(
        points=list(env.points),
        sustain_point=env.sustain_point,
        loop_start_point=env.loop_start_point,
        loop_end_point=env.loop_end_point,
        enable=env.enable,
        sustain=env.sustain,
        loop=env.loop,
        ctl_index=env.ctl_index,
        gain_pct=env.gain_pct,
        velocity=env.velocity,
        legacy=(
            env._legacy_point_bytes,
            env._legacy_active_points,
            env._legacy_sustain_point,
            env._legacy_loop_start_point,
            env._legacy_loop_end_point,
            env._legacy_bitmask,
        ),
    )


def dump_sample(smp):
    if smp is None:
        return None
    return dict(
        data=smp.data,
        format=smp.format,
        channels=smp.channels,
        rate=smp.rate,
        loop_start=smp.loop_start,
        loop_len=smp.loop_len,
        loop_type=smp.loop_type,
        loop_sustain=smp.loop_sustain,
        volume=smp.volume,
        finetune=smp.finetune,
        panning=smp.panning,
        relative_note=smp.relative_note,
        reserved2=smp.reserved2,
        name=smp.name,
        start_pos=smp.start_pos,
    )


def dump(s, with_legacy_fields=False):
    envs = [s.volume_envelope, s.panning_envelope, s.pitch_envelope]
    envs += s.effect_control_envelopes
    d = dict(
        samples=[dump_sample(x) for x in s.samples],
        envelopes=[dump_env(e) for e in envs],
        note_samples=dict(s.note_samples),
        vibrato=(
            s.vibrato_type,
            s.vibrato_attack,
            s.vibrato_depth,
            s.vibrato_rate,
            s.volume_fadeout,
        ),
        instrument_name=s.instrument_name,
        unused=(s.unused1, s.unused2, s.unused3, s.unused4, s.unused5, s.unused6),
        volume_old=s.volume_old,
        ins_finetune=s.ins_finetune,
        ins_relative_note=s.ins_relative_note,
        editor=(s.editor_cursor, s.editor_selected_size),
        version=(s.version, s.max_version),
        effect=None if s.effect is None else type(s.effect.module).__name__,
    )
    if not with_legacy_fields:
        for e in d["envelopes"]:
            del e["legacy"]
    return d


def write(s):
    f = BytesIO()
    Synth(s).write_to(f)
    return f.getvalue()


def read(data):
    return read_sunvox_file(BytesIO(data)).module


def make_chunk(chnm, chdt):
    c = Chunk()
    c.chnm = chnm
    c.chdt = chdt
    return c


def instrument_record(s):
    chunks = list(s.global_config_chunks())
    expect([k for k, _ in chunks] == [b"CHNM", b"CHDT"], "record chunk types")
    expect(chunks[0][1] == b"\0\0\0\0", "record chnm is 0")
    return chunks[1][1]


# --------------------------------------------------------------------------
# helpers specific to this check
# --------------------------------------------------------------------------

LOOPS = list(Sampler.LoopType)
TYPE_FORMAT = {
    Sampler.Format.int8: 0x00,
    Sampler.Format.int16: 0x10,
    Sampler.Format.float32: 0x20,
}
WIDTH = {Sampler.Format.int8: 1, Sampler.Format.int16: 2, Sampler.Format.float32: 4}


def to_chunks(pairs):
    """Group (key, value) pairs as produced by the writer into Chunk objects."""
    out = []
    for key, value in pairs:
        if key == b"CHNM":
            c = Chunk()
            (c.chnm,) = struct.unpack("<I", value)
            out.append(c)
        elif key == b"CHDT":
            out[-1].chdt = value
        elif key == b"CHFF":
            (out[-1].chff,) = struct.unpack("<I", value)
        elif key == b"CHFR":
            (out[-1].chfr,) = struct.unpack("<I", value)
        else:
            raise AssertionError(key)
    return out


def full_state(s):
    d = dump(s, with_legacy_fields=True)
    d["is_legacy"] = s.is_legacy
    d["legacy_chunks"] = None if s.legacy_chunks is None else len(s.legacy_chunks)
    d["unknown_0x101"] = getattr(s, "_unknown_0x101", "<unset>")
    d["options"] = sorted(s.option_values.items())
    d["lengths"] = [None if x is None else x._length for x in s.samples]
    return d


def drain(gen):
    """Collect items until exhaustion or error; report both."""
    items = []
    try:
        for item in gen:
            items.append(item)
    except Exception as e:  # noqa
        return items, type(e).__name__
    return items, None


def combo_sample(s, fmt, ch, loop, sustain, k):
    smp = s.Sample()
    smp.format, smp.channels, smp.loop_type, smp.loop_sustain = fmt, ch, loop, sustain
    smp.data = bytes((k * 7 + j) % 256 for j in range((k % 5) * smp.frame_size))
    smp.loop_start = k
    smp.loop_len = 1000 + k
    smp.volume = (k * 9) % 256
    smp.finetune = k - 20
    smp.panning = 3 * k - 50
    smp.relative_note = 40 - 2 * k
    smp.reserved2 = k
    smp.name = b"smp%d" % k
    smp.start_pos = k * 1000003
    smp.rate = 8000 + k
    return smp


def all_combos():
    return [
        (fmt, ch, loop, sustain)
        for fmt in FORMATS
        for ch in CHANNELS
        for loop in LOOPS
        for sustain in (False, True)
    ]


# --------------------------------------------------------------------------
# 1. every combination: bytes written, chunk stream, decode
# --------------------------------------------------------------------------


def check_combinations():
    h = hashlib.sha256()
    s = Sampler()
    combos = all_combos()
    slots = [(k * 7) % 128 for k in range(len(combos))]
    expect(len(set(slots)) == len(combos), "distinct slots")
    for k, (slot, combo) in enumerate(zip(slots, combos)):
        s.samples[slot] = combo_sample(s, *combo, k)
    for k, (slot, (fmt, ch, loop, sustain)) in enumerate(zip(slots, combos)):
        smp = s.samples[slot]
        expect(smp.frame_size == WIDTH[fmt] * (2 if ch else 1), f"frame_size {k}")
        expect(smp.frames == k % 5, f"frames {k}")
        pairs = list(s.sample_chunks(slot, smp))
        expect(
            [key for key, _ in pairs]
            == [b"CHNM", b"CHDT", b"CHNM", b"CHDT", b"CHFF", b"CHFR"],
            f"chunk kinds {k}",
        )
        rec = pairs[1][1]
        h.update(b"".join(v for _, v in pairs))
        expect(pairs[0][1] == struct.pack("<I", 2 * slot + 1), f"meta chnm {k}")
        expect(pairs[2][1] == struct.pack("<I", 2 * slot + 2), f"data chnm {k}")
        expect(pairs[3][1] is smp.data, f"data passed through {k}")
        expect(pairs[4][1] == struct.pack("<I", int(fmt) | int(ch)), f"chff {k}")
        expect(pairs[5][1] == struct.pack("<I", 8000 + k), f"chfr {k}")
        expect(len(rec) == 44, f"record size {k}")
        want_type = (
            int(loop) | TYPE_FORMAT[fmt] | (0x40 if ch else 0) | (4 if sustain else 0)
        )
        expect(rec[14] == want_type, f"type byte {k}: {rec[14]:#x} != {want_type:#x}")
        expect(
            struct.unpack_from("<IIIBb", rec, 0)
            == (k % 5, k, 1000 + k, (k * 9) % 256, k - 20),
            f"record head {k}",
        )
        expect(
            struct.unpack_from("<BbB", rec, 15) == (3 * k - 50 + 0x80, 40 - 2 * k, k),
            f"record mid {k}",
        )
        expect(rec[18:40] == (b"smp%d" % k).ljust(22, b"\0"), f"record name {k}")
        expect(struct.unpack_from("<I", rec, 40) == (k * 1000003,), f"start_pos {k}")

    # the whole stream: ascending slots, empty slots skipped
    g = s.sample_data_chunks()
    expect(iter(g) is g and hasattr(g, "send"), "sample_data_chunks is a generator")
    stream = list(g)
    numbers = [struct.unpack("<I", v)[0] for key, v in stream if key == b"CHNM"]
    want = [n for slot in sorted(slots) for n in (2 * slot + 1, 2 * slot + 2)]
    expect(numbers == want, "chunk numbers in slot order")
    expect(len(stream) == 6 * len(combos), "six chunks per sample")
    expect(list(Sampler().sample_data_chunks()) == [], "no samples, no chunks")

    # feeding the chunks back through load_chunk
    t = Sampler()
    t.is_legacy = False
    for c in to_chunks(stream):
        t.load_chunk(c)
    expect(
        [dump_sample(x) for x in t.samples] == [dump_sample(x) for x in s.samples],
        "decode of all combinations, slots kept",
    )
    expect(
        [x._length for x in t.samples if x] == [x.frames for x in s.samples if x],
        "stored length is the frame count",
    )

    # and through a real file
    data = write(s)
    h.update(data)
    back = read(data)
    expect(dump(back) == dump(s), "file round trip of all combinations")
    expect(write(back) == data, "second write identical")
    return h.hexdigest()


# --------------------------------------------------------------------------
# 2. seeded random samplers: digest + round trip
# --------------------------------------------------------------------------


def check_random():
    h = hashlib.sha256()
    for seed in range(30):
        s = build_sampler(seed)
        before = dump(s)
        data = write(s)
        h.update(data)
        t = read(data)
        expect(dump(t) == before, f"seed {seed}: round trip exact")
        expect(
            [i for i, x in enumerate(t.samples) if x is not None]
            == [i for i, x in enumerate(s.samples) if x is not None],
            f"seed {seed}: slots keep their indices",
        )
        expect(write(t) == data, f"seed {seed}: second write identical")
        expect(dump(s.clone()) == before, f"seed {seed}: clone")
    return h.hexdigest()


# --------------------------------------------------------------------------
# 3. decoding all type bytes / CHFF values directly
# --------------------------------------------------------------------------


def meta_record(type_byte, extra=b""):
    rec = struct.pack("<IIIBbBBbB", 5, 6, 7, 8, -9, type_byte, 0x80 + 10, -11, 12)
    return rec + b"name".ljust(22, b"\0") + struct.pack("<I", 13) + extra


def check_type_bytes():
    h = hashlib.sha256()
    for b in range(256):
        s = Sampler()
        r = outcome(s.load_sample_meta, make_chunk(9, meta_record(b)))
        smp = s.samples[4]
        expect(smp is not None, f"type {b:#x}: slot filled even on error")
        h.update(repr((b, r[:2], dump_sample(smp), smp._length)).encode())
        if b & 3 == 3:
            expect(r[:2] == ("err", "ValueError"), f"type {b:#x}: {r[:2]}")
            expect(
                smp.loop_type == Sampler.LoopType.off, f"type {b:#x}: loop untouched"
            )
            expect(smp.panning == 0, f"type {b:#x}: later fields untouched")
        elif b & 0x30 == 0x30:
            expect(r[:2] == ("err", "KeyError"), f"type {b:#x}: {r[:2]}")
            expect(r[2] == "48", f"type {b:#x}: key error names {r[2]}")
            expect(smp.loop_type == b & 3, f"type {b:#x}: loop already set")
            expect(smp.format == Sampler.Format.float32, f"type {b:#x}: format default")
        else:
            expect(r == ("ok", None), f"type {b:#x}: {r[:2]}")
            expect(smp.loop_type is Sampler.LoopType(b & 3), f"type {b:#x}: loop")
            fmt = {0: 1, 0x10: 2, 0x20: 4}[b & 0x30]
            expect(smp.format is Sampler.Format(fmt), f"type {b:#x}: format")
            ch = Sampler.Channels.stereo if b & 0x40 else Sampler.Channels.mono
            expect(smp.channels is ch, f"type {b:#x}: channels")
            expect(smp.loop_sustain is bool(b & 4), f"type {b:#x}: sustain is a bool")
            expect(
                (smp._length, smp.loop_start, smp.loop_len, smp.volume, smp.finetune)
                == (5, 6, 7, 8, -9),
                f"type {b:#x}: head",
            )
            expect(
                (smp.panning, smp.relative_note, smp.reserved2, smp.name, smp.start_pos)
                == (10, -11, 12, b"name", 13),
                f"type {b:#x}: tail",
            )
    # chunk number -> slot, also for numbers load_chunk would not send here
    for chnm, slot in (
        (1, 0),
        (2, 0),
        (3, 1),
        (255, 127),
        (256, 127),
        (-1, -1),
        (0, -1),
    ):
        s = Sampler()
        r = outcome(s.load_sample_meta, make_chunk(chnm, meta_record(0)))
        filled = [i for i, x in enumerate(s.samples) if x is not None]
        expect(
            r == ("ok", None) and filled == [slot % 128], f"meta chnm {chnm}: {filled}"
        )
    for chnm in (257, 300, -257):
        s = Sampler()
        r = outcome(s.load_sample_meta, make_chunk(chnm, meta_record(0)))
        expect(r[:2] == ("err", "IndexError"), f"meta chnm {chnm}: {r[:2]}")

    # truncated records
    full = meta_record(0x52, b"trailing junk")
    for n in range(len(full) + 1):
        s = Sampler()
        r = outcome(s.load_sample_meta, make_chunk(1, full[:n]))
        smp = s.samples[0]
        h.update(repr((n, r[:2], dump_sample(smp), smp._length)).encode())
        if n < 18:
            expect(r[:2] == ("err", "RuntimeError"), f"meta cut {n}: {r[:2]}")
        else:
            expect(r == ("ok", None), f"meta cut {n}: {r[:2]}")
            expect(smp.start_pos == (13 if n >= 44 else 0), f"meta cut {n}: start_pos")
            expect(
                smp.name == full[18 : min(n, 40)].rstrip(b"\0"), f"meta cut {n}: name"
            )
    return h.hexdigest()


def data_chunk(chnm, data, chff=None, chfr=None):
    c = make_chunk(chnm, data)
    if chff is not None:
        c.chff = chff
    if chfr is not None:
        c.chfr = chfr
    return c


def check_chff():
    h = hashlib.sha256()
    values = list(range(32)) + [0xF0, 0xF1, 0xFA, 0xFFFFFFF8, 0xFFFFFFFC, 0xFFFFFFFF]
    for chff in values:
        s = Sampler()
        s.load_sample_meta(make_chunk(5, meta_record(0x21)))
        r = outcome(s.load_sample_data, data_chunk(6, b"pcm!", chff, 22050))
        smp = s.samples[2]
        h.update(repr((chff, r[:2], dump_sample(smp))).encode())
        low = chff & 7
        expect(smp.data == b"pcm!", f"chff {chff:#x}: data stored first")
        if low in (3, 5, 6, 7):
            expect(r[:2] == ("err", "ValueError"), f"chff {chff:#x}: {r[:2]}")
            expect(smp.format is Sampler.Format.float32, f"chff {chff:#x}: format kept")
            expect(smp.rate == 44100, f"chff {chff:#x}: rate untouched")
        else:
            expect(r == ("ok", None), f"chff {chff:#x}: {r[:2]}")
            expect(smp.format is Sampler.Format(low or 1), f"chff {chff:#x}: format")
            ch = Sampler.Channels.stereo if chff & 8 else Sampler.Channels.mono
            expect(smp.channels is ch, f"chff {chff:#x}: channels")
            expect(smp.rate == 22050, f"chff {chff:#x}: rate")
            expect(smp.loop_type == 1, f"chff {chff:#x}: other fields kept")
    # no CHFF / CHFR in the file: the Chunk defaults are bound methods
    s = Sampler()
    s.load_sample_meta(make_chunk(1, meta_record(0)))
    r = outcome(s.load_sample_data, data_chunk(2, b"abcd"))
    expect(r[:2] == ("err", "TypeError"), f"missing chff: {r[:2]}")
    expect(s.samples[0].data == b"abcd", "missing chff: data stored before failing")
    s = Sampler()
    s.load_sample_meta(make_chunk(1, meta_record(0)))
    r = outcome(s.load_sample_data, data_chunk(2, b"abcd", chff=2))
    expect(r == ("ok", None), f"missing chfr: {r[:2]}")
    expect(callable(s.samples[0].rate), "missing chfr: whatever the chunk had")
    # data chunk without a description before it
    s = Sampler()
    r = outcome(s.load_sample_data, data_chunk(2, b"abcd", 1, 2))
    expect(r[:2] == ("err", "AttributeError"), f"data before meta: {r[:2]}")
    # chunk number -> slot
    for chnm, slot in (
        (2, 0),
        (3, 0),
        (4, 1),
        (256, 127),
        (257, 127),
        (0, -1),
        (1, -1),
        (-2, -2),
    ):
        s = Sampler()
        s.samples = [s.Sample() for _ in range(128)]
        r = outcome(s.load_sample_data, data_chunk(chnm, b"zz", 1, 2))
        hit = [i for i, x in enumerate(s.samples) if x.data == b"zz"]
        expect(r == ("ok", None) and hit == [slot % 128], f"data chnm {chnm}: {hit}")
    for chnm in (258, 259, -258):
        s = Sampler()
        r = outcome(s.load_sample_data, data_chunk(chnm, b"zz", 1, 2))
        expect(r[:2] == ("err", "IndexError"), f"data chnm {chnm}: {r[:2]}")
    return h.hexdigest()


# --------------------------------------------------------------------------
# 4. load_chunk dispatch over the chunk number space
# --------------------------------------------------------------------------


def check_dispatch():
    h = hashlib.sha256()
    src = build_sampler(9)
    src.start_recording_on_project_play = True
    src.record_in_16_bit = True
    src.fit_to_pattern = 5
    by_number = {c.chnm: c for c in to_chunks(p for p in src.specialized_iff_chunks())}
    env_chdt = by_number[0x103].chdt
    effect_chdt = by_number[0x10A].chdt
    options_chdt = by_number[0x101].chdt
    record_chdt = by_number[0].chdt
    numbers = list(range(0, 0x112)) + [0x200, 0xFFFFFFFF, -1, -2, -300]
    for legacy_state in (None, False, True):
        for chnm in numbers:
            s = Sampler()
            s.is_legacy = legacy_state
            if legacy_state is False:
                s.legacy_chunks = None
            if chnm < 0x101 and chnm % 2 == 0 and chnm != 0 and -257 < chnm:
                s.samples[chnm // 2 - 1] = s.Sample()
            if chnm == 0:
                chdt = record_chdt
            elif chnm < 0x101:
                chdt = meta_record(0x11) if chnm % 2 else b"\1\2\3\4"
            elif chnm == 0x101:
                chdt = options_chdt
            elif chnm == 0x10A:
                chdt = effect_chdt
            else:
                chdt = env_chdt
            c = data_chunk(chnm, chdt, 0x0A, 11025)
            r = outcome(s.load_chunk, c)
            state = full_state(s)
            h.update(repr((legacy_state, chnm, r[:2], sorted(state.items()))).encode())
            label = f"dispatch {chnm:#x} legacy={legacy_state}"
            if chnm in (-300,):
                expect(r[:2] == ("err", "IndexError"), f"{label}: {r[:2]}")
                continue
            expect(r == ("ok", None), f"{label}: {r[:2]}")
            if legacy_state is not False and chnm != 0:
                expect(s.legacy_chunks == [c], f"{label}: raw chunk kept")
            touched_samples = [i for i, x in enumerate(s.samples) if x is not None]
            loaded = [
                e.loaded
                for e in [s.volume_envelope, s.panning_envelope, s.pitch_envelope]
                + s.effect_control_envelopes
            ]
            if chnm == 0:
                expect(s.instrument_name == src.instrument_name, f"{label}: record")
                expect(s.is_legacy is (legacy_state or False), f"{label}: flag")
            elif chnm < 0x101:
                slot = ((chnm - 1) // 2) % 128
                expect(touched_samples == [slot], f"{label}: slot {touched_samples}")
                smp = s.samples[slot]
                if chnm % 2:
                    expect(smp.volume == 8 and smp.data == b"", f"{label}: meta")
                else:
                    expect(
                        smp.data == b"\1\2\3\4" and smp.rate == 11025, f"{label}: data"
                    )
                    expect(smp.format == 2 and smp.channels == 8, f"{label}: chff")
            if chnm == 0x101:
                expect(s.start_recording_on_project_play is True, f"{label}: options")
                expect(s.record_in_16_bit is True, f"{label}: options 2")
                expect(s.fit_to_pattern == 5, f"{label}: options 3")
                expect(state["unknown_0x101"] == "<unset>", f"{label}: options win")
            if 0x102 <= chnm <= 0x108:
                expect(
                    loaded == [i == chnm - 0x102 for i in range(7)],
                    f"{label}: envelope",
                )
            else:
                expect(not any(loaded), f"{label}: no envelope touched")
            if chnm == 0x10A:
                expect(type(s.effect.module).__name__ == "Reverb", f"{label}: effect")
            else:
                expect(s.effect is None, f"{label}: no effect")
            if chnm >= 0x101 or chnm == 0:
                expect(touched_samples == [], f"{label}: no sample touched")
            if chnm in (0x109, 0x10B, 0x110, 0x200, 0xFFFFFFFF):
                fresh = Sampler()
                fresh.is_legacy = legacy_state
                if legacy_state is False:
                    fresh.legacy_chunks = None
                want = full_state(fresh)
                if legacy_state is not False:
                    want["legacy_chunks"] = 1
                expect(state == want, f"{label}: ignored")

    # a subclass with other option chunk number: 0x101 then lands in the spare slot
    class Odd(Sampler):
        options_chnm = 0x10B

    s = Odd()
    s.load_chunk(make_chunk(0x101, b"spare!"))
    expect(s._unknown_0x101 == b"spare!", "0x101 kept raw when it is not the options")
    s.load_chunk(make_chunk(0x10B, options_chdt))
    expect(s.fit_to_pattern == 5, "options under another number")
    s.options_chnm = 4  # options take precedence over sample chunks
    s.load_chunk(make_chunk(4, bytes(64)))
    expect(s.fit_to_pattern == 0 and s.samples[1] is None, "options take precedence")
    s.options_chnm = 0
    s.load_chunk(make_chunk(0, options_chdt))
    expect(s.fit_to_pattern == 5 and s.is_legacy is None, "options before record")

    # whole stream replayed through load_chunk, in a shuffled order too
    chunks = to_chunks(src.specialized_iff_chunks())
    for order_seed in (None, 1, 2, 3):
        seq = list(chunks)
        if order_seed is not None:
            # keep each sample's description before its data
            rnd = random.Random(order_seed)
            metas = [c for c in seq if 0 < c.chnm < 0x101 and c.chnm % 2]
            rest = [c for c in seq if c not in metas]
            rnd.shuffle(rest)
            seq = metas + rest
        t = Sampler()
        for c in seq:
            t.load_chunk(c)
        t.finalize_load()
        mine = dump(t)
        theirs = dump(src)
        mine.pop("effect"), theirs.pop("effect")
        expect(mine == theirs, f"replayed stream (order {order_seed})")
        expect(type(t.effect.module).__name__ == "Reverb", "replayed effect")
    return h.hexdigest()


# --------------------------------------------------------------------------
# 5. error types and where in the stream they surface
# --------------------------------------------------------------------------


def check_write_errors():
    h = hashlib.sha256()
    cases = [
        ("loop_start", 2**32),
        ("loop_start", -1),
        ("loop_len", 2**32),
        ("volume", 256),
        ("volume", -1),
        ("finetune", 128),
        ("finetune", -129),
        ("panning", 128),
        ("panning", -129),
        ("relative_note", 128),
        ("reserved2", 256),
        ("start_pos", 2**32),
        ("name", "text"),
        ("name", None),
        ("format", 3),
        ("format", None),
        ("format", 2),
        ("format", True),
        ("channels", 1),
        ("channels", 8),
        ("channels", 0),
        ("channels", None),
        ("loop_type", 1),
        ("loop_type", None),
        ("loop_sustain", 0),
        ("loop_sustain", 1),
        ("loop_sustain", "yes"),
        ("loop_sustain", None),
        ("rate", 2**32),
        ("rate", -1),
        ("rate", None),
        ("data", b"123"),
        ("data", bytearray(b"12345678")),
        ("data", None),
    ]
    for attr, value in cases:
        s = Sampler()
        smp = s.Sample()
        smp.data = bytes(16)
        smp.loop_type = Sampler.LoopType.ping_pong
        setattr(smp, attr, value)
        items, err = drain(s.sample_chunks(3, smp))
        h.update(repr((attr, repr(value), items, err)).encode())
        label = f"{attr}={value!r}"
        if attr in (
            "loop_start",
            "loop_len",
            "volume",
            "finetune",
            "panning",
            "relative_note",
            "reserved2",
            "start_pos",
        ):
            expect((len(items), err) == (0, "error"), f"{label}: {len(items)}, {err}")
        elif attr == "name":
            want = "TypeError" if value == "text" else "AttributeError"
            expect((len(items), err) == (0, want), f"{label}: {len(items)}, {err}")
        elif attr == "format":
            if value in (3, None):
                expect(
                    (len(items), err) == (0, "KeyError"),
                    f"{label}: {len(items)}, {err}",
                )
            else:
                # fine for the record, but CHFF wants an enum member
                expect(
                    (len(items), err) == (4, "AttributeError"),
                    f"{label}: {len(items)}, {err}",
                )
                expect(
                    items[1][1][14] == (0x10 if value == 2 else 0) | 0x42,
                    f"{label}: type",
                )
        elif attr == "channels":
            if value in (1, None):
                expect(
                    (len(items), err) == (0, "KeyError"),
                    f"{label}: {len(items)}, {err}",
                )
            else:
                expect(
                    (len(items), err) == (4, "AttributeError"),
                    f"{label}: {len(items)}, {err}",
                )
                expect(
                    items[1][1][14] == 0x22 | (0x40 if value else 0), f"{label}: type"
                )
        elif attr == "loop_type":
            expect(
                (len(items), err) == (0, "AttributeError"),
                f"{label}: {len(items)}, {err}",
            )
        elif attr == "loop_sustain":
            expect(err is None and len(items) == 6, f"{label}: {err}")
            expect(items[1][1][14] == 0x62 | (4 if value else 0), f"{label}: type")
        elif attr == "rate":
            want = "error"
            expect((len(items), err) == (5, want), f"{label}: {len(items)}, {err}")
        elif attr == "data":
            if value is None:
                expect(
                    (len(items), err) == (0, "TypeError"),
                    f"{label}: {len(items)}, {err}",
                )
            else:
                expect(err is None and items[3][1] is value, f"{label}: {err}")
                expect(
                    items[1][1][:4] == struct.pack("<I", len(value) // 8),
                    f"{label}: frames",
                )
    # a bad slot number only shows after the record was built
    s = Sampler()
    good = s.Sample()
    for i, want in (
        (-1, (0, "error")),
        (2**31, (0, "error")),
        (2**31 - 1, (2, "error")),
        (2**31 - 2, (6, None)),
    ):
        items, err = drain(s.sample_chunks(i, good))
        expect((len(items), err) == want, f"slot {i}: {len(items)}, {err}")
    bad = s.Sample()
    bad.volume = 999
    items, err = drain(s.sample_chunks(-1, bad))
    expect((len(items), err) == (0, "error"), "bad slot and bad record")
    # in the whole stream a broken sample stops it right there
    s = Sampler()
    s.samples[0] = s.Sample()
    s.samples[1] = bad
    s.samples[2] = s.Sample()
    items, err = drain(s.sample_data_chunks())
    expect(
        (len(items), err) == (6, "error"),
        f"stream stops at broken sample: {len(items)}",
    )
    # samples of an unusable kind are only noticed once iteration gets there
    s = Sampler()
    s.samples = None
    g = outcome(s.sample_data_chunks)
    expect(g[0] == "ok", "sample_data_chunks itself never fails")
    items, err = drain(g[1])
    expect((items, err) == ([], "TypeError"), f"samples=None: {err}")
    s.samples = [None, "junk"]
    items, err = drain(s.sample_data_chunks())
    expect((items, err) == ([], "AttributeError"), f"junk sample: {err}")

    # frame_size / frames
    for fmt in FORMATS:
        for ch in CHANNELS:
            smp = Sampler.Sample()
            smp.format, smp.channels = fmt, ch
            fs = WIDTH[fmt] * (2 if ch else 1)
            expect(smp.frame_size == fs, f"frame_size {fmt!r} {ch!r}")
            for n in (0, 1, fs - 1, fs, fs + 1, 10 * fs + fs - 1):
                smp.data = bytes(n)
                expect(smp.frames == n // fs, f"frames {n} / {fs}")
    smp = Sampler.Sample()
    smp.format, smp.channels = 4, 8  # plain ints are accepted by the lookups
    expect(smp.frame_size == 8, "frame_size with plain ints")
    for fmt, ch, want in (
        (3, 8, "KeyError"),
        (1, 4, "KeyError"),
        (None, None, "KeyError"),
        ([], 0, "TypeError"),
    ):
        smp.format, smp.channels = fmt, ch
        r = outcome(lambda: smp.frame_size)
        expect(r[:2] == ("err", want), f"frame_size {fmt!r},{ch!r}: {r[:2]}")
        r = outcome(lambda: smp.frames)
        expect(r[:2] == ("err", want), f"frames {fmt!r},{ch!r}: {r[:2]}")
    return h.hexdigest()


# --------------------------------------------------------------------------
# 6. the shipped fixture
# --------------------------------------------------------------------------


def check_fixture():
    path = os.path.join("tests", "files", "sampler.sunsynth")
    with open(path, "rb") as f:
        original = f.read()
    mod = read(original)
    expect(
        [i for i, x in enumerate(mod.samples) if x is not None] == [0, 1, 2],
        "fixture slots",
    )
    expect(
        [(x.format, x.channels, x.frames, x.loop_type) for x in mod.samples[:3]]
        == [(1, 0, 32, 1), (2, 0, 32, 0), (4, 8, 16, 2)],
        "fixture sample kinds",
    )
    stream = b"".join(k + v for k, v in mod.sample_data_chunks())
    data = write(mod)
    expect(dump(read(data)) == dump(mod), "fixture round trip")
    return hashlib.sha256(stream + data).hexdigest()


EXPECTED = {
    "combinations": "c37d8934cb227e034794c58b56bd17d621b1ba86eea03f619ed0802b0e48e197",
    "random": "4ad7bce1c15e965c0f86051e591997f549628ec8b2a56cd3011440f97166ec56",
    "type_bytes": "dae9d2787c11f3c04143a464c26c7c006c2e5e4710349ee8ebc9c72cd412d2c5",
    "chff": "8652e01350cc3bdd2714eeb83ad57b20114d9b52e953e6727f017dd40192764c",
    "dispatch": "6d7008e33d110224bd71d21e8fb398fc05d8c11a758f690b27c73ef8a59d6404",
    "write_errors": "5b6882994975c9f842ea7742b6b13aea8a73335720eadd5622da112230c68792",
    "fixture": "1a4d37f2472e1571b36648c058eb3c2e25865ea97d0cca7b7460c7a25209a1cb",
}


def main():
    got = {
        "combinations": check_combinations(),
        "random": check_random(),
        "type_bytes": check_type_bytes(),
        "chff": check_chff(),
        "dispatch": check_dispatch(),
        "write_errors": check_write_errors(),
        "fixture": check_fixture(),
    }
    for name, digest in got.items():
        if EXPECTED[name].startswith("@@"):
            print(f'    "{name}": "{digest}",')
        else:
            expect(digest == EXPECTED[name], f"digest {name}: {digest}")
    if FAILURES:
        print(f"{len(FAILURES)} check(s) failed")
        sys.exit(1)
    print("PASS")


if __name__ == "__main__":
    main()
