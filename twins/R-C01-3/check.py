"""Behaviour check for the loop rewrites in Pattern / Module / SunVoxReader (C01-3).

Covers
 - Pattern.raw_data getter and setter (cell order, offsets, short / mismatched
   input and which cells were already written when the error is raised),
   Pattern.clear(), set_via_fn(), set_via_gen() (ownership of notes, atomicity),
 - Module.__init__ controller initialisation order (independent controllers
   before range-dependent ones) for every module type, keyword overrides,
 - Module.options_chunks() / load_options() for every module type with options
   against an independent bit-packing model, short and over-long CHDT payloads,
 - Module.load_cmid() with complete, truncated and surplus records,
 - the legacy (< 1.9.5) note-module masking loop of SunVoxReader,
 - whole projects built through the public API: golden SHA-256 of the written
   bytes (recorded on the unchanged tree) and field-by-field round trip.
"""
import hashlib
import sys
from io import BytesIO
from struct import pack, unpack

from rv.api import NOTECMD, Pattern, PatternClone, Project, m, read_sunvox_file
from rv.cmidmap import MidiMessageType, Slope
from rv.lib.iff import chunks as iff_chunks
from rv.modules import MODULE_CLASSES

FAILURES = []


def expect(cond, msg):
    if not cond:
        FAILURES.append(msg)


def digest(data):
    return hashlib.sha256(data).hexdigest()


def write(project):
    f = BytesIO()
    project.write_to(f)
    return f.getvalue()


def load(data):
    return read_sunvox_file(BytesIO(data))


def chunk_names(data):
    return [name for name, _ in iff_chunks(BytesIO(data))]


PROJECT_FIELDS = [
    "flags",
    "initial_bpm",
    "initial_tpl",
    "global_volume",
    "name",
    "time_grid",
    "time_grid2",
    "modules_scale",
    "modules_zoom",
    "modules_x_offset",
    "modules_y_offset",
    "modules_layer_mask",
    "modules_current_layer",
    "timeline_position",
    "restart_position",
    "selected_module",
    "selected_generator",
    "current_pattern",
    "current_track",
    "current_line",
    "based_on_version",
]

MODULE_FIELDS = [
    "mtype",
    "name",
    "flags",
    "x",
    "y",
    "layer",
    "mod_scale",
    "mod_finetune",
    "mod_relative_note",
    "midi_in_always",
    "midi_in_channel",
    "midi_out_name",
    "midi_out_channel",
    "midi_out_bank",
    "midi_out_program",
    "in_links",
    "index",
]


def stored_name(name):
    return name.encode("utf-8")[:32].decode("utf-8", "ignore")


def trim(seq, filler):
    seq = list(seq)
    while seq and seq[-1] == filler:
        seq.pop()
    return seq


def compare_projects(tag, a, b):
    for field in PROJECT_FIELDS:
        expect(
            getattr(a, field) == getattr(b, field),
            f"{tag}: project.{field} {getattr(a, field)!r} != {getattr(b, field)!r}",
        )
    expect(int(a.receive_sync_midi) == int(b.receive_sync_midi), f"{tag}: sync midi")
    expect(int(a.receive_sync_other) == int(b.receive_sync_other), f"{tag}: sync other")
    # Documented normalisation on load: trailing empty module slots are dropped
    # and trailing -1 (disconnected) links are trimmed.
    a_modules, b_modules = trim(a.modules, None), trim(b.modules, None)
    expect(len(a_modules) == len(b_modules), f"{tag}: module count")
    for ma, mb in zip(a_modules, b_modules):
        if ma is None or mb is None:
            expect(ma is None and mb is None, f"{tag}: empty slot mismatch")
            continue
        expect(type(ma) is type(mb), f"{tag}: module type {ma!r} {mb!r}")
        for field in MODULE_FIELDS:
            va, vb = getattr(ma, field), getattr(mb, field)
            if field == "name":
                va = stored_name(va)
            if field == "in_links":
                va, vb = trim(va, -1), trim(vb, -1)
            expect(va == vb, f"{tag}: {ma!r}.{field} {va!r} != {vb!r}")
        expect(tuple(ma.color) == tuple(mb.color), f"{tag}: {ma!r}.color")
        expect(
            int(ma.visualization) == int(mb.visualization), f"{tag}: {ma!r}.visualization"
        )
        for cname, ctl in ma.controllers.items():
            if ctl.attached(ma):
                expect(
                    ma.get_raw(cname) == mb.get_raw(cname),
                    f"{tag}: {ma!r}.{cname} raw value",
                )
                expect(
                    ma.controller_midi_maps[cname].cmid_data
                    == mb.controller_midi_maps[cname].cmid_data,
                    f"{tag}: {ma!r}.{cname} midi map",
                )
        expect(ma.option_values == mb.option_values, f"{tag}: {ma!r}.option_values")
    expect(len(a.patterns) == len(b.patterns), f"{tag}: pattern count")
    for pa, pb in zip(a.patterns, b.patterns):
        if pa is None or pb is None:
            expect(pa is None and pb is None, f"{tag}: empty pattern slot mismatch")
            continue
        expect(type(pa) is type(pb), f"{tag}: pattern type")
        if isinstance(pa, Pattern):
            for field in (
                "name tracks lines y_size flags_PFLG icon flags_PFFF x y".split()
            ):
                expect(
                    getattr(pa, field) == getattr(pb, field), f"{tag}: pattern.{field}"
                )
            expect(tuple(pa.fg_color) == tuple(pb.fg_color), f"{tag}: pattern.fg_color")
            expect(tuple(pa.bg_color) == tuple(pb.bg_color), f"{tag}: pattern.bg_color")
            expect(pa.raw_data == pb.raw_data, f"{tag}: pattern note cells")
        else:
            for field in "source flags_PFFF x y".split():
                expect(
                    getattr(pa, field) == getattr(pb, field), f"{tag}: clone.{field}"
                )


# ---------------------------------------------------------------------------
# project builders


def build_default():
    return Project()


def build_settings():
    p = Project()
    p.name = "Projekt üñî ☃"
    p.flags = 0x1234
    p.initial_bpm = 777
    p.initial_tpl = 31
    p.global_volume = 256
    p.time_grid = 7
    p.time_grid2 = 3
    p.modules_scale = 300
    p.modules_zoom = 128
    p.modules_x_offset = -77
    p.modules_y_offset = 2**31 - 1
    p.modules_layer_mask = 0xFFFFFFFF
    p.modules_current_layer = 5
    p.timeline_position = -3
    p.restart_position = 16
    p.selected_module = 2
    p.selected_generator = 1
    p.current_pattern = 1
    p.current_track = 3
    p.current_line = 9
    p.receive_sync_midi = Project.SyncCommand.tempo | Project.SyncCommand.position
    p.receive_sync_other = 7
    p.sunvox_version = (2, 1, 2, 0)
    p.based_on_version = (1, 9, 6, 1)
    return p


def build_all_types():
    p = Project()
    for i, mtype in enumerate(sorted(MODULE_CLASSES)):
        if mtype == "Output":
            continue
        mod = p.new_module(MODULE_CLASSES[mtype], x=16 * i, y=-8 * i, layer=i % 8)
        mod.color = (i, 255 - i, (i * 7) % 256)
        mod.mod_finetune = i - 20
        mod.mod_relative_note = 20 - i
        if i % 3 == 0:
            mod.midi_out_name = f"midi-{i}"
            mod.midi_out_channel = i % 16
            mod.midi_out_bank = i
            mod.midi_out_program = i % 128
        if i % 4 == 0:
            mod.midi_in_always = True
            mod.midi_in_channel = i % 17
    return p


def build_links():
    p = Project()
    gen = p.new_module(m.Generator, name="gen")
    fm = p.new_module(m.Fm, name="fm")
    amp = p.new_module(m.Amplifier, name="amp", volume=300, balance=-5)
    rev = p.new_module(m.Reverb, name="rev")
    echo = p.new_module(m.Echo, name="echo")
    p.connect([gen, fm], amp)
    amp >> [rev, echo] >> p.output
    gen >> p.output
    amp >> ~rev  # rev.in_links becomes [-1]
    p.connect(~gen, amp)  # -1 in first position of amp.in_links
    fm >> echo
    echo >> gen  # feedback edge, produces non-trivial in_link_slots
    return p


def build_empty_slots_and_names():
    p = Project()
    names = [
        "",
        "a" * 31,
        "b" * 32,
        "c" * 40,
        "é" * 16,
        "x" + "é" * 16,  # 2-byte char straddles byte 32
        "☃" * 11,  # 33 bytes, 3-byte char straddles
        "\U0001f600" * 8 + "z",
        "xx" + "\U0001f600" * 8,  # 4-byte char straddles
    ]
    for i, name in enumerate(names):
        p.new_module(m.Amplifier, name=name, volume=i * 100)
    # punch holes: middle and last
    p.modules[3] = None
    p.modules[len(p.modules) - 1] = None
    p.new_module(m.Lfo, name="fills slot 3")
    p.attach_module(None)
    p.new_module(m.Filter, name="tail")
    return p


def build_patterns():
    p = Project()
    gen = p.new_module(m.Generator)
    gen >> p.output
    pat = Pattern(name="Intro ♫", tracks=3, lines=5, x=-32, y=64)
    pat.y_size = 48
    pat.flags_PFLG = 3
    pat.flags_PFFF = 0x18
    pat.icon = bytes(range(32))
    pat.fg_color = (1, 2, 3)
    pat.bg_color = (250, 251, 252)
    p.attach_pattern(pat)
    for line in range(5):
        for track in range(3):
            n = pat.data[line][track]
            n.note = (line * 3 + track) % 120 + 1
            n.vel = (line * 30 + track) % 130
            n.module = int(gen) if track else 0xFFFF
            n.ctl = (line << 8) | track
            n.val = 0xFFFF - line * 1000 - track
    pat.data[4][2].note = NOTECMD.NOTE_OFF
    p.attach_pattern(None)
    p.attach_pattern(PatternClone(source=0, x=100, y=-100))
    p.attach_pattern(Pattern(tracks=1, lines=1))
    p.attach_pattern(None)
    big = Pattern(tracks=32, lines=2)
    p.attach_pattern(big)
    big.data[1][31].val = 0xABCD
    clone2 = PatternClone(source=5, x=2**31 - 1, y=-(2**31))
    clone2.flags_PFFF = 0x1B
    p.attach_pattern(clone2)
    return p


def build_controllers_and_midi_maps():
    p = Project()
    gen = p.new_module(m.AnalogGenerator, volume=0, attack=256, polyphony=32)
    vol_map = gen.controller_midi_maps["volume"]
    vol_map.channel = 3
    vol_map.message_type = MidiMessageType.control_change
    vol_map.message_parameter = 0x1234
    vol_map.slope = Slope.s_curve
    rel_map = gen.controller_midi_maps["release"]
    rel_map.channel = 15
    rel_map.message_type = MidiMessageType.pitch_bend
    rel_map.slope = Slope.toggle
    dist = p.new_module(m.Distortion, volume=256, bit_depth=1)
    multi = p.new_module(m.MultiSynth)
    multi.static_note_c5 = True if "static_note_c5" in multi.options else None
    samp = p.new_module(m.Sampler)
    meta = p.new_module(m.MetaModule)
    ctl = p.new_module(m.MultiCtl, value=12345)
    gen >> dist >> p.output
    multi >> [gen, samp]
    samp >> p.output
    meta >> p.output
    ctl >> dist
    return p


BUILDERS = [
    build_default,
    build_settings,
    build_all_types,
    build_links,
    build_empty_slots_and_names,
    build_patterns,
    build_controllers_and_midi_maps,
]

GOLDEN = {
    "build_default": "406949941dae172bfd71f9013c6cb8c005715845af60d03e478800b54ccf4691",
    "build_settings": "5b405fc691eedddded12978ef04858650419550e4a4b02f75b3cf5e5174d3ddf",
    "build_all_types": "7751d44ba6cc6b3909fef5bf13aaa0170c99e147dd103234421dd23f8aba9f28",
    "build_links": "199b6b03b396fbec1148f0301bd60e8863e7f8883f34ae01df2bbc1a31f144fe",
    "build_empty_slots_and_names": "75132a1d8ab2dd0ed7670307ba0f66b7b9c8101ad8efdc6b45d11519a60ba047",
    "build_patterns": "c2dac9bc57106ce95732b4debb925b24dc6f8116e6019c7a772afaff50a89626",
    "build_controllers_and_midi_maps": "cd1e2c806ffc779c6a6ac361983b4d3597a11ccd13fe43b3cee7a09eb08078b8",
}

HEADER_NAMES = (
    "SVOX VERS BVER FLGS SFGS BPM  SPED TGRD TGD2 GVOL NAME MSCL MZOO MXOF MYOF "
    "LMSK CURL"
)


def header_prefix():
    return [HEADER_NAMES[i : i + 4].encode() for i in range(0, len(HEADER_NAMES), 5)]


def check_structure(tag, project, data):
    names = chunk_names(data)
    prefix = header_prefix()
    expect(names[: len(prefix)] == prefix, f"{tag}: header chunk order")
    rest = names[len(prefix) :]
    optional = []
    if project.timeline_position != 0:
        optional.append(b"TIME")
    if project.restart_position != 0:
        optional.append(b"REPS")
    tail = optional + [b"SELS", b"LGEN", b"PATN", b"PATT", b"PATL"]
    expect(rest[: len(tail)] == tail, f"{tag}: selection chunk order")
    expect(names.count(b"PEND") == len(project.patterns), f"{tag}: one PEND per slot")
    expect(names.count(b"SEND") == len(project.modules), f"{tag}: one SEND per slot")
    expect(
        names.count(b"SFFF") == sum(mod is not None for mod in project.modules),
        f"{tag}: one SFFF per module",
    )
    expect(names.count(b"SLNK") == names.count(b"SFFF"), f"{tag}: one SLNK per module")
    expect(names[-1] == b"SEND", f"{tag}: file ends with SEND")
    if b"PEND" in names and b"SFFF" in names:
        last_pend = len(names) - 1 - names[::-1].index(b"PEND")
        expect(last_pend < names.index(b"SFFF"), f"{tag}: patterns precede modules")


def check_lazy_generator():
    p = build_links()
    gen = p.chunks()
    expect(iter(gen) is gen, "chunks() returns an iterator")
    first = next(gen)
    expect(first == (b"SVOX", b""), "first chunk is the magic chunk")
    expect(first is Project.MAGIC_CHUNK, "magic chunk is the class constant")
    # Laziness: a change made after the header was consumed is still reflected
    # in chunks that have not been produced yet.
    for name, data in gen:
        if name == b"CURL":
            p.selected_module = 41
            p.modules[2].name = "renamed late"
            break
    remaining = list(gen)
    rest = dict((n, d) for n, d in remaining if n == b"SELS")
    expect(rest[b"SELS"] == pack("<I", 41), "chunks are produced lazily (SELS)")
    snams = [d for n, d in remaining if n == b"SNAM"]
    expect(snams[2] == b"renamed late".ljust(32, b"\0"), "modules serialised lazily")
    for name, data in remaining:
        expect(isinstance(name, bytes) and isinstance(data, bytes), "chunk types")


def check_slnk_encoding():
    p = build_links()
    data = write(p)
    slnk = [d for n, d in iff_chunks(BytesIO(data)) if n == b"SLNK"]
    expect(len(slnk) == len(p.modules), "SLNK per module")
    for mod, raw in zip(p.modules, slnk):
        links = list(unpack("<" + "i" * (len(raw) // 4), raw))
        expect(links == list(mod.in_links), f"SLNK payload for {mod!r}")
    slots = [d for n, d in iff_chunks(BytesIO(data)) if n == b"SLnK"]
    expected_slots = [
        pack("<" + "i" * len(mod.in_link_slots), *mod.in_link_slots)
        for mod in p.modules
        if any(s not in (-1, 0) for s in mod.in_link_slots)
    ]
    expect(slots == expected_slots, "SLnK only for modules with non-zero slots")
    expect(len(slots) >= 1, "test project exercises SLnK")


def check_errors():
    from rv.modules.module import Module

    p = Project()
    try:
        p.attach_module(Module())
    except RuntimeError:
        pass
    else:
        expect(False, "attaching base Module must raise RuntimeError")
    p2 = Project()
    p2.initial_bpm = -1
    try:
        write(p2)
    except Exception as e:  # struct.error
        expect(type(e).__name__ == "error", f"out of range bpm error type {type(e)}")
    else:
        expect(False, "negative bpm must fail to pack")


# ---------------------------------------------------------------------------
# Pattern cell loops


def cell_bytes(i):
    return pack("<BBHHH", i % 120 + 1, i % 130, (i * 257) % 0x10000, (i * 31) % 0x10000,
                0xFFFF - i)


def check_pattern_raw_data():
    from rv.api import Note

    for tracks, lines in [(1, 1), (1, 7), (4, 1), (3, 5), (32, 2), (5, 33)]:
        tag = f"pattern {tracks}x{lines}"
        payload = b"".join(cell_bytes(i) for i in range(tracks * lines))
        pat = Pattern(tracks=tracks, lines=lines)
        expect(pat.raw_data == bytes(8 * tracks * lines), f"{tag}: empty raw data")
        pat.raw_data = payload
        expect(pat.raw_data == payload, f"{tag}: raw data round trip")
        for line in range(lines):
            for track in range(tracks):
                expect(
                    pat.data[line][track].raw_data == cell_bytes(line * tracks + track),
                    f"{tag}: cell {line},{track}",
                )
        # surplus input is ignored
        pat2 = Pattern(tracks=tracks, lines=lines)
        pat2.raw_data = payload + b"\xff" * 11
        expect(pat2.raw_data == payload, f"{tag}: surplus bytes ignored")
        # short input: cells before the cut are written, then struct.error
        if tracks * lines > 1:
            cut = (tracks * lines) // 2
            pat3 = Pattern(tracks=tracks, lines=lines)
            try:
                pat3.raw_data = payload[: cut * 8 + 3]
            except Exception as e:
                expect(type(e).__module__ == "struct", f"{tag}: short data error type")
            else:
                expect(False, f"{tag}: short data must raise")
            expect(
                pat3.raw_data == payload[: cut * 8] + bytes(8 * (tracks * lines - cut)),
                f"{tag}: cells written before the error",
            )
    # The pattern dimensions changed after the note array was created.
    pat = Pattern(tracks=2, lines=2)
    pat.data  # materialise 2x2
    pat.tracks = 3
    payload = b"".join(cell_bytes(i) for i in range(12))
    try:
        pat.raw_data = payload
    except IndexError:
        pass
    else:
        expect(False, "mismatched dimensions must raise IndexError")
    expect(
        [n.raw_data for n in pat.data[0]] == [cell_bytes(0), cell_bytes(1)],
        "cells written before IndexError",
    )
    expect(pat.data[1][0].raw_data == bytes(8), "second line untouched")
    pat = Pattern(tracks=3, lines=2)
    pat.data
    pat.tracks = 2  # narrower than the array: offsets follow the current width
    pat.raw_data = payload
    expect(
        [[n.raw_data for n in line] for line in pat.data]
        == [
            [cell_bytes(0), cell_bytes(1), bytes(8)],
            [cell_bytes(2), cell_bytes(3), bytes(8)],
        ],
        "narrowed pattern offsets",
    )
    expect(pat.raw_data == b"".join(
        [cell_bytes(0), cell_bytes(1), bytes(8), cell_bytes(2), cell_bytes(3), bytes(8)]
    ), "raw_data getter walks the whole array")
    # clear()
    pat = Pattern(tracks=3, lines=4)
    first = pat.data
    expect(len(first) == 4 and all(len(line) == 3 for line in first), "clear dims")
    notes = [n for line in first for n in line]
    expect(all(type(n) is Note for n in notes), "clear note type")
    expect(len({id(n) for n in notes}) == 12, "clear: distinct notes")
    expect(len({id(line) for line in first}) == 4, "clear: distinct lines")
    expect(all(n.pattern is pat for n in notes), "clear: notes owned by pattern")
    expect(pat.data is first, "data is cached")
    first[1][1].vel = 77
    pat.clear()
    expect(pat.data is not first and pat.data[1][1].vel == 0, "clear resets")
    expect(type(pat.data) is list and type(pat.data[0]) is list, "clear list types")


def check_pattern_set_via():
    from rv.api import Note

    pat = Pattern(tracks=2, lines=3)
    old = pat.data
    calls = []

    def fn(pattern, line, track):
        calls.append((line, track))
        expect(pattern is pat, "fn receives the pattern")
        return Note(note=1 + line * 2 + track, vel=line, module=track)

    expect(pat.set_via_fn(fn) is pat, "set_via_fn returns self")
    expect(calls == [(l, t) for l in range(3) for t in range(2)], "fn call order")
    expect(pat.data is not old, "new array installed")
    expect(
        [[int(n.note) for n in line] for line in pat.data] == [[1, 2], [3, 4], [5, 6]],
        "set_via_fn contents",
    )
    expect(all(n.pattern is pat for line in pat.data for n in line), "fn notes adopted")

    def failing(pattern, line, track):
        if (line, track) == (1, 1):
            raise KeyError("boom")
        return Note(note=100)

    before = pat.raw_data
    kept = pat.data
    try:
        pat.set_via_fn(failing)
    except KeyError:
        pass
    else:
        expect(False, "fn error must propagate")
    expect(pat.data is kept and pat.raw_data == before, "failed set_via_fn keeps data")

    seen = {}

    def gen(pattern, new):
        seen["same"] = new is not pattern.data and len(new) == 3
        yield 2, 1, Note(note=50, val=0xBEEF)
        yield 0, 0, Note(note=51, ctl=0x0102)
        yield 2, 1, Note(note=52)

    expect(pat.set_via_gen(gen) is pat, "set_via_gen returns self")
    expect(seen["same"], "gen receives a working copy")
    expect(int(pat.data[2][1].note) == 52 and int(pat.data[0][0].note) == 51, "gen data")
    expect(int(pat.data[1][0].note) == 3, "untouched cells copied")
    expect(all(n.pattern is pat for line in pat.data for n in line), "gen notes adopted")

    def bad_gen(pattern, new):
        yield 0, 0, Note(note=9)
        raise ValueError("stop")

    kept = pat.data
    try:
        pat.set_via_gen(bad_gen)
    except ValueError:
        pass
    else:
        expect(False, "gen error must propagate")
    expect(pat.data is kept and int(pat.data[0][0].note) == 51, "failed gen keeps data")
    # and it all serialises
    p = Project()
    p.attach_pattern(pat)
    loaded = load(write(p))
    expect(loaded.patterns[0].raw_data == pat.raw_data, "set_via_* pattern round trip")


# ---------------------------------------------------------------------------
# Module loops


def check_controller_init_order():
    from rv.controller import DependentRange

    dependent_types = 0
    for mtype in sorted(MODULE_CLASSES):
        cls = MODULE_CLASSES[mtype]
        mod = cls()
        names = list(cls.controllers)
        independent = [
            n for n in names if not isinstance(cls.controllers[n].value_type, DependentRange)
        ]
        dependent = [
            n for n in names if isinstance(cls.controllers[n].value_type, DependentRange)
        ]
        dependent_types += bool(dependent)
        got = [n for n in mod.controller_values if n in names]
        expect(got == independent + dependent, f"{mtype}: controller init order {got}")
        expect(mod.controllers_loaded == set(names), f"{mtype}: controllers_loaded")
        for n in names:
            ctl = cls.controllers[n]
            if type(ctl).__name__ == "Controller":
                want = ctl.default
                have = mod.controller_values[n]
                if want is not None and have is not None:
                    expect(have == want or int(have) == int(want), f"{mtype}.{n} default")
    expect(dependent_types >= 5, f"dependent-range module types seen: {dependent_types}")
    # keyword overrides reach both kinds of controller
    lfo = m.Lfo(volume=100, freq=5, frequency_unit=m.Lfo.FrequencyUnit.hz)
    expect(lfo.volume == 100 and lfo.freq == 5, "Lfo keyword overrides")
    expect(lfo.frequency_unit == m.Lfo.FrequencyUnit.hz, "Lfo enum override")
    expect(list(lfo.controller_values)[-1] == "freq", "dependent controller set last")
    echo = m.Echo(delay=200, wet=1)
    expect(echo.delay == 200 and echo.wet == 1, "Echo keyword overrides")
    data = write(_project_with(lfo, echo))
    back = load(data)
    expect(back.modules[1].freq == 5 and back.modules[2].delay == 200, "override round trip")


def _project_with(*mods):
    p = Project()
    for mod in mods:
        p.attach_module(mod)
    return p


def model_option_bytes(mod):
    bytemap = [0] * 64
    used = 0
    for option in mod.options.values():
        value = int(mod.option_values[option.name]) & ((1 << option.size) - 1)
        bytemap[option.byte] |= value << option.bit
        used = max(used, option.byte + 1)
    return bytes(bytemap[:used])


def check_options():
    from rv.modules import Chunk

    with_options = 0
    for mtype in sorted(MODULE_CLASSES):
        cls = MODULE_CLASSES[mtype]
        if not cls.options:
            continue
        with_options += 1
        for variant in range(4):
            mod = cls()
            for i, option in enumerate(cls.options.values()):
                if option.size == 1:
                    value = bool((i + variant) % 2) if variant < 3 else True
                else:
                    top = (1 << option.size) - 1
                    value = [0, top, 1, top // 2][variant]
                mod.option_values[option.name] = value
            chunk_list = list(mod.options_chunks())
            expect(len(chunk_list) == 2, f"{mtype}: two option chunks")
            expect(chunk_list[0] == (b"CHNM", pack("<I", cls.options_chnm)), f"{mtype}: CHNM")
            expect(chunk_list[1][0] == b"CHDT", f"{mtype}: CHDT name")
            expect(
                chunk_list[1][1] == model_option_bytes(mod),
                f"{mtype} variant {variant}: CHDT payload {chunk_list[1][1]!r}",
            )
            # decoding: exact, padded, over-long (> 64 bytes) and truncated payloads
            payload = chunk_list[1][1]
            for data in (payload, payload + bytes(5), payload.ljust(80, b"\0")):
                fresh = cls()
                chunk = Chunk()
                chunk.chnm, chunk.chdt = cls.options_chnm, data
                fresh.load_options(chunk)
                for option in cls.options.values():
                    want = mod.option_values[option.name]
                    want = bool(want) if option.size == 1 else int(want)
                    have = fresh.option_values[option.name]
                    expect(
                        have == want and type(have) is type(want),
                        f"{mtype} variant {variant}: option {option.name} {have!r} {want!r}",
                    )
            fresh = cls()
            chunk = Chunk()
            chunk.chnm, chunk.chdt = cls.options_chnm, payload[:1]
            fresh.load_options(chunk)
            for option in cls.options.values():
                if option.byte >= 1:
                    expect(
                        not fresh.option_values[option.name],
                        f"{mtype}: truncated CHDT -> {option.name} is zero",
                    )
            chunk.chdt = b""
            fresh.load_options(chunk)
            expect(not any(fresh.option_values.values()), f"{mtype}: empty CHDT -> zeros")
        # missing option value -> TypeError, as before
        mod = cls()
        mod.option_values.pop(next(iter(cls.options)))
        try:
            list(mod.options_chunks())
        except TypeError:
            pass
        else:
            expect(False, f"{mtype}: missing option value must raise TypeError")
    expect(with_options >= 5, f"module types with options: {with_options}")
    # through the file format
    p = Project()
    multi = p.new_module(m.MultiSynth)
    first, second = list(m.MultiSynth.options)[:2]
    setattr(multi, first, True)
    setattr(multi, second, True)
    sound = p.new_module(m.Sound2Ctl)
    for name in m.Sound2Ctl.options:
        setattr(sound, name, True)
    back = load(write(p))
    expect(back.modules[1].option_values == multi.option_values, "MultiSynth options")
    expect(back.modules[2].option_values == sound.option_values, "Sound2Ctl options")


def cmid_record(i):
    return pack("<BBBBHBB", i % 9, i % 16, i % 6, 0, (i * 1000) % 0x10000, 0, 0xC8 if i % 9 else 0xFF)


def check_load_cmid():
    cls = m.AnalogGenerator
    names = list(cls.controllers)
    count = len(names)
    full = b"".join(cmid_record(i + 1) for i in range(count + 3))
    default = cls().controller_midi_maps["volume"].cmid_data
    for size in [0, 1, 7, 8, 9, 15, 16, 17, 8 * count - 1, 8 * count, 8 * count + 5,
                 8 * (count + 3)]:
        mod = cls()
        mod.load_cmid(full[:size])
        complete = min(size // 8, count)
        for i, name in enumerate(names):
            want = cmid_record(i + 1) if i < complete else default
            expect(
                mod.controller_midi_maps[name].cmid_data == want,
                f"load_cmid size {size}: {name}",
            )
        expect(
            set(mod.controller_midi_maps) <= set(names), f"load_cmid size {size}: keys"
        )
    # invalid record -> ValueError from the enum, earlier records are applied
    mod = cls()
    try:
        mod.load_cmid(cmid_record(1) + b"\x63" * 8 + cmid_record(3))
    except ValueError:
        pass
    else:
        expect(False, "bad message type must raise ValueError")
    expect(mod.controller_midi_maps[names[0]].cmid_data == cmid_record(1), "first applied")
    expect(mod.controller_midi_maps[names[2]].cmid_data == default, "third not applied")
    # module without controllers
    out = Project().output
    out.load_cmid(full)
    expect(len(out.controller_midi_maps) == 0, "Output has no midi maps")


def raw(*chunk_list):
    out = BytesIO()
    for name, data in chunk_list:
        out.write(name)
        out.write(pack("<I", len(data)))
        out.write(data)
    return out.getvalue()


def check_legacy_note_masking():
    notes = b"".join(pack("<BBHHH", 1 + i, 2, 0x1234 + i, 0x0102, 0x0304) for i in range(6))
    pattern = [
        (b"PDTA", notes),
        (b"PCHN", pack("<I", 3)),
        (b"PLIN", pack("<I", 2)),
        (b"PEND", b""),
    ]
    clone = [(b"PPAR", pack("<I", 0)), (b"PFFF", pack("<I", 1)), (b"PEND", b"")]
    output = [(b"SFFF", pack("<I", 0x43)), (b"SNAM", b"Output"), (b"SEND", b"")]
    # VERS payload bytes are stored in reverse order: (0, 5, 9, 1) is 1.9.5.0
    for vers in [(0, 0, 9, 1), (0, 5, 9, 1), (9, 4, 9, 1), (0, 0, 0, 1), (1, 2, 1, 2),
                 (255, 255, 255, 0)]:
        version = tuple(reversed(vers))
        masked = version < (1, 9, 5, 0)
        data = raw(
            (b"SVOX", b""),
            (b"VERS", bytes(vers)),
            *pattern,
            (b"PEND", b""),
            *clone,
            *pattern,
            *output,
        )
        p = load(data)
        expect(len(p.patterns) == 4 and p.patterns[1] is None, "pattern slots")
        expect(type(p.patterns[2]).__name__ == "PatternClone", "clone slot")
        for idx in (0, 3):
            mods = [n.module for line in p.patterns[idx].data for n in line]
            want = [(0x1234 + i) & (0xFF if masked else 0xFFFF) for i in range(6)]
            expect(mods == want, f"legacy masking {version} pattern {idx}: {mods}")
            others = [(int(n.note), n.vel, n.ctl, n.val) for line in p.patterns[idx].data
                      for n in line]
            expect(
                others == [(1 + i, 2, 0x0102, 0x0304) for i in range(6)],
                f"legacy masking {version}: other columns untouched",
            )


def main():
    record = "--record" in sys.argv
    for builder in BUILDERS:
        tag = builder.__name__
        project = builder()
        data = write(project)
        expect(data == project.read(), f"{tag}: read() == write_to() bytes")
        expect(data == write(project), f"{tag}: writing twice gives the same bytes")
        if record:
            print(f'    "{tag}": "{digest(data)}",')
        else:
            expect(digest(data) == GOLDEN[tag], f"{tag}: golden digest differs")
        check_structure(tag, project, data)
        loaded = load(data)
        compare_projects(tag, project, loaded)
        cloned = project.clone()
        compare_projects(tag + "/clone", project, cloned)
        # the loaded project can be written and loaded again
        data2 = write(loaded)
        compare_projects(tag + "/second", loaded, load(data2))
    check_lazy_generator()
    check_slnk_encoding()
    check_errors()
    check_pattern_raw_data()
    check_pattern_set_via()
    check_controller_init_order()
    check_options()
    check_load_cmid()
    check_legacy_note_masking()
    if FAILURES:
        for failure in FAILURES:
            print("FAIL:", failure)
        sys.exit(1)
    print("PASS")


if __name__ == "__main__":
    main()
