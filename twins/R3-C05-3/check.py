"""Behaviour check for C05 (re-saving is stable / saving is pure).

Focus of this variant: controller value conversion and validation --
Range.to_raw_value/from_raw_value/validate (and the WarnOnly/Compact/NoOffset
variants), Controller.set_initial, Module.get_raw/set_raw, the raise-or-warn
switch in rv.errors and its use by read_sunvox_file -- plus idempotence of
load/save for fixtures and mutated fixtures.

Run from the repository root:
    PYTHONPATH=<root>/src/python python check.py
Prints PASS and exits 0 when behaviour matches the recorded baseline.
"""
import hashlib
import io
import logging
import struct
import sys
from pathlib import Path

import rv.api as rv
from rv.errors import ControllerValueError, EmptySynthError
from rv.modules.module import Module
from rv.project import Project
from rv.readers.reader import read_sunvox_file
from rv.synth import Synth

EXPECTED = "d8f2e08d8294650f6eea450735339455bdc19d58221d28c04e567671a8fc7e26"

ROOT = Path.cwd()
FILES = ROOT / "tests" / "files"
assert FILES.is_dir(), "run from the repository root"

# Inputs on which the *unchanged* tree is already not idempotent (explicit
# all-zero SLnK whose rebuilt value would be non-zero).  Pinned so that a
# refactoring neither fixes nor worsens it silently.
KNOWN_DRIFT = {"links filter_lfo.sunvox addslots-fit0"}

TRACE = []
FAILURES = []


def note(*parts):
    TRACE.append(" ".join(str(p) for p in parts))


def sha(b):
    return hashlib.sha256(b).hexdigest()[:16]


class Collect(logging.Handler):
    def __init__(self):
        super().__init__(level=logging.WARNING)
        self.messages = []

    def emit(self, record):
        self.messages.append(record.getMessage())


COLLECT = Collect()
_rvlog = logging.getLogger("rv")
_rvlog.addHandler(COLLECT)
_rvlog.propagate = False
_rvlog.setLevel(logging.WARNING)


def split_chunks(data):
    """-> list of (name, payload) for the top-level IFF stream."""
    out = []
    pos = 0
    while pos + 8 <= len(data):
        name = data[pos : pos + 4]
        (size,) = struct.unpack("<I", data[pos + 4 : pos + 8])
        out.append((name, data[pos + 8 : pos + 8 + size]))
        pos += 8 + size
    return out


def join_chunks(chunks):
    return b"".join(n + struct.pack("<I", len(d)) + d for n, d in chunks)


def load(data):
    return read_sunvox_file(io.BytesIO(data))


def save(obj):
    f = io.BytesIO()
    obj.write_to(f)
    return f.getvalue()


def modules_of(obj):
    if isinstance(obj, Synth):
        return [obj.module]
    return [m for m in obj.modules if m is not None]


def snapshot(obj):
    snap = []
    if isinstance(obj, Project):
        snap.append(
            sorted(
                (k, repr(v))
                for k, v in vars(obj).items()
                if k not in ("modules", "patterns", "output", "metamodule")
            )
        )
        snap.append(len(obj.modules))
        snap.append(
            [
                None if p is None else (type(p).__name__, getattr(p, "x", 0))
                for p in obj.patterns
            ]
        )
    for m in modules_of(obj):
        snap.append(
            (
                type(m).__name__,
                m.index,
                m.name,
                m.flags,
                sorted((k, repr(v)) for k, v in m.controller_values.items()),
                sorted((k, repr(v)) for k, v in m.option_values.items()),
                sorted(m.controllers_loaded),
                list(m.in_links),
                list(m.in_link_slots),
                list(m.out_links),
                list(m.out_link_slots),
                m.mod_scale,
                m.mod_finetune,
                m.mod_relative_note,
                m.x,
                m.y,
                m.layer,
                tuple(m.color),
            )
        )
    return repr(snap)


def cycle(label, data, cycles=3):
    """load/save `cycles` times; record digest or the error type."""
    del COLLECT.messages[:]
    try:
        obj = load(data)
    except Exception as e:  # noqa: BLE001 - error type is part of behaviour
        note(label, "ERR", type(e).__name__)
        return None
    warnings = list(COLLECT.messages)
    before = snapshot(obj)
    partial = io.BytesIO()
    try:
        obj.write_to(partial)
    except Exception as e:  # noqa: BLE001 - error type and partial output matter
        note(label, "SAVE-ERR", type(e).__name__, e.args, sha(partial.getvalue()))
        if snapshot(obj) != before:
            FAILURES.append(f"{label}: failed save changed object state")
        return None
    y1 = partial.getvalue()
    after = snapshot(obj)
    if before != after:
        FAILURES.append(f"{label}: saving changed object state")
    if save(obj) != y1:
        FAILURES.append(f"{label}: saving twice gave different bytes")
    y = y1
    for n in range(cycles):
        y_next = save(load(y))
        if y_next != y:
            # Recorded, and only tolerated for the inputs listed in KNOWN_DRIFT.
            note(label, "DRIFT at cycle", n + 2, sha(y_next))
            if label not in KNOWN_DRIFT:
                FAILURES.append(f"{label}: drift at cycle {n + 2}")
            break
        y = y_next
    note(label, "OK", sha(y1), len(y1), sha("\n".join(warnings).encode()))
    return y1


def chunk_trace(obj):
    """Names, sizes and digests of every chunk the writer generates."""
    return [
        (None if n is None else n.decode("latin1"), None if d is None else sha(d))
        for n, d in obj.chunks()
    ]


def fixtures():
    return sorted(p for p in FILES.rglob("*.sun*") if p.is_file())


def check_fixtures():
    for path in fixtures():
        data = path.read_bytes()
        rel = path.relative_to(FILES)
        y1 = cycle(f"fixture {rel}", data)
        if y1 is not None:
            obj = load(data)
            note("chunks", rel, sha(repr(chunk_trace(obj)).encode()))
            # generator output must agree with what write_to() writes
            assert (
                join_chunks([(n.ljust(4), d) for n, d in obj.chunks() if n is not None])
                == y1
            )


CVAL_VALUES = (300, -5, 70000, -(2**31), 2**31 - 1)


def check_mutated_cvals():
    for path in fixtures():
        data = path.read_bytes()
        chunks = split_chunks(data)
        idxs = [i for i, (n, _) in enumerate(chunks) if n == b"CVAL"]
        if path.suffix == ".sunvox":
            idxs = idxs[:12]
        for k, i in enumerate(idxs):
            for v in CVAL_VALUES[: 5 if path.suffix == ".sunsynth" else 2]:
                mutated = list(chunks)
                mutated[i] = (b"CVAL", struct.pack("<i", v))
                cycle(f"cval {path.name}#{k}={v}", join_chunks(mutated), cycles=2)
        # all CVALs shifted up by 1000 at once (mostly out of range)
        mutated = [
            (n, struct.pack("<i", struct.unpack("<i", d)[0] + 1000))
            if n == b"CVAL"
            else (n, d)
            for n, d in chunks
        ]
        cycle(f"cval-all {path.name}", join_chunks(mutated), cycles=2)
        # extra, unknown trailing controllers
        if idxs:
            last = idxs[-1]
            mutated = list(chunks)
            mutated[last + 1 : last + 1] = [
                (b"CVAL", struct.pack("<i", 7)),
                (b"CVAL", struct.pack("<i", -9)),
            ]
            cycle(f"cval-extra {path.name}", join_chunks(mutated), cycles=2)


def check_mutated_links():
    for path in fixtures():
        if path.suffix != ".sunvox":
            continue
        chunks = split_chunks(path.read_bytes())
        slnk = [i for i, (n, d) in enumerate(chunks) if n == b"SLNK" and d]
        for variant in (
            "trail",
            "all-1",
            "mid-1",
            "slots0",
            "slots-1",
            "slotsrev",
            "dropslots",
            "addslots",
            "addslots-up",
            "addslots-mixed",
            "addslots-fit",
            "addslots-fit0",
        ):
            mutated = list(chunks)
            for i in slnk:
                n, d = mutated[i]
                count = len(d) // 4
                if variant == "trail":
                    mutated[i] = (n, d + struct.pack("<ii", -1, -1))
                elif variant == "all-1":
                    mutated[i] = (n, struct.pack("<i", -1) * count)
                elif variant == "mid-1" and count >= 2:
                    mutated[i] = (n, struct.pack("<i", -1) + d[4:])
            out = []
            for i, (n, d) in enumerate(mutated):
                if n == b"SLnK":
                    count = len(d) // 4
                    if variant == "slots0":
                        d = struct.pack("<i", 0) * count
                    elif variant == "slots-1":
                        d = struct.pack("<i", -1) * count
                    elif variant == "slotsrev":
                        vals = struct.unpack("<" + "i" * count, d)
                        d = struct.pack("<" + "i" * count, *reversed(vals))
                    elif variant == "dropslots":
                        continue
                if n == b"SLnK" and variant.startswith("addslots"):
                    continue
                out.append((n, d))
                if n == b"SLNK" and d and variant.startswith("addslots"):
                    count = len(d) // 4
                    if variant == "addslots":
                        vals = list(reversed(range(count)))
                    elif variant == "addslots-up":
                        vals = [k + 1 for k in range(count)]
                    elif variant.startswith("addslots-fit"):
                        links = list(struct.unpack("<%di" % count, d))
                        while links[-1:] == [-1]:
                            links.pop()
                        step = 1 if variant == "addslots-fit" else 0
                        vals = [
                            -1 if link == -1 else (k + 1) * step
                            for k, link in enumerate(links)
                        ]
                        if not vals:
                            continue
                    else:
                        vals = [(-1, 0, 2)[k % 3] for k in range(count)] + [-1]
                    out.append((b"SLnK", struct.pack("<%di" % len(vals), *vals)))
            cycle(f"links {path.name} {variant}", join_chunks(out), cycles=2)


def check_generated():
    # Projects built through the API: connections, disconnections, empty slots.
    p = Project()
    gen = p.new_module(rv.m.AnalogGenerator)
    flt = p.new_module(rv.m.Filter)
    amp = p.new_module(rv.m.Amplifier, dc_offset=-100, balance=50)
    lfo = p.new_module(rv.m.Lfo)
    gen >> flt >> amp >> p.output
    lfo >> p.output
    gen >> amp
    note("gen1", sha(repr(chunk_trace(p)).encode()))
    cycle("gen1", save(p))
    # disconnect: leaves -1 entries in the link lists
    p.connect(~gen, amp)
    note("gen2 links", amp.in_links, amp.in_link_slots, gen.out_links)
    note("gen2", sha(repr(chunk_trace(p)).encode()))
    cycle("gen2", save(p))
    p.connect(lfo, ~p.output)
    p.connect(~amp, ~p.output)
    note("gen3", sha(repr(chunk_trace(p)).encode()))
    cycle("gen3", save(p))
    # holes in module list
    p.modules[flt.index] = None
    amp.in_links[:] = [x if x != 2 else -1 for x in amp.in_links]
    note("gen4", sha(repr(chunk_trace(p)).encode()))
    # timeline/restart positions are optional chunks
    q = Project()
    names0 = [n for n, _ in q.chunks()]
    q.timeline_position = -3
    q.restart_position = 12
    q.name = "x" * 40
    q.receive_sync_midi = 5
    q.receive_sync_other = 3
    names1 = [n for n, _ in q.chunks()]
    assert b"TIME" not in names0 and b"REPS" not in names0
    assert names1.index(b"TIME") + 1 == names1.index(b"REPS")
    assert names1.index(b"CURL") + 1 == names1.index(b"TIME")
    assert names1.index(b"REPS") + 1 == names1.index(b"SELS")
    note("gen5", sha(repr(chunk_trace(q)).encode()))
    cycle("gen5", save(q))
    # only one of the optional position chunks
    q.timeline_position = 0
    names1b = [n for n, _ in q.chunks()]
    assert b"TIME" not in names1b and b"REPS" in names1b
    cycle("gen5b", save(q))
    # unpackable header fields fail at the same point of the stream
    for attr, bad in (
        ("initial_bpm", -1),
        ("modules_y_offset", 2**31),
        ("restart_position", 2**40),
        ("current_line", -1),
        ("global_volume", "80"),
    ):
        good = getattr(q, attr)
        setattr(q, attr, bad)
        partial = io.BytesIO()
        try:
            q.write_to(partial)
        except struct.error as e:
            note("bad header", attr, e.args, sha(partial.getvalue()), partial.tell())
        else:
            FAILURES.append(f"bad {attr} was written")
        setattr(q, attr, good)
    # link lists of different lengths / odd slot values
    r = Project()
    a1 = r.new_module(rv.m.Amplifier)
    a2 = r.new_module(rv.m.Amplifier)
    a1 >> a2 >> r.output
    a1 >> r.output
    for slots in ([0, 0], [0, -1], [-1, -1], [0, 1], [2, 0], [0], [0, 0, 0], []):
        r.output.in_link_slots[:] = slots
        partial = io.BytesIO()
        try:
            r.write_to(partial)
        except struct.error as e:
            note("slots", slots, "ERR", e.args, sha(partial.getvalue()))
        else:
            names = [n for n, _ in r.chunks()]
            note("slots", slots, names.count(b"SLnK"), sha(partial.getvalue()))
    # a pattern and an empty pattern slot
    q.attach_pattern(rv.Pattern(tracks=2, lines=4))
    q.attach_pattern(None)
    names2 = [n for n, _ in q.chunks()]
    assert names2.count(b"PEND") == 2
    note("gen6", sha(repr(chunk_trace(q)).encode()))
    cycle("gen6", save(q))
    # out-of-range values held by the object are written back unchanged
    loaded = load(save(p))
    m = loaded.modules[amp.index]
    m.controller_values["dc_offset"] = 300
    m.controller_values["volume"] = 5000
    assert m.get_raw("dc_offset") == 428 and m.get_raw("volume") == 5000
    cycle("gen7", save(loaded))
    # synths
    for cls in (rv.m.Amplifier, rv.m.Lfo, rv.m.MetaModule, rv.m.MultiSynth):
        mod = cls()
        s = Synth(mod)
        note("synth", cls.__name__, sha(repr(chunk_trace(s)).encode()))
        cycle(f"synth {cls.__name__}", save(s))
    # a module type without controllers has neither CVAL nor CMID
    s = Synth(rv.m.Feedback()) if hasattr(rv.m, "Feedback") else None
    if s is not None:
        names = [n for n, _ in s.chunks()]
        note("feedback names", names.count(b"CVAL"), names.count(b"CMID"))
    try:
        list(Synth().chunks())
    except EmptySynthError as e:
        note("empty synth", e.args)
    else:
        FAILURES.append("empty synth did not raise")
    try:
        list(Synth(Module()).chunks())
    except RuntimeError as e:
        note("base module synth", type(e).__name__, e.args)
    else:
        FAILURES.append("base Module serialised")
    # strict mode error text from set_raw
    a = rv.m.Amplifier()
    try:
        a.set_raw("dc_offset", 999)
    except ControllerValueError as e:
        note("strict", e.args)
    else:
        FAILURES.append("strict set_raw did not raise")


class Records(logging.Handler):
    """Collects (logger name, level, message, exc_info type) of every record."""

    def __init__(self):
        super().__init__(level=logging.DEBUG)
        self.items = []

    def emit(self, record):
        exc = record.exc_info[0].__name__ if record.exc_info else None
        cause = None
        if record.exc_info and record.exc_info[1] is not None:
            cause = record.exc_info[1].args
        self.items.append((record.name, record.levelname, record.getMessage(), exc, cause))

    def take(self):
        items, self.items = self.items, []
        return items


def outcome(fn):
    try:
        value = fn()
    except Exception as e:  # noqa: BLE001 - error type/text is behaviour
        cause = e.__cause__
        return (
            "raised",
            type(e).__name__,
            e.args,
            None if cause is None else (type(cause).__name__, cause.args),
        )
    return ("ok", type(value).__name__, repr(value))


def cval_values(data):
    return [struct.unpack("<i", d)[0] for n, d in split_chunks(data) if n == b"CVAL"]


def check_values_focus():
    import rv.errors as errors
    import rv.readers.reader as reader_mod
    from rv.controller import (
        CompactRange,
        Controller,
        DependentRange,
        NoOffsetRange,
        Range,
        WarnOnlyRange,
    )
    from rv.modules import MODULE_CLASSES

    records = Records()
    _rvlog.addHandler(records)
    _rvlog.setLevel(logging.WARNING)
    try:
        # --- the range classes on their own
        samples = (0, 1, -1, 127, 128, 129, 256, 300, -128, -129, 2**31 - 1, -(2**31), True, False, 1.5, -0.5)
        for cls in (Range, CompactRange, WarnOnlyRange, NoOffsetRange):
            for lo, hi in ((0, 256), (-128, 128), (-1, 1), (1, 32768), (-100, -10), (0, 0)):
                r = cls(lo, hi)
                assert callable(r.to_raw_value) and callable(r.from_raw_value)
                for v in samples:
                    note(
                        "range",
                        repr(r),
                        repr(v),
                        outcome(lambda: r.to_raw_value(v)),
                        outcome(lambda: r.from_raw_value(v)),
                        outcome(lambda: r.from_raw_value(r.to_raw_value(v))),
                        outcome(lambda: r.validate(v)),
                        outcome(lambda: r(v)),
                        records.take(),
                    )
        note("range eq", Range(0, 1) == Range(0, 1), Range(0, 1) == CompactRange(0, 1),
             NoOffsetRange(-1, 1) == NoOffsetRange(-1, 1), NoOffsetRange(-1, 1) == Range(-1, 1))
        note("controller tuple", repr(Controller((-5, 5), 0).value_type))
        # the error raised by a plain range
        try:
            Range(-128, 128).validate(200)
        except errors.RangeValidationError as e:
            note("range error", type(e).__mro__[1].__name__, e.args, str(e))
        # raise-or-warn switch used directly
        probe = logging.getLogger("rv.check_probe")
        origin = errors.RangeValidationError(1, 2, 3)
        for flag in (True, False):
            with errors.override_raise_controller_value_errors(flag):
                note(
                    "raise_or_warn",
                    flag,
                    outcome(lambda: errors.raise_or_warn_controller_value_validation(origin, probe, "msg %s", "arg")),
                    outcome(lambda: errors.raise_or_warn_controller_value_validation(origin, probe, "plain")),
                    records.take(),
                )
            note("flag after", errors.RAISE_CONTROLLER_VALUE_ERRORS)
        # nesting and restoration on error
        try:
            with errors.override_raise_controller_value_errors(False):
                with errors.override_raise_controller_value_errors(True):
                    note("nested", errors.RAISE_CONTROLLER_VALUE_ERRORS)
                note("nested out", errors.RAISE_CONTROLLER_VALUE_ERRORS)
                raise KeyError("boom")
        except KeyError:
            pass
        note("flag restored", errors.RAISE_CONTROLLER_VALUE_ERRORS)

        # --- every controller of every module type, raw round trips
        raws = (0, 1, 128, 300, 70000, -5, 2**31 - 1)
        for mtype in sorted(MODULE_CLASSES):
            cls = MODULE_CLASSES[mtype]
            for strict in (True, False):
                with errors.override_raise_controller_value_errors(strict):
                    mod = cls()
                    for name in mod.controllers:
                        ctl = mod.controllers[name]
                        default_raw = outcome(lambda: mod.get_raw(name))
                        results = []
                        for raw in raws:
                            res = outcome(lambda: mod.set_raw(name, raw))
                            stored = repr(mod.controller_values.get(name))
                            back = outcome(lambda: mod.get_raw(name))
                            results.append((raw, res[:3], stored, back))
                        note("raw", mtype, strict, name, default_raw, results, records.take())
                        if isinstance(ctl.value_type, DependentRange):
                            note("dependent", mtype, name, repr(ctl.instance_value_type(mod)))
        # --- user-level assignment (Controller.__set__ -> set_initial)
        for strict in (True, False):
            with errors.override_raise_controller_value_errors(strict):
                amp = rv.m.Amplifier()
                lfo = rv.m.Lfo()
                ms = rv.m.MultiSynth()
                for target, name, values in (
                    (amp, "dc_offset", (-128, 128, 129, -129, 300, 0)),
                    (amp, "volume", (0, 1024, 1025, -1)),
                    (amp, "inverse", (True, False, 1, 0)),
                    (lfo, "freq", (1, 2048, 4000, 0)),
                    (lfo, "waveform", ("sin", "square", 1)),
                    (lfo, "frequency_unit", ("hz", "line")),
                    (lfo, "freq", (300, 1, 257, 0)),
                    (ms, "transpose", (-128, 128, 200)),
                    (ms, "finetune", (-256, 256, 300)),
                ):
                    for v in values:
                        res = outcome(lambda: setattr(target, name, v))
                        note(
                            "assign", strict, type(target).__name__, name, repr(v),
                            res, repr(target.controller_values[name]),
                            outcome(lambda: target.get_raw(name)), records.take(),
                        )
                note("ctor", strict, outcome(lambda: rv.m.Amplifier(dc_offset=500).get_raw("dc_offset")), records.take())
                note("ctor enum", strict, outcome(lambda: rv.m.Lfo(waveform="saw").get_raw("waveform")), records.take())
        note("vorbis", outcome(lambda: rv.m.VorbisPlayer(finetune=-7).get_raw("finetune")))
        vp = rv.m.VorbisPlayer()
        with errors.override_raise_controller_value_errors(False):
            for raw in (-128, -7, 0, 128, 300, -300):
                vp.set_raw("finetune", raw)
                note("vorbis raw", raw, repr(vp.finetune), vp.get_raw("finetune"), records.take())

        # --- no drift: an out-of-range stored value survives n cycles unchanged
        base = split_chunks((FILES / "amplifier.sunsynth").read_bytes())
        cv = [i for i, (n, _) in enumerate(base) if n == b"CVAL"]
        for raws_in in ((300, 300, 300, 300, 300, 300), (-5, -5, -5, 5000, -1, 2**30), (2**31 - 1,) * 6):
            mutated = list(base)
            for i, v in zip(cv, raws_in):
                mutated[i] = (b"CVAL", struct.pack("<i", v))
            data = join_chunks(mutated)
            history = []
            for _ in range(4):
                try:
                    data = save(load(data))
                except Exception as e:  # noqa: BLE001
                    history.append(type(e).__name__)
                    break
                history.append(cval_values(data))
            note("history", raws_in, history, len(records.take()))
            if len(history) == 4 and not all(h == history[0] for h in history):
                FAILURES.append(f"CVALs drift for {raws_in}: {history}")
            # numeric (range typed) controllers keep the stored value exactly;
            # the boolean ones (positions 3 and 5) are normalised to 0/1.
            numeric = (0, 1, 2, 4)
            if len(history) == 4 and any(history[0][k] != raws_in[k] for k in numeric):
                FAILURES.append(f"CVALs not preserved for {raws_in}: {history[0]}")

        # --- read_sunvox_file: sources, flag handling, file closing
        path = FILES / "amplifier.sunsynth"
        opened = []
        real_open = Path.open

        def tracking_open(self, *a, **kw):
            f = real_open(self, *a, **kw)
            opened.append(f)
            return f

        Path.open = tracking_open
        try:
            for source in (str(path), path):
                obj = read_sunvox_file(source)
                note("read", type(source).__name__, type(obj).__name__, [f.closed for f in opened], errors.RAISE_CONTROLLER_VALUE_ERRORS)
                del opened[:]
            with real_open(path, "rb") as f:
                obj = read_sunvox_file(f)
                note("read file object", type(obj).__name__, f.closed, opened)
            bio = io.BytesIO(path.read_bytes())
            read_sunvox_file(bio)
            note("read bytesio", bio.closed)
            bad = ROOT / "tests" / "files" / "does-not-exist.sunsynth"
            note("read missing", outcome(lambda: read_sunvox_file(bad))[:2], errors.RAISE_CONTROLLER_VALUE_ERRORS)
            note("read missing str", outcome(lambda: read_sunvox_file(str(bad)))[:2], errors.RAISE_CONTROLLER_VALUE_ERRORS)
            del opened[:]
            # a file that fails half-way: enum value that does not exist
            import tempfile

            chunks_ = split_chunks((FILES / "analog-generator.sunsynth").read_bytes())
            idx = [i for i, (n, _) in enumerate(chunks_) if n == b"CVAL"][1]
            chunks_[idx] = (b"CVAL", struct.pack("<i", 300))
            with tempfile.TemporaryDirectory() as tmp:
                broken = Path(tmp) / "broken.sunsynth"
                broken.write_bytes(join_chunks(chunks_))
                res = outcome(lambda: read_sunvox_file(broken))
                note("read broken", res[:2], [f.closed for f in opened], errors.RAISE_CONTROLLER_VALUE_ERRORS)
                del opened[:]
                # strict reading is picked up from the reader module's global
                mutated = list(base)
                mutated[cv[2]] = (b"CVAL", struct.pack("<i", 999))
                strict_file = Path(tmp) / "strict.sunsynth"
                strict_file.write_bytes(join_chunks(mutated))
                for setting in (True, False):
                    reader_mod.RAISE_RANGE_ERRORS_ON_READ = setting
                    try:
                        res = outcome(lambda: read_sunvox_file(strict_file))
                    finally:
                        reader_mod.RAISE_RANGE_ERRORS_ON_READ = False
                    note("read strict", setting, res if res[0] == "raised" else res[:2],
                         [f.closed for f in opened], errors.RAISE_CONTROLLER_VALUE_ERRORS, records.take())
                    del opened[:]
                # an outer "lenient" setting is restored after a read, too
                with errors.override_raise_controller_value_errors(False):
                    read_sunvox_file(strict_file)
                    note("read inside lenient", errors.RAISE_CONTROLLER_VALUE_ERRORS)
                note("read after lenient", errors.RAISE_CONTROLLER_VALUE_ERRORS)
        finally:
            Path.open = real_open
        records.take()
    finally:
        _rvlog.removeHandler(records)


def main():
    check_fixtures()
    check_values_focus()
    check_generated()
    check_mutated_links()
    check_mutated_cvals()
    digest = hashlib.sha256("\n".join(TRACE).encode()).hexdigest()
    if FAILURES:
        print("FAIL")
        for f in FAILURES[:20]:
            print("  ", f)
        return 1
    if "--record" in sys.argv:
        print(digest, len(TRACE))
        return 0
    if "--dump" in sys.argv:
        print("\n".join(TRACE))
        return 0
    if digest != EXPECTED:
        print("FAIL: behaviour digest", digest, "!= expected", EXPECTED)
        return 1
    print("PASS", len(TRACE), "observations")
    return 0


if __name__ == "__main__":
    sys.exit(main())
