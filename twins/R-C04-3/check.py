"""Behaviour check for ModuleReader: text chunks (SNAM/STYP/SMIN), link chunks
(SLNK/SLnK), positional CVAL assignment (fewer / more values than controllers,
assignment order), data chunks (CHNM/CHDT/CHFF/CHFR) and unknown chunks inside
a module section.

Run from the repository root:
    PYTHONPATH=<root>/src/python python check.py
"""
import io
import logging
import os
import struct
import sys
import tempfile
from pathlib import Path

from rv.api import Project, Synth, read_sunvox_file
from rv.lib.iff import chunks as lib_chunks
from rv.readers.reader import Reader, ReaderFinished

logging.getLogger("rv").addHandler(logging.NullHandler())  # keep stderr quiet
ROOT = Path(os.getcwd())
FILES = ROOT / "tests" / "files"
FAILURES = []


def check(cond, msg):
    if not cond:
        FAILURES.append(msg)
        print("FAIL:", msg)


# --------------------------------------------------------------------------
# independent chunk-level codec (does not use the library)
# --------------------------------------------------------------------------
def parse(raw):
    out = []
    pos = 0
    while pos + 8 <= len(raw):
        name = raw[pos : pos + 4]
        (size,) = struct.unpack_from("<I", raw, pos + 4)
        out.append((name, raw[pos + 8 : pos + 8 + size]))
        pos += 8 + size
    return out


def encode(items):
    return b"".join(n + struct.pack("<I", len(d)) + d for n, d in items)


def u32(v):
    return struct.pack("<I", v)


def i32(v):
    return struct.pack("<i", v)


# --------------------------------------------------------------------------
# snapshot of everything public that loading sets
# --------------------------------------------------------------------------
PROJECT_ATTRS = [
    "loaded_sunvox_version", "based_on_version", "flags", "receive_sync_midi",
    "receive_sync_other", "initial_bpm", "initial_tpl", "time_grid", "time_grid2",
    "global_volume", "name", "modules_scale", "modules_zoom", "modules_x_offset",
    "modules_y_offset", "modules_layer_mask", "modules_current_layer",
    "timeline_position", "restart_position", "selected_module",
    "selected_generator", "current_pattern", "current_track", "current_line",
]
MODULE_ATTRS = [
    "index", "flags", "name", "mtype", "mod_finetune", "mod_relative_note", "x", "y",
    "layer", "mod_scale", "visualization", "color", "midi_in_always",
    "midi_in_channel", "midi_out_name", "midi_out_channel", "midi_out_bank",
    "midi_out_program",
]
PATTERN_ATTRS = [
    "name", "tracks", "lines", "y_size", "flags_PFLG", "icon", "fg_color", "bg_color",
    "flags_PFFF", "x", "y", "source",
]


def snap_module(mod):
    if mod is None:
        return None
    d = {"class": type(mod).__name__}
    for a in MODULE_ATTRS:
        d[a] = getattr(mod, a, "<absent>")
    if d["visualization"] != "<absent>":
        d["visualization"] = int(d["visualization"])
    d["color"] = tuple(d["color"]) if d["color"] != "<absent>" else d["color"]
    for a in ("in_links", "in_link_slots", "out_links", "out_link_slots"):
        d[a] = list(getattr(mod, a))
    d["controllers"] = {n: repr(getattr(mod, n)) for n in mod.controllers}
    d["controllers_loaded"] = sorted(mod.controllers_loaded)
    d["cmid"] = {
        n: bytes(m.cmid_data) for n, m in mod.controller_midi_maps.items()
    }
    d["specialized"] = [
        (n, x if x is None else bytes(x)) for n, x in mod.specialized_iff_chunks()
    ]
    return d


def snap_pattern(pat):
    if pat is None:
        return None
    d = {"class": type(pat).__name__}
    for a in PATTERN_ATTRS:
        v = getattr(pat, a, "<absent>")
        d[a] = bytes(v) if isinstance(v, (bytes, bytearray)) else v
    if hasattr(pat, "raw_data"):
        d["raw_data"] = bytes(pat.raw_data)
    return d


def snapshot(obj):
    if isinstance(obj, Synth):
        return {
            "kind": "synth",
            "loaded_sunsynth_version": obj.loaded_sunsynth_version,
            "module": snap_module(obj.module),
            "written": obj.read(),
        }
    check(isinstance(obj, Project), "unexpected object type %r" % type(obj))
    d = {"kind": "project"}
    for a in PROJECT_ATTRS:
        d[a] = getattr(obj, a)
    d["modules"] = [snap_module(m) for m in obj.modules]
    d["output_is_module0"] = obj.output is obj.modules[0] if obj.modules else None
    d["patterns"] = [snap_pattern(p) for p in obj.patterns]
    d["written"] = obj.read()
    return d


def load(raw):
    return read_sunvox_file(io.BytesIO(raw))


def diff_keys(a, b):
    return sorted(k for k in set(a) | set(b) if a.get(k) != b.get(k))


# --------------------------------------------------------------------------
# log capture
# --------------------------------------------------------------------------
class Capture(logging.Handler):
    def __init__(self):
        super().__init__(level=logging.DEBUG)
        self.records = []

    def emit(self, record):
        self.records.append((record.name, record.levelname, record.getMessage()))


def capture_logs():
    cap = Capture()
    logger = logging.getLogger("rv")
    logger.addHandler(cap)
    logger.setLevel(logging.DEBUG)
    return cap


def release_logs(cap):
    logger = logging.getLogger("rv")
    logger.removeHandler(cap)
    logger.setLevel(logging.NOTSET)


def module_chunks(mtype, name, flags, x, y, links=None, cvals=(), extra=()):
    out = [
        (b"SFFF", u32(flags)),
        (b"SNAM", name.encode() + b"\0" * (32 - len(name))),
    ]
    if mtype is not None:
        out.append((b"STYP", mtype.encode() + b"\0"))
    out += [
        (b"SFIN", i32(-3)),
        (b"SREL", i32(2)),
        (b"SXXX", i32(x)),
        (b"SYYY", i32(y)),
        (b"SZZZ", u32(1)),
        (b"SSCL", u32(256)),
        (b"SCOL", bytes([10, 20, 30])),
        (b"SMII", u32((5 << 1) | 1)),
        (b"SMIC", i32(3)),
        (b"SMIB", i32(-1)),
        (b"SMIP", i32(7)),
    ]
    out += list(extra)
    if links is not None:
        out.append((b"SLNK", b"".join(i32(v) for v in links)))
    out += [(b"CVAL", i32(v)) for v in cvals]
    out.append((b"SEND", b""))
    return out



from rv.modules import MODULE_CLASSES
from rv.modules.metamodule import MAX_USER_DEFINED_CONTROLLERS

SYNTHS = sorted(FILES.glob("*.sunsynth"))


def cstr(data):
    """Independent NUL-terminated decode."""
    out = bytearray()
    for b in data:
        if b == 0:
            break
        out.append(b)
    return out.decode("utf8")


def expected_keys(mtype):
    mod = MODULE_CLASSES[mtype]()
    keys = [n for n, c in mod.controllers.items() if c.attached(mod)]
    if mtype == "MetaModule":
        keys += ["user_defined_%d" % (i + 1) for i in range(MAX_USER_DEFINED_CONTROLLERS)]
    return keys


def load_logged(raw):
    cap = capture_logs()
    try:
        obj = load(raw)
    finally:
        release_logs(cap)
    recs = [(lvl, msg) for (name, lvl, msg) in cap.records if name == "rv.readers.module"]
    return obj, recs


def cval_info(items):
    idx = [i for i, (n, _) in enumerate(items) if n == b"CVAL"]
    vals = [struct.unpack("<i", items[i][1])[0] for i in idx]
    mtype = cstr([d for n, d in items if n == b"STYP"][0])
    return idx, vals, mtype


def expected_cval_log(keys, vals):
    out = []
    for cnum in range(len(vals) - 1, -1, -1):
        if cnum < len(keys):
            out.append(("DEBUG", "Setting %s from raw %s" % (keys[cnum], vals[cnum])))
        else:
            out.append(
                ("WARNING", "Unsupported controller at index %s with raw value %s" % (cnum, vals[cnum]))
            )
    return out


NESTED = ("MetaModule", "Sampler")  # these embed further files read by nested readers


def log_matches(mtype, recs, expected):
    if mtype in NESTED:
        return recs[len(recs) - len(expected) :] == expected
    return recs == expected


def test_cvals_on_fixtures():
    cases = 0
    surplus_tested = []
    for path in SYNTHS:
        items = parse(path.read_bytes())
        idx, vals, mtype = cval_info(items)
        keys = expected_keys(mtype)
        synth, recs = load_logged(encode(items))
        mod = synth.module
        check(mod.mtype == mtype and type(mod) is MODULE_CLASSES[mtype], "%s: type" % path.name)
        check(log_matches(mtype, recs, expected_cval_log(keys, vals)), "%s: CVAL assignment log" % path.name)
        full = {k: repr(getattr(mod, k)) for k in mod.controllers}
        fresh = MODULE_CLASSES[mtype]()
        # drop the last k CVAL chunks
        for keep in range(len(idx), -1, -1):
            drop = set(idx[keep:])
            cut = [it for i, it in enumerate(items) if i not in drop]
            s2, recs2 = load_logged(encode(cut))
            cases += 1
            check(
                log_matches(mtype, recs2, expected_cval_log(keys, vals[:keep])),
                "%s: log with %d CVALs" % (path.name, keep),
            )
            m2 = s2.module
            names = list(m2.controllers)
            plain = [k for k in keys if k in names]
            for pos, k in enumerate(plain):
                if pos >= keep:
                    if mtype != "MetaModule":
                        check(
                            repr(getattr(m2, k)) == repr(getattr(fresh, k)),
                            "%s: %s keeps default with %d CVALs" % (path.name, k, keep),
                        )
            snap = snap_module(m2)
            ref = snap_module(mod)
            for key in ("class", "name", "flags", "x", "y", "color", "in_links", "specialized", "cmid"):
                if mtype == "MetaModule" and key == "specialized":
                    continue
                check(snap[key] == ref[key], "%s: %s unaffected by CVAL count" % (path.name, key))
        # extra CVALs beyond the controllers the type has
        if len(vals) < len(keys):
            continue  # older fixture: surplus values would land on real controllers
        surplus_tested.append(path.name)
        last = idx[-1] if idx else [i for i, (n, _) in enumerate(items) if n == b"SEND"][0] - 1
        extra_vals = [7, -9, 123456]
        more = items[: last + 1] + [(b"CVAL", i32(v)) for v in extra_vals] + items[last + 1 :]
        s3, recs3 = load_logged(encode(more))
        check(
            log_matches(mtype, recs3, expected_cval_log(keys, vals + extra_vals)),
            "%s: log with surplus CVALs" % path.name,
        )
        check(
            {k: repr(getattr(s3.module, k)) for k in s3.module.controllers} == full,
            "%s: surplus CVALs change nothing" % path.name,
        )
    check(len(surplus_tested) > 30, "too few surplus cases: %d" % len(surplus_tested))
    check(cases > 300, "too few truncation cases: %d" % cases)


def test_text_chunks():
    base = parse((FILES / "amplifier.sunsynth").read_bytes())

    def with_chunk(name, data, after=b"STYP"):
        out = [it for it in base if it[0] != name]
        pos = [i for i, (n, _) in enumerate(out) if n == after][0]
        return encode(out[: pos + 1] + [(name, data)] + out[pos + 1 :])

    def with_name_before_type(data):
        out = [it for it in base if it[0] != b"SNAM"]
        pos = [i for i, (n, _) in enumerate(out) if n == b"STYP"][0]
        return encode(out[:pos] + [(b"SNAM", data)] + out[pos:])

    samples = [
        b"plain",
        b"padded\0\0\0\0\0\0",
        b"stop\0here\0",
        b"\0hidden",
        b"",
        b"\0",
        "café ♫".encode("utf8") + b"\0junk\xff\xfe",
        b"x" * 32,
        b" spaced \0",
    ]
    for data in samples:
        want = cstr(data)
        check(load(with_name_before_type(data)).module.name == want, "SNAM %r" % data)
        check(load(with_chunk(b"SMIN", data)).module.midi_out_name == want, "SMIN %r" % data)
    # SNAM after STYP lands on the typed module too
    check(load(with_chunk(b"SNAM", b"late\0")).module.name == "late", "late SNAM")
    # STYP with padding / trailing garbage after the NUL
    for data in (b"Amplifier", b"Amplifier\0", b"Amplifier\0\0\0garbage"):
        out = [(n, data if n == b"STYP" else d) for n, d in base]
        m = load(encode(out)).module
        check(type(m).__name__ == "Amplifier" and m.mtype == "Amplifier", "STYP %r" % data)
    # invalid UTF-8 before the NUL -> UnicodeDecodeError; unknown type -> KeyError
    for name in (b"SNAM", b"SMIN"):
        try:
            load(with_chunk(name, b"\xff\xfe\0"))
            check(False, "%r invalid utf8 should raise" % name)
        except UnicodeDecodeError:
            pass
    for bad in (b"NoSuchModule\0", b"", b"\0Amplifier", b"amplifier\0"):
        out = [(n, bad if n == b"STYP" else d) for n, d in base]
        try:
            load(encode(out))
            check(False, "unknown STYP %r should raise" % bad)
        except KeyError as e:
            check(e.args == (cstr(bad),), "KeyError arg for %r" % bad)
    # flags/name captured before STYP are carried over, flags OR-ed with defaults
    out = [(n, u32(0x12340000) if n == b"SFFF" else d) for n, d in base]
    m = load(encode(out)).module
    check(m.flags == 0x12340000 | type(m)().default_flags, "flags carried over")
    # every known type name can be selected, controllers list follows the type
    for mtype, cls in MODULE_CLASSES.items():
        if mtype in ("Output", "Sampler"):
            continue  # Sampler needs its data chunks to finish loading
        out = [(n, mtype.encode() + b"\0" if n == b"STYP" else d) for n, d in base if n not in (b"CVAL", b"CMID")]
        m = load(encode(out)).module
        check(type(m) is cls and m.mtype == mtype, "type %s" % mtype)


def test_link_chunks():
    def project(links_chunks):
        items = [(b"SVOX", b""), (b"VERS", bytes([1, 2, 1, 2]))]
        items += module_chunks(None, "Output", 0x43, 0, 0, links=None)[:-1]
        items += links_chunks + [(b"SEND", b"")]
        for i in range(1, 4):
            items += module_chunks("Amplifier", "a%d" % i, 0x51, i, i, links=[])
        return encode(items)

    def pk(*vals):
        return b"".join(i32(v) for v in vals)

    out = load(project([(b"SLNK", pk(1, 2, 3))])).modules[0]
    check(out.in_links == [1, 2, 3] and out.in_link_slots == [0, 0, 0], "plain SLNK")
    out = load(project([(b"SLNK", pk(1, -1, 3, -1, -1))])).modules[0]
    check(out.in_links == [1, -1, 3] and out.in_link_slots == [0, -1, 0], "trailing -1 trimmed, inner kept")
    out = load(project([(b"SLNK", pk(-1, -1, -1))])).modules[0]
    check(out.in_links == [] and out.in_link_slots == [], "all -1")
    out = load(project([(b"SLNK", b"")])).modules[0]
    check(out.in_links == [], "empty SLNK")
    out = load(project([])).modules[0]
    check(out.in_links == [] and out.in_link_slots == [], "absent SLNK")
    p = load(project([(b"SLNK", pk(1, 2, 3)), (b"SLnK", pk(2, 0, 1))]))
    out = p.modules[0]
    check(out.in_link_slots == [2, 0, 1], "explicit SLnK")
    check(p.modules[1].out_links == [-1, -1, 0] and p.modules[2].out_links == [0], "slots honoured")
    out = load(project([(b"SLNK", pk(1, 2, -1, -1)), (b"SLnK", pk(1, 0, -1, -1))])).modules[0]
    check(out.in_links == [1, 2] and out.in_link_slots == [1, 0], "both trimmed")
    # SLnK of only -1 is trimmed to nothing, so slots are synthesised
    out = load(project([(b"SLNK", pk(1, 2)), (b"SLnK", pk(-1, -1))])).modules[0]
    check(out.in_link_slots == [0, 0], "all -1 SLnK ignored")
    # two SLNK chunks accumulate
    out = load(project([(b"SLNK", pk(1, -1)), (b"SLNK", pk(2))])).modules[0]
    check(out.in_links == [1, 2], "SLNK accumulates after trimming: %r" % out.in_links)
    # large values survive (signed 32-bit)
    p = None
    items = parse((FILES / "amplifier.sunsynth").read_bytes())
    pos = [i for i, (n, _) in enumerate(items) if n == b"STYP"][0]
    big = items[: pos + 1] + [(b"SLNK", pk(2147483647, -2147483648, 5)), (b"SLnK", pk(7, -1, -2))] + items[pos + 1 :]
    m = load(encode(big)).module
    check(m.in_links == [2147483647, -2147483648, 5] and m.in_link_slots == [7, -1, -2], "int32 range")
    # ragged payloads -> struct.error
    for name in (b"SLNK", b"SLnK"):
        for payload in (b"\x01", b"\x01\x02\x03", pk(1) + b"\x00", pk(1, 2) + b"\x00\x00\x00"):
            bad = items[: pos + 1] + [(name, payload)] + items[pos + 1 :]
            try:
                load(encode(bad))
                check(False, "%r %r should raise" % (name, payload))
            except struct.error:
                pass


def test_scalar_chunks():
    items = parse((FILES / "generator.sunsynth").read_bytes())
    pos = [i for i, (n, _) in enumerate(items) if n == b"STYP"][0]
    drop = {b"SFIN", b"SREL", b"SXXX", b"SYYY", b"SZZZ", b"SSCL", b"SVPR", b"SCOL", b"SMII", b"SMIC", b"SMIB", b"SMIP", b"SMIN"}
    base = [it for it in items if it[0] not in drop]
    fresh = MODULE_CLASSES["Generator"]()
    m0 = load(encode(base)).module
    for a in ("mod_finetune", "mod_relative_note", "x", "y", "layer", "mod_scale", "midi_in_always", "midi_in_channel", "midi_out_name", "midi_out_channel", "midi_out_bank", "midi_out_program"):
        check(getattr(m0, a) == getattr(fresh, a), "absent chunk -> default %s" % a)
    check(tuple(m0.color) == tuple(fresh.color), "absent SCOL -> default colour")
    check(int(m0.visualization) == int(fresh.visualization), "absent SVPR -> default")
    vals = [
        (b"SFIN", i32(-256), "mod_finetune", -256),
        (b"SREL", i32(-12), "mod_relative_note", -12),
        (b"SXXX", i32(-2000), "x", -2000),
        (b"SYYY", i32(3000), "y", 3000),
        (b"SZZZ", u32(7), "layer", 7),
        (b"SSCL", u32(512), "mod_scale", 512),
        (b"SMIC", i32(15), "midi_out_channel", 15),
        (b"SMIB", i32(-1), "midi_out_bank", -1),
        (b"SMIP", i32(127), "midi_out_program", 127),
    ]
    for name, payload, attr, want in vals:
        for where in (pos + 1, pos + 3, len(base) - 1):  # after STYP ... just before SEND
            m = load(encode(base[:where] + [(name, payload)] + base[where:])).module
            check(getattr(m, attr) == want, "%s -> %s" % (name, attr))
    m = load(encode(base[: pos + 1] + [(b"SMII", u32((9 << 1) | 0))] + base[pos + 1 :])).module
    check(m.midi_in_always is False and m.midi_in_channel == 9, "SMII even")
    m = load(encode(base[: pos + 1] + [(b"SMII", u32(1))] + base[pos + 1 :])).module
    check(m.midi_in_always is True and m.midi_in_channel == 0, "SMII odd")
    m = load(encode(base[: pos + 1] + [(b"SCOL", bytes([255, 0, 128]))] + base[pos + 1 :])).module
    check(tuple(m.color) == (255, 0, 128), "SCOL")
    m = load(encode(base[: pos + 1] + [(b"SVPR", u32(0x0C0A0321))] + base[pos + 1 :])).module
    check(int(m.visualization) == 0x0C0A0321, "SVPR")


def test_data_chunks_and_unknowns():
    names = ["sampler.sunsynth", "metamodule.sunsynth", "analog-generator.sunsynth", "vorbis-player.sunsynth", "waveshaper.sunsynth", "multisynth.sunsynth", "drum-synth.sunsynth"]
    junk = [(b"CHXX", b"\x01\x02"), (b"CVAX", i32(5)), (b"slnk", i32(1))]
    for name in names:
        items = parse((FILES / name).read_bytes())
        ref = snapshot(load(encode(items)))
        n = len(items)
        for pos in range(1, n + 1):
            mutated = items[:pos] + [junk[pos % 3]] + items[pos:]
            if snapshot(load(encode(mutated))) != ref:
                check(False, "%s: unknown chunk at %d changed the result" % (name, pos))
                break
        # dropping the data chunks leaves a module that still loads, with the same controllers
        chn = {b"CHNK", b"CHNM", b"CHDT", b"CHFF", b"CHFR"}
        bare = [it for it in items if it[0] not in chn]
        if name not in ("metamodule.sunsynth", "sampler.sunsynth"):
            m = load(encode(bare)).module
            check(
                {k: repr(getattr(m, k)) for k in m.controllers} == ref["module"]["controllers"],
                "%s: controllers independent of data chunks" % name,
            )
    # CHNK count is recorded; a CHDT without CHNM is an error on None
    items = parse((FILES / "sampler.sunsynth").read_bytes())
    m = load(encode(items)).module
    chnk = [struct.unpack("<I", d)[0] for n_, d in items if n_ == b"CHNK"]
    check(getattr(m, "_reader_chnk", None) == chnk[-1], "CHNK value recorded")
    first = [i for i, (n_, _) in enumerate(items) if n_ == b"CHNM"][0]
    broken = items[:first] + items[first + 1 :]
    try:
        load(encode(broken))
        check(False, "CHDT before any CHNM should fail")
    except AttributeError:
        pass


def test_projects_modules_equal_synth_modules():
    # the same module section decodes identically inside a project
    for path in SYNTHS:
        items = parse(path.read_bytes())
        start = [i for i, (n, _) in enumerate(items) if n == b"SFFF"][0]
        section = items[start:]
        if section[-1][0] != b"SEND":
            section = section + [(b"SEND", b"")]
        proj_items = [(b"SVOX", b""), (b"VERS", bytes([1, 2, 1, 2]))]
        proj_items += module_chunks(None, "Output", 0x43, 0, 0, links=[])
        proj_items += section
        proj, recs = load_logged(encode(proj_items))
        synth, recs_s = load_logged(encode(items))
        a, b = snap_module(proj.modules[1]), snap_module(synth.module)
        for key in ("index",):
            a.pop(key), b.pop(key)
        check(a == b, "%s: module equal in project and synth: %s" % (path.name, diff_keys(a, b)))
        check(recs == recs_s, "%s: same reader log in both containers" % path.name)


def main():
    test_cvals_on_fixtures()
    test_text_chunks()
    test_link_chunks()
    test_scalar_chunks()
    test_data_chunks_and_unknowns()
    test_projects_modules_equal_synth_modules()
    if FAILURES:
        print("%d failure(s)" % len(FAILURES))
        sys.exit(1)
    print("PASS")


if __name__ == "__main__":
    main()
