"""Behaviour check for the writer side of the project round trip:
rv.lib.iff.write_chunk / chunks, Module.iff_chunks / options_chunks,
Pattern.iff_chunks / raw_data and PatternClone.iff_chunks.

Everything is compared either against values computed independently in this
script or against digests recorded from the unchanged tree.

Passes on the unchanged tree and with the refactoring applied.
"""
import hashlib
import random
import struct
import sys
from io import BytesIO
from types import GeneratorType

from rv.api import m
from rv.lib.iff import chunks, write_chunk
from rv.modules import MODULE_CLASSES, Module
from rv.note import NOTECMD, Note
from rv.pattern import Pattern, PatternClone
from rv.project import Project
from rv.readers.reader import read_sunvox_file
from rv.synth import Synth

FAILURES = []


def expect(cond, msg):
    if not cond:
        FAILURES.append(msg)
        print("FAIL:", msg)


def raises(exc_type, fn, *args, **kw):
    try:
        fn(*args, **kw)
    except exc_type as e:
        return type(e) is exc_type or isinstance(e, exc_type)
    except Exception as e:  # noqa
        print("unexpected", type(e).__name__, e)
        return False
    return False


def save(container):
    f = BytesIO()
    container.write_to(f)
    return f.getvalue()


def load(blob):
    return read_sunvox_file(BytesIO(blob))


# -- rv.lib.iff ----------------------------------------------------------------


class Recorder:
    def __init__(self):
        self.writes = []

    def write(self, data):
        self.writes.append(data)
        return len(data)


def test_write_chunk():
    for name, padded in [
        (b"", b"    "),
        (b"A", b"A   "),
        (b"AB", b"AB  "),
        (b"ABC", b"ABC "),
        (b"ABCD", b"ABCD"),
        (b"ABCDE", b"ABCD"),
        (b"ABCDEFGH", b"ABCD"),
        (b"BPM ", b"BPM "),
        (b"A B", b"A B "),
        (b"\0", b"\0   "),
    ]:
        for data in (b"", b"x", b"hello world", bytes(range(256)) * 3):
            rec = Recorder()
            ret = write_chunk(rec, name, data)
            expect(ret is None, "write_chunk returns None")
            expect(
                rec.writes == [padded, struct.pack("<I", len(data)), data],
                "write_chunk(%r, %d bytes) writes name/size/data: %r"
                % (name, len(data), rec.writes[:2]),
            )
            f = BytesIO()
            write_chunk(f, name, data)
            expect(
                f.getvalue() == padded + struct.pack("<I", len(data)) + data,
                "write_chunk bytes for %r" % (name,),
            )
    for data in (None, b"", b"data", 12):
        rec = Recorder()
        expect(write_chunk(rec, None, data) is None, "None name returns None")
        expect(rec.writes == [], "None name writes nothing")
    rec = Recorder()
    expect(raises(TypeError, write_chunk, rec, b"ABCD", None), "data None -> TypeError")
    expect(rec.writes == [], "nothing written when data has no length")
    rec = Recorder()
    expect(raises(TypeError, write_chunk, rec, "ABC", b"x"), "str name -> TypeError")
    expect(rec.writes == [], "nothing written for str name")
    # bytearray / memoryview payloads are passed through untouched
    rec = Recorder()
    payload = bytearray(b"abc")
    write_chunk(rec, b"CHDT", payload)
    expect(rec.writes[2] is payload, "payload object passed to write as is")


def test_chunks():
    def stream(*parts):
        return BytesIO(b"".join(parts))

    def ch(name, data):
        return name + struct.pack("<I", len(data)) + data

    g = chunks(BytesIO(b""))
    expect(isinstance(g, GeneratorType), "chunks is a generator")
    expect(list(g) == [], "empty file")
    body = ch(b"AAAA", b"") + ch(b"BB  ", b"12345") + ch(b"CCCC", b"\0" * 9)
    want = [(b"AAAA", b""), (b"BB  ", b"12345"), (b"CCCC", b"\0" * 9)]
    expect(list(chunks(BytesIO(body))) == want, "three chunks")
    # odd sizes are not aligned
    expect(
        list(chunks(stream(ch(b"ODD1", b"abc"), ch(b"NEXT", b"z"))))
        == [(b"ODD1", b"abc"), (b"NEXT", b"z")],
        "no alignment padding",
    )
    # trailing garbage shorter than a header ends iteration quietly
    for extra in range(1, 8):
        expect(
            list(chunks(BytesIO(body + b"ZZZZ\x01\x00\x00"[:extra]))) == want,
            "%d trailing bytes ignored" % extra,
        )
    # a truncated payload is yielded as far as it goes
    got = list(chunks(BytesIO(body + b"DDDD" + struct.pack("<I", 100) + b"short")))
    expect(got == want + [(b"DDDD", b"short")], "truncated payload: %r" % (got[-1],))
    # size zero at the very end
    expect(list(chunks(BytesIO(ch(b"PEND", b"")))) == [(b"PEND", b"")], "empty last chunk")
    # consumers may reposition the file between chunks (nested readers do)
    f = BytesIO(ch(b"AAAA", b"1234") + ch(b"BBBB", b"56") + ch(b"CCCC", b"789"))
    it = chunks(f)
    expect(next(it) == (b"AAAA", b"1234"), "first")
    expect(f.tell() == 12, "position after the first payload")
    f.seek(0)  # rewind: the generator continues from where the file now is
    expect(next(it) == (b"AAAA", b"1234"), "re-read after rewind")
    expect(next(it) == (b"BBBB", b"56"), "second")
    f.seek(0, 2)
    expect(raises(StopIteration, next, it), "stops at end of file")
    expect(raises(StopIteration, next, it), "stays stopped")
    # round trip with write_chunk
    rng = random.Random(3)
    items = [
        (bytes(rng.choice(b"ABCDEFGHabc 019") for _ in range(4)), rng.randbytes(rng.randrange(40)))
        for _ in range(200)
    ]
    f = BytesIO()
    for name, data in items:
        write_chunk(f, name, data)
    f.seek(0)
    expect(list(chunks(f)) == items, "write_chunk/chunks round trip")


# -- Module.iff_chunks ---------------------------------------------------------

NAMES = [
    "",
    "a",
    "Plain name",
    "x" * 31,
    "x" * 32,
    "x" * 33,
    "x" * 100,
    "é" * 15,
    "é" * 16,
    "é" * 17,
    "x" + "é" * 16,
    "日本語" * 4,
    "xx" + "日" * 10 + "tail",
    "x" * 29 + "\U0001f3b9",
    "x" * 28 + "\U0001f3b9",
    "x" * 30 + "日",
    "x" * 31 + "é",
    "\U0001f3b9" * 9,
    "tab\tand\nnewline",
]


def expected_name_field(name):
    raw = name.encode("utf8")
    if len(raw) > 32:
        cut = 32
        while cut > 0 and (raw[cut] & 0xC0) == 0x80:
            cut -= 1
        raw = raw[:cut]
    return raw + b"\0" * (32 - len(raw))


def expected_module_chunks(mod, in_project):
    out = [(b"SFFF", struct.pack("<I", mod.flags)), (b"SNAM", expected_name_field(mod.name))]
    if mod.mtype is not None and mod.mtype != "Output":
        out.append((b"STYP", mod.mtype.encode("utf8") + b"\0"))
    out.append((b"SFIN", struct.pack("<i", mod.mod_finetune)))
    out.append((b"SREL", struct.pack("<i", mod.mod_relative_note)))
    if in_project:
        out.append((b"SXXX", struct.pack("<i", mod.x)))
        out.append((b"SYYY", struct.pack("<i", mod.y)))
        out.append((b"SZZZ", struct.pack("<i", mod.layer)))
    out.append((b"SSCL", struct.pack("<I", mod.mod_scale)))
    if in_project:
        out.append((b"SVPR", struct.pack("<I", int(mod.visualization))))
    out.append((b"SCOL", bytes(mod.color)))
    out.append((b"SMII", struct.pack("<I", int(mod.midi_in_always) + mod.midi_in_channel * 2)))
    if mod.midi_out_name:
        out.append((b"SMIN", mod.midi_out_name.encode("utf8") + b"\0"))
    out.append((b"SMIC", struct.pack("<I", mod.midi_out_channel)))
    out.append((b"SMIB", struct.pack("<i", mod.midi_out_bank)))
    out.append((b"SMIP", struct.pack("<i", mod.midi_out_program)))
    return out


def random_module(rng, cls):
    mod = cls(
        name=rng.choice(NAMES),
        x=rng.choice([0, -1, 512, -(2**31), 2**31 - 1, rng.randint(-5000, 5000)]),
        y=rng.choice([0, -1, 512, -(2**31), 2**31 - 1, rng.randint(-5000, 5000)]),
        layer=rng.randint(0, 7),
        mod_scale=rng.choice([0, 256, 2**32 - 1, rng.randint(0, 1024)]),
        color=(rng.randrange(256), rng.randrange(256), rng.randrange(256)),
        midi_in_always=rng.random() < 0.5,
        midi_in_channel=rng.randint(0, 16),
        midi_out_name=rng.choice([None, "", "Port 1", "über port"]),
        midi_out_channel=rng.randint(0, 16),
        midi_out_bank=rng.randint(-1, 16383),
        midi_out_program=rng.randint(-1, 127),
        visualization=rng.randrange(2**32),
    )
    # (not passed as keywords: some types have controllers with these names)
    mod.mod_finetune = rng.randint(-256, 256)
    mod.mod_relative_note = rng.randint(-64, 64)
    return mod


def test_module_iff_chunks():
    rng = random.Random(99)
    for mtype, cls in sorted(MODULE_CLASSES.items()):
        for _ in range(6):
            mod = random_module(rng, cls)
            mod.flags = rng.randrange(2**32)
            gen = mod.iff_chunks()
            expect(isinstance(gen, GeneratorType), "iff_chunks is a generator")
            expect(list(gen) == expected_module_chunks(mod, False), "%s detached" % mtype)
            for flag in (True, False, 1, 0, "yes", ""):
                expect(
                    list(mod.iff_chunks(in_project=flag))
                    == expected_module_chunks(mod, bool(flag)),
                    "%s in_project=%r" % (mtype, flag),
                )
            if mtype != "Output":
                p = Project()
                p.attach_module(mod)
                expect(
                    list(mod.iff_chunks()) == expected_module_chunks(mod, True),
                    "%s attached" % mtype,
                )
                expect(
                    list(mod.iff_chunks(in_project=False))
                    == expected_module_chunks(mod, False),
                    "%s attached but forced out" % mtype,
                )
    for name in NAMES:
        g = m.Generator(name=name)
        field = dict(g.iff_chunks())[b"SNAM"]
        expect(field == expected_name_field(name), "SNAM for %r: %r" % (name, field))
        expect(len(field) == 32, "SNAM is 32 bytes")
        field.rstrip(b"\0").decode("utf8")  # always valid UTF-8
    expect(raises(RuntimeError, lambda: list(Module().iff_chunks())), "base Module refuses")
    # errors surface lazily, at the chunk that cannot be encoded
    bad = m.Generator()
    bad.mod_scale = -1
    it = bad.iff_chunks(in_project=True)
    seen = []
    try:
        for tag, _ in it:
            seen.append(tag)
    except struct.error:
        pass
    else:
        expect(False, "negative scale must raise struct.error")
    expect(
        seen == [b"SFFF", b"SNAM", b"STYP", b"SFIN", b"SREL", b"SXXX", b"SYYY", b"SZZZ"],
        "chunks before the failing one: %r" % (seen,),
    )
    for attr, value in [
        ("flags", -1),
        ("flags", 2**32),
        ("x", 2**31),
        ("y", -(2**31) - 1),
        ("layer", 2**31),
        ("mod_finetune", 2**40),
        ("color", (1, 2)),
        ("color", (1, 2, 3, 4)),
        ("color", (1, 2, 256)),
        ("midi_in_channel", 2**31),
        ("midi_out_channel", -1),
        ("midi_out_bank", 2**31),
        ("midi_out_program", "x"),
    ]:
        mod = m.Generator()
        setattr(mod, attr, value)
        expect(
            raises(struct.error, lambda: list(mod.iff_chunks(in_project=True))),
            "%s=%r -> struct.error" % (attr, value),
        )
    mod = m.Generator()
    mod.name = None
    expect(raises(AttributeError, lambda: list(mod.iff_chunks())), "name None -> AttributeError")
    mod = m.Generator()
    mod.midi_in_channel = None
    expect(raises(TypeError, lambda: list(mod.iff_chunks())), "channel None -> TypeError")


def test_options_chunks():
    rng = random.Random(5)
    h = hashlib.sha256()
    for mtype, cls in sorted(MODULE_CLASSES.items()):
        if not cls.options:
            continue
        for _ in range(25):
            mod = cls()
            for name, opt in mod.options.items():
                if rng.random() < 0.7:
                    try:
                        if opt.size == 1:
                            setattr(mod, name, rng.random() < 0.5)
                        else:
                            setattr(mod, name, rng.randrange(1 << opt.size))
                    except Exception:  # noqa
                        pass
            got = list(mod.options_chunks())
            size = max(o.byte for o in mod.options.values()) + 1
            want = bytearray(size)
            for o in mod.options.values():
                v = int(mod.option_values[o.name]) & ((1 << o.size) - 1)
                want[o.byte] |= v << o.bit
            expect(
                got == [(b"CHNM", struct.pack("<I", cls.options_chnm)), (b"CHDT", bytes(want))],
                "%s options chunks" % mtype,
            )
            h.update(repr(got).encode())
            # and they load back
            if mtype != "Sampler":
                s = load(save(Synth(mod))).module
                expect(
                    {k: int(v) for k, v in s.option_values.items()}
                    == {k: int(v) for k, v in mod.option_values.items()},
                    "%s options round trip" % mtype,
                )
    mod = m.MultiSynth()
    first = next(iter(mod.options))
    mod.option_values[first] = None
    expect(raises(TypeError, lambda: list(mod.options_chunks())), "None option -> TypeError")
    return h.hexdigest()


# -- Pattern -----------------------------------------------------------------------


def fill(pat, rng):
    for line in pat.data:
        for n in line:
            if rng.random() < 0.6:
                n.note = NOTECMD(rng.randint(0, 120))
                n.vel = rng.randint(0, 129)
                n.module = rng.randint(0, 0xFFFF)
                n.ctl = rng.randint(0, 0xFFFF)
                n.val = rng.randint(0, 0xFFFF)


def cells(pat):
    return [[(int(n.note), n.vel, n.module, n.ctl, n.val) for n in line] for line in pat.data]


def test_pattern_chunks():
    rng = random.Random(11)
    for tracks, lines in [(1, 1), (1, 7), (4, 32), (3, 5), (32, 2), (16, 16), (2, 130)]:
        for name in (None, "", "Pattern name", "名前"):
            pat = Pattern(
                name=name,
                tracks=tracks,
                lines=lines,
                y_size=rng.randrange(2**32),
                flags_PFLG=rng.randrange(4),
                icon=rng.randbytes(32),
                fg_color=(rng.randrange(256), rng.randrange(256), rng.randrange(256)),
                bg_color=(rng.randrange(256), rng.randrange(256), rng.randrange(256)),
                flags_PFFF=rng.choice([0, 2, 8, 0x10, 0x1A]),
                x=rng.choice([0, -4, 2**31 - 1, -(2**31), rng.randint(-999, 999)]),
                y=rng.choice([0, -32, rng.randint(-999, 999)]),
            )
            fill(pat, rng)
            raw = b"".join(
                struct.pack("<BBHHH", *cell) for line in cells(pat) for cell in line
            )
            expect(pat.raw_data == raw, "raw_data %dx%d" % (tracks, lines))
            expect(len(raw) == tracks * lines * 8, "raw_data length")
            want = [(b"PDTA", raw)]
            if name is not None:
                want.append((b"PNME", name.encode("utf8") + b"\0"))
            want += [
                (b"PCHN", struct.pack("<I", tracks)),
                (b"PLIN", struct.pack("<I", lines)),
                (b"PYSZ", struct.pack("<I", pat.y_size)),
                (b"PFLG", struct.pack("<I", pat.flags_PFLG)),
                (b"PICO", pat.icon),
                (b"PFGC", bytes(pat.fg_color)),
                (b"PBGC", bytes(pat.bg_color)),
                (b"PFFF", struct.pack("<I", pat.flags_PFFF)),
                (b"PXXX", struct.pack("<i", pat.x)),
                (b"PYYY", struct.pack("<i", pat.y)),
            ]
            gen = pat.iff_chunks()
            expect(isinstance(gen, GeneratorType), "Pattern.iff_chunks is a generator")
            expect(list(gen) == want, "pattern chunks %dx%d name=%r" % (tracks, lines, name))
            # setter is the inverse of the getter, cell by cell
            other = Pattern(tracks=tracks, lines=lines)
            other.raw_data = raw
            expect(cells(other) == cells(pat), "raw_data setter inverse")
            expect(all(n.pattern is other for l in other.data for n in l), "notes keep owner")
            # surplus bytes are ignored
            other = Pattern(tracks=tracks, lines=lines)
            other.raw_data = raw + b"\xff" * 13
            expect(cells(other) == cells(pat), "surplus bytes ignored")
            # bytearray / memoryview input
            other = Pattern(tracks=tracks, lines=lines)
            other.raw_data = memoryview(bytearray(raw))
            expect(cells(other) == cells(pat), "memoryview input")
    # short input: cells before the cut are set, then struct.error
    pat = Pattern(tracks=3, lines=3)
    src = Pattern(tracks=3, lines=3)
    fill(src, random.Random(1))
    for n in (x for l in src.data for x in l):
        n.vel = 7
    raw = src.raw_data
    for cut in (0, 1, 8, 20, 24, 31, 71):
        pat = Pattern(tracks=3, lines=3)
        try:
            pat.raw_data = raw[:cut]
        except struct.error:
            pass
        else:
            expect(False, "short raw_data (%d) must raise struct.error" % cut)
        flat_got = [c for l in cells(pat) for c in l]
        flat_src = [c for l in cells(src) for c in l]
        whole = cut // 8
        expect(flat_got[:whole] == flat_src[:whole], "cells before cut %d applied" % cut)
        expect(
            flat_got[whole:] == [(0, 0, 0, 0, 0)] * (9 - whole),
            "cells after cut %d untouched" % cut,
        )
    # a pattern whose geometry was changed after its cells were created
    pat = Pattern(tracks=2, lines=2)
    pat.data  # create cells
    pat.lines = 3
    expect(raises(IndexError, setattr, pat, "raw_data", bytes(48)), "stale cells -> IndexError")
    # out-of-range fields fail lazily with struct.error
    pat = Pattern()
    pat.x = 2**31
    seen = []
    try:
        for tag, _ in pat.iff_chunks():
            seen.append(tag)
    except struct.error:
        pass
    else:
        expect(False, "x out of range must raise struct.error")
    expect(seen[-1] == b"PFFF" and seen[0] == b"PDTA" and len(seen) == 9, "chunks before PXXX: %r" % (seen,))
    pat = Pattern()
    pat.fg_color = (1, 2)
    expect(raises(struct.error, lambda: list(pat.iff_chunks())), "short colour")
    pat = Pattern()
    pat.tracks = -1
    expect(raises(struct.error, lambda: list(pat.iff_chunks())), "negative tracks")


def test_clone_chunks():
    for source, flags, x, y in [
        (0, 1, 0, 0),
        (3, 1, 32, -32),
        (2**32 - 1, 0x1B, 2**31 - 1, -(2**31)),
        (7, 0, -1, 1),
    ]:
        c = PatternClone(source=source, flags_PFFF=flags, x=x, y=y)
        gen = c.iff_chunks()
        expect(isinstance(gen, GeneratorType), "PatternClone.iff_chunks is a generator")
        expect(
            list(gen)
            == [
                (b"PPAR", struct.pack("<I", source)),
                (b"PFFF", struct.pack("<I", flags)),
                (b"PXXX", struct.pack("<i", x)),
                (b"PYYY", struct.pack("<i", y)),
            ],
            "clone chunks %r" % ((source, flags, x, y),),
        )
    c = PatternClone(source=0)
    expect(list(c.iff_chunks())[1] == (b"PFFF", struct.pack("<I", 1)), "clone default flag")
    expect(raises(struct.error, lambda: list(PatternClone(source=-1).iff_chunks())), "source -1")
    expect(raises(struct.error, lambda: list(PatternClone(source=0, y=2**31).iff_chunks())), "y big")


# -- whole files ---------------------------------------------------------------


def test_project_bytes():
    rng = random.Random(2718)
    h = hashlib.sha256()
    classes = [c for t, c in sorted(MODULE_CLASSES.items()) if t != "Output"]
    for i in range(40):
        p = Project()
        p.name = rng.choice(NAMES)
        mods = [p.output]
        for _ in range(rng.randint(1, 6)):
            if rng.random() < 0.15:
                p.attach_module(None)
                continue
            try:
                mod = random_module(rng, rng.choice(classes))
            except Exception:  # noqa
                continue
            p.attach_module(mod, loading=rng.random() < 0.5)
            mods.append(mod)
        for _ in range(rng.randint(0, 8)):
            a, b = rng.choice(mods), rng.choice(mods)
            if a is not b and a is not p.output:
                p.connect(a, b)
        for _ in range(rng.randint(0, 3)):
            kind = rng.random()
            if kind < 0.2:
                p.attach_pattern(None)
            elif kind < 0.4 and p.patterns and p.patterns[0] is not None:
                p.attach_pattern(PatternClone(source=0, x=rng.randint(-64, 64), y=rng.randint(-64, 64)))
            else:
                pat = Pattern(
                    name=rng.choice([None, "p", "パターン"]),
                    tracks=rng.randint(1, 5),
                    lines=rng.randint(1, 9),
                    x=rng.randint(-64, 64),
                    y=rng.randint(-64, 64),
                )
                fill(pat, rng)
                p.attach_pattern(pat)
        blob = save(p)
        expect(blob == p.read(), "read() equals write_to() output")
        h.update(blob)
        # every chunk the independent parser sees is what the library parser sees
        lib = list(chunks(BytesIO(blob)))
        mine, pos = [], 0
        while pos < len(blob):
            (size,) = struct.unpack("<I", blob[pos + 4 : pos + 8])
            mine.append((blob[pos : pos + 4], blob[pos + 8 : pos + 8 + size]))
            pos += 8 + size
        expect(pos == len(blob) and lib == mine, "project %d: chunk stream well formed" % i)
        expect(lib[0] == (b"SVOX", b""), "magic chunk first")
        q = load(blob)
        blob2 = save(q)
        h.update(blob2)
        expect(save(load(blob2)) == blob2, "project %d: second generation is stable" % i)
        for a, b in zip(p.patterns, q.patterns):
            if isinstance(a, Pattern):
                expect(cells(a) == cells(b), "project %d: note cells" % i)
                expect((a.name, a.tracks, a.lines, a.x, a.y) == (b.name, b.tracks, b.lines, b.x, b.y), "pattern header")
            elif a is None:
                expect(b is None, "empty pattern slot")
            else:
                expect((a.source, a.x, a.y, a.flags_PFFF) == (b.source, b.x, b.y, b.flags_PFFF), "clone")
        expect(len(p.patterns) == len(q.patterns), "pattern count")
        for a, b in zip(p.modules, q.modules):
            if a is None:
                expect(b is None, "empty module slot")
                continue
            expect(
                list(b.iff_chunks())[1:] == list(a.iff_chunks())[1:],
                "project %d: module header chunks equal after reload" % i,
            )
            expect(b.name == expected_name_field(a.name).rstrip(b"\0").decode("utf8"), "module name")
    return h.hexdigest()


OPTIONS_GOLDEN = "f9d5f9fd24c8386a4065978b517231adeeebb3c743a82093e16aab57596b5a25"
BYTES_GOLDEN = "cb4fe0fd73733e5f39d5824afab6069c156cdf51388e329d457defa2ab6b1fb6"


def main():
    import logging

    logging.getLogger("rv").setLevel(logging.ERROR)
    test_write_chunk()
    test_chunks()
    test_module_iff_chunks()
    options_digest = test_options_chunks()
    test_pattern_chunks()
    test_clone_chunks()
    bytes_digest = test_project_bytes()
    if "--print-golden" in sys.argv:
        print("options:", options_digest)
        print("bytes:", bytes_digest)
    else:
        expect(options_digest == OPTIONS_GOLDEN, "options digest %s" % options_digest)
        expect(bytes_digest == BYTES_GOLDEN, "project bytes digest %s" % bytes_digest)
    if FAILURES:
        print("%d FAILURE(S)" % len(FAILURES))
        sys.exit(1)
    print("PASS")


if __name__ == "__main__":
    main()
