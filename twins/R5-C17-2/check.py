"""Behaviour check for ArrayChunk, WaveformChunk and Sampler envelopes.

Run from the repository root:
    PYTHONPATH=<root>/src/python python check.py
Prints PASS and exits 0 when everything behaves as documented here.
"""
import io
import os
import struct
import sys
from struct import pack

from rv.api import Synth, m, read_sunvox_file
from rv.chunks import ArrayChunk, DrawnWaveformChunk, WaveformChunk

FAILURES = []


def check(cond, msg):
    if not cond:
        FAILURES.append(msg)


def raises(exc_type, fn, *args):
    try:
        fn(*args)
    except exc_type:
        return True
    except Exception as e:  # wrong type
        FAILURES.append(f"expected {exc_type.__name__}, got {type(e).__name__}: {e}")
        return True
    return False


def synth_bytes(mod):
    f = io.BytesIO()
    Synth(mod).write_to(f)
    return f.getvalue()


# --------------------------------------------------------------------------
# ArrayChunk with every kind of default


class NoDefault(ArrayChunk):
    chnm = 0
    length = 5
    type = "H"
    element_size = 2


class ScalarDefault(ArrayChunk):
    chnm = 1
    length = 4
    type = "B"
    element_size = 1
    default = 7


class ListDefault(ArrayChunk):
    chnm = 2
    length = 3
    type = "h"
    element_size = 2
    default = [1, -2, 3]


class FnDefault(ArrayChunk):
    chnm = 3
    length = 6
    type = "h"
    element_size = 2
    min_value = 2
    max_value = 9

    def default(self, x):
        return x * 3 - 3


class ZeroMin(ArrayChunk):
    chnm = 4
    length = 4
    type = "h"
    element_size = 2
    min_value = 0
    max_value = 10


class Pair:
    def __init__(self, value):
        self.a, self.b = value


class PairArray(ArrayChunk):
    chnm = 5
    length = 2
    type = "HH"
    element_size = 4
    python_type = Pair

    def default(self, _):
        return Pair((1, 2))

    @property
    def encoded_values(self):
        out = []
        for p in self.values:
            out += [p.a, p.b]
        return out


class FloatArray(ArrayChunk):
    chnm = 6
    length = 3
    type = "f"
    element_size = 4
    python_type = float
    default = 0


class PropertyDefault(ArrayChunk):
    chnm = 7
    length = 2
    type = "B"
    element_size = 1
    calls = 0

    @property
    def default(self):
        type(self).calls += 1
        return [4, 5]


def test_array_defaults():
    a = NoDefault()
    check(a.values == [0, 0, 0, 0, 0], "None default gives zeros")
    check(a.bytes == bytes(10) and a.chdt() == bytes(10), "zeros bytes")

    s1, s2 = ScalarDefault(), ScalarDefault()
    check(s1.values == [7, 7, 7, 7], "scalar default")
    check(s1.values is not s2.values, "scalar default lists shared")
    s1.values[0] = 1
    check(s2.values == [7, 7, 7, 7], "scalar default leak")
    check(s1.bytes == b"\x01\x07\x07\x07", "scalar bytes")

    l1, l2 = ListDefault(), ListDefault()
    check(l1.values == [1, -2, 3], "list default")
    check(l1.values is not ListDefault.default, "list default handed out")
    check(l1.values is not l2.values, "list default shared between instances")
    l1.values[1] = 99
    l1.values.append(5)
    check(ListDefault.default == [1, -2, 3], "class default mutated")
    check(l2.values == [1, -2, 3], "other instance mutated")
    check(ListDefault().values == [1, -2, 3], "new instance sees mutation")
    l1.reset()
    check(l1.values == [1, -2, 3], "reset restores list default")
    check(l1.values is not ListDefault.default, "reset hands out class list")
    check(l2.bytes == pack("<hhh", 1, -2, 3), "list bytes")

    f = FnDefault()
    # x*3-3 for x in 0..5 = -3 0 3 6 9 12, clamped to [2, 9]
    check(f.values == [2, 2, 3, 6, 9, 9], f"callable default clamped: {f.values}")
    f.values[0] = 100
    check(FnDefault().values == [2, 2, 3, 6, 9, 9], "callable default leak")
    f.reset()
    check(f.values == [2, 2, 3, 6, 9, 9], "callable reset")

    z = ZeroMin()
    check(z.values == [0, 0, 0, 0], "zero-min default")
    old = z.values
    z.set_via_fn(lambda x: [-5, 0, 7, 25][x])
    # a bound of 0 is "no bound": -5 stays, 25 is clamped to 10
    check(z.values == [-5, 0, 7, 10], f"zero min is not applied: {z.values}")
    check(z.values is not old and old == [0, 0, 0, 0], "set_via_fn builds a new list")

    def boom(x):
        if x == 2:
            raise RuntimeError("boom")
        return 1

    kept = z.values
    check(raises(RuntimeError, z.set_via_fn, boom), "set_via_fn error propagates")
    check(z.values is kept, "failed set_via_fn must leave values alone")

    seen = []
    n = NoDefault()
    n.set_via_fn(lambda x: seen.append(x) or x * 2)
    check(seen == [0, 1, 2, 3, 4] and n.values == [0, 2, 4, 6, 8], "fn call order")

    p = PairArray()
    check([(v.a, v.b) for v in p.values] == [(1, 2), (1, 2)], "pair default")
    check(p.values[0] is not p.values[1], "callable default called per element")
    check(p.bytes == pack("<HHHH", 1, 2, 1, 2), "pair bytes")

    PropertyDefault.calls = 0
    pd = PropertyDefault()
    check(pd.values == [4, 5], "property default")
    check(PropertyDefault.calls >= 1, "property default evaluated")


def test_array_bytes():
    a = NoDefault()
    a.bytes = pack("<HHHHH", 1, 2, 3, 4, 65535)
    check(a.values == [1, 2, 3, 4, 65535], "bytes setter")
    check(all(type(v) is int for v in a.values), "python_type int")
    prev = a.values
    a.bytes = pack("<HH", 9, 8) + b"\x01"  # trailing partial element ignored
    check(a.values == [9, 8], "short data with trailing byte")
    check(a.values is not prev and prev == [1, 2, 3, 4, 65535], "setter makes a list")
    a.bytes = b""
    check(a.values == [], "empty data")
    a.bytes = b"\x05"
    check(a.values == [], "less than one element")
    a.bytes = bytearray(pack("<HHHHH", 5, 4, 3, 2, 1))
    check(a.values == [5, 4, 3, 2, 1], "bytearray input")
    a.bytes = memoryview(pack("<HHHHH", 5, 4, 3, 2, 0))
    check(a.values == [5, 4, 3, 2, 0], "memoryview input")
    check(a.bytes == pack("<HHHHH", 5, 4, 3, 2, 0), "round trip")

    # a failing conversion leaves the elements decoded so far
    a.values = [1, 2, 3, 4, 5]
    check(raises(TypeError, setattr, a, "bytes", "abcdefgh"), "str is rejected")
    check(a.values == [], f"values after failed set: {a.values}")

    class Picky(NoDefault):
        @staticmethod
        def python_type(v):
            if v == 3:
                raise ValueError("no threes")
            return v

    pk = Picky()
    check(
        raises(ValueError, setattr, pk, "bytes", pack("<HHHH", 1, 2, 3, 4)),
        "python_type error propagates",
    )
    check(pk.values == [1, 2], f"partial decode kept: {pk.values}")

    p = PairArray()
    p.bytes = pack("<HHHH", 10, 20, 30, 40) + b"\xff\xff"
    check([(v.a, v.b) for v in p.values] == [(10, 20), (30, 40)], "pair decode")
    check(all(type(v) is Pair for v in p.values), "python_type for tuples")
    check(p.bytes == pack("<HHHH", 10, 20, 30, 40), "pair round trip")

    fl = FloatArray()
    check(fl.values == [0, 0, 0], "float default")
    fl.bytes = pack("<fff", 0.5, -1.25, 2.0)
    check(fl.values == [0.5, -1.25, 2.0], "float decode")
    check(all(type(v) is float for v in fl.values), "float python_type")
    check(fl.bytes == pack("<fff", 0.5, -1.25, 2.0), "float round trip")

    class Unsized(ArrayChunk):
        length = 2
        default = 0

    u = Unsized()
    check(u.values == [0, 0], "unsized default")
    check(raises(TypeError, setattr, u, "bytes", b"abcd"), "element_size None")
    check(u.values == [], "values reset before the size is looked at")
    check(raises(TypeError, lambda: u.bytes), "type None cannot be packed")

    class ZeroSized(NoDefault):
        element_size = 0

    check(
        raises(ZeroDivisionError, setattr, ZeroSized(), "bytes", b"ab"),
        "zero element size",
    )


def test_real_array_chunks():
    def payload_chunks(mod):
        return [
            (name, value)
            for name, value in vars(mod).items()
            if isinstance(value, ArrayChunk)
        ]

    found = 0
    for cls in (m.WaveShaper, m.MultiSynth, m.SpectraVoice, m.MultiCtl, m.Fmx):
        a, b = cls(), cls()
        b_bytes = synth_bytes(b)
        chunks_a = payload_chunks(a)
        check(chunks_a, f"{cls.__name__}: no array chunks found")
        for name, chunk in chunks_a:
            found += 1
            other = getattr(b, name)
            label = f"{cls.__name__}.{name}"
            check(chunk is not other, f"{label}: chunk shared")
            check(chunk.values is not other.values, f"{label}: values shared")
            default = type(chunk).__dict__.get("default")
            if isinstance(default, list):
                check(chunk.values is not default, f"{label}: class default used")
                check(chunk.values == default, f"{label}: default content")
                default_copy = list(default)
            else:
                default_copy = None
            before = list(other.values)
            first = chunk.values[0]
            if type(first) in (int, float):
                chunk.values[0] = first + 1 if first < 100 else first - 1
                chunk.values[-1] = 1
                chunk.values.reverse()
                check(other.values == before, f"{label}: mutation leaked")
                if default_copy is not None:
                    check(default == default_copy, f"{label}: class default changed")
                check(
                    type(chunk)().values == before, f"{label}: new instance polluted"
                )
                data = chunk.bytes
                chunk.reset()
                check(chunk.values == before, f"{label}: reset")
                chunk.bytes = data
                check(chunk.bytes == data, f"{label}: byte round trip")
        check(synth_bytes(b) == b_bytes, f"{cls.__name__}: saved bytes changed")
        check(synth_bytes(cls()) == b_bytes, f"{cls.__name__}: fresh bytes changed")
    check(found >= 10, f"only {found} array chunks exercised")

    # composite mappings
    mc1, mc2 = m.MultiCtl(), m.MultiCtl()
    check(len(mc1.mappings.values) == 16, "MultiCtl mappings length")
    check(mc1.mappings.values[0] is not mc1.mappings.values[1], "mapping per slot")
    check(mc1.mappings.values[0] is not mc2.mappings.values[0], "mapping per module")
    mc1.mappings.values[0].max = 123
    check(mc2.mappings.values[0].max == 0x8000, "MultiCtl mapping leak")
    data = mc1.mappings.bytes
    check(len(data) == 16 * 32, "MultiCtl mapping bytes")
    mc2.mappings.bytes = data
    check(mc2.mappings.values[0].max == 123, "MultiCtl mapping decode")
    check(mc2.mappings.bytes == data, "MultiCtl mapping round trip")

    mm1, mm2 = m.MetaModule(), m.MetaModule()
    check(len(mm1.mappings.values) == 96, "MetaModule mappings length")
    mm1.mappings.values[3].module = 5
    check(mm2.mappings.values[3].module == 0, "MetaModule mapping leak")
    mm2.mappings.bytes = pack("<HHHH", 1, 2, 3, 4)
    check(len(mm2.mappings.values) == 96, "MetaModule mappings padded")
    check(
        [(v.module, v.controller) for v in mm2.mappings.values[:3]]
        == [(1, 2), (3, 4), (0, 0)],
        "MetaModule mapping decode",
    )
    check(mm1.mappings.values[0].module == 0, "MetaModule decode leak")


# --------------------------------------------------------------------------
# WaveformChunk


def test_waveforms():
    base = WaveformChunk()
    check(base.samples == [] and base.format is None and base.freq is None, "base")
    check(WaveformChunk().samples is not base.samples, "base samples shared")
    check(base.bytes == b"" and base.chdt() == b"", "empty bytes")

    a, b = DrawnWaveformChunk(), DrawnWaveformChunk()
    default = DrawnWaveformChunk.default
    check(a.samples == default and a.samples is not default, "default copied")
    check(a.samples is not b.samples, "samples shared between instances")
    check(type(a.samples) is list and len(a.samples) == 32, "samples list")
    check(a.format is WaveformChunk.Format.mono_8bit, "fixed format applied")
    check(a.freq == 44100, "fixed freq applied")
    check(a.is_default and list(a.chunks()) == [], "default is not written")
    expected = bytes(v % 256 for v in default)
    check(a.bytes == expected, "signed samples stored as low 8 bits")
    check(a.bytes[1] == 156 and a.bytes[0] == 0, "two's complement")
    saved_default = list(default)
    a.samples[0] = -1
    a.samples[1] = 127
    a.samples.append(300)
    check(default == saved_default, "class default mutated")
    check(b.samples == saved_default and b.is_default, "other instance mutated")
    check(DrawnWaveformChunk().samples == saved_default, "new instance polluted")
    check(a.bytes[:2] == b"\xff\x7f" and a.bytes[-1] == 300 % 256, "masking")
    check(not a.is_default, "is_default after change")
    a.chnm = 0
    chunks = list(a.chunks())
    check(
        [k for k, _ in chunks] == [b"CHNM", b"CHDT", b"CHFR"], "chunks when changed"
    )
    check(chunks[1][1] == a.bytes, "CHDT is the sample bytes")
    check(chunks[2][1] == pack("<I", 44100), "CHFR")
    check(a.chff() == pack("<I", 1), "CHFF")

    class Tupled(WaveformChunk):
        default = (1, 2, 3)

    check(Tupled().samples == (1, 2, 3), "sequence type of default is kept")

    for fmt in WaveformChunk.Format:
        w = DrawnWaveformChunk()
        w.format = fmt
        if fmt is WaveformChunk.Format.mono_8bit:
            check(w.bytes == expected, "mono 8 bit supported")
        else:
            check(raises(NotImplementedError, lambda: w.bytes), f"{fmt} unsupported")
    w = DrawnWaveformChunk()
    w.format = None
    check(w.bytes == expected, "format None is treated as 8 bit")
    w.format = 1  # plain int, not the enum member
    check(raises(NotImplementedError, lambda: w.bytes), "int format unsupported")

    for cls in (m.Generator, m.AnalogGenerator):
        g1, g2 = cls(), cls()
        before = synth_bytes(g2)
        g1.drawn_waveform.samples[5] = 11
        check(g2.drawn_waveform.samples == saved_default, f"{cls.__name__} leak")
        check(synth_bytes(g2) == before, f"{cls.__name__} saved bytes changed")
        check(synth_bytes(g1) != before, f"{cls.__name__} change is saved")
        check(cls().drawn_waveform.samples == saved_default, f"{cls.__name__} new")


# --------------------------------------------------------------------------
# Sampler envelopes

S = m.Sampler

EXPECTED_ENVELOPES = {
    "VolumeEnvelope": (
        "02010000",
        "030000640000000004000000000000000000000000000080080000008000000000010000",
        "0000400008000000800000000001" + "00" * 34,
    ),
    "PanningEnvelope": (
        "03010000",
        "0000006400000000040000000000000000000000000000404000002080000060b4000040",
        "000020004000100080003000b4002000" + "00002000" * 8,
    ),
    "PitchEnvelope": (
        "04010000",
        "00000064000000000200000000000000000000000000004040000040",
        "0000200040002000" + "00002000" * 10,
    ),
}


def test_envelopes():
    for name, (chnm, chdt, legacy) in EXPECTED_ENVELOPES.items():
        cls = getattr(S, name)
        e1, e2 = cls(), cls()
        check(e1.points == cls.initial_points, f"{name} initial points")
        check(e1.points is not cls.initial_points, f"{name} class points handed out")
        check(e1.points is not e2.points, f"{name} points shared")
        check(e1.loaded is False, f"{name} loaded flag")
        out = list(e1.chunks())
        check([k for k, _ in out] == [b"CHNM", b"CHDT"], f"{name} chunk names")
        check(out[0][1].hex() == chnm, f"{name} CHNM")
        check(out[1][1].hex() == chdt, f"{name} CHDT {out[1][1].hex()}")
        check(e1.point_bytes.hex() == legacy, f"{name} legacy table")
        check(len(e1.point_bytes) == 48, f"{name} legacy table size")
        saved = list(cls.initial_points)
        e1.points.append((0x200, e1.range[0] + 0x400))
        e1.points[0] = (1, e1.range[0])
        e1.sustain_point = 2
        e1.enable, e1.sustain, e1.loop = True, False, True
        check(cls.initial_points == saved, f"{name} class points mutated")
        check(e2.points == saved, f"{name} sibling mutated")
        check(list(e2.chunks())[1][1].hex() == chdt, f"{name} sibling bytes")
        check(list(cls().chunks())[1][1].hex() == chdt, f"{name} fresh bytes")
        check(e1.bitmask == 5, f"{name} bitmask")
        # round trip through load_chdt
        data = list(e1.chunks())[1][1]
        e3 = cls()
        e3.load_chdt(data)
        check(e3.loaded is True, f"{name} loaded after load_chdt")
        check(e3.points == e1.points, f"{name} points round trip")
        check(e3.points is not e1.points, f"{name} loaded points are new")
        check(
            (e3.enable, e3.sustain, e3.loop, e3.sustain_point) == (True, False, True, 2),
            f"{name} flags round trip",
        )
        check(list(e3.chunks())[1][1] == data, f"{name} bytes round trip")
        check(cls.initial_points == saved, f"{name} class points after load")
        check(e2.points == saved, f"{name} sibling after load")

    fx = [S.EffectControlEnvelope(c) for c in (0x105, 0x108)]
    check([e.chnm for e in fx] == [0x105, 0x108], "effect envelope chnm")
    check(
        list(fx[1].chunks())[0][1] == pack("<I", 0x108), "effect envelope CHNM bytes"
    )
    check(
        list(fx[0].chunks())[1][1].hex()
        == "00000064000000000200000000000000000000000000008040000080",
        "effect envelope CHDT",
    )
    check(fx[0].points is not fx[1].points, "effect envelope points shared")
    check(S.EffectControlEnvelope.chnm is None, "class chnm untouched")

    # header fields, explicit layout
    e = S.VolumeEnvelope()
    e.ctl_index, e.gain_pct, e.velocity = 3, 50, 1
    e.sustain_point, e.loop_start_point, e.loop_end_point = 1, 2, 3
    e.points = [(0, 0x8000), (5, 0x1234)]
    data = list(e.chunks())[1][1]
    check(
        data
        == pack("<HBBB", 3, 3, 50, 1)
        + b"\0\0\0"
        + pack("<HHHH", 2, 1, 2, 3)
        + b"\0\0\0\0"
        + pack("<HHHH", 0, 0x8000, 5, 0x1234),
        "explicit envelope layout",
    )
    check(e.point_bytes[:8] == pack("<HHHH", 0, 0x40, 5, 0x9), "legacy y scaling")

    # more than 12 points: the legacy table is truncated, the chunk is not
    e = S.VolumeEnvelope()
    e.points = [(i, i * 0x200) for i in range(15)]
    check(len(e.point_bytes) == 48, "legacy table truncated")
    check(
        e.point_bytes == pack("<24H", *[v for i in range(12) for v in (i, i)]),
        "legacy table content",
    )
    check(len(list(e.chunks())[1][1]) == 0x14 + 15 * 4, "chunk keeps all points")
    check(len(e.points) == 15, "points untouched by serialising")
    e.points = []
    check(e.point_bytes == bytes(48), "empty legacy table")
    check(list(e.chunks())[1][1][8:10] == b"\0\0", "zero point count")

    # extra bytes after the points are ignored; truncated data is an error
    e = S.PanningEnvelope()
    good = list(S.PanningEnvelope().chunks())[1][1]
    e.load_chdt(good + b"\xaa\xbb\xcc")
    check(e.points == S.PanningEnvelope.initial_points, "trailing bytes ignored")
    e = S.PanningEnvelope()
    check(raises(struct.error, e.load_chdt, good[:-2]), "truncated point data")
    check(e.points == S.PanningEnvelope.initial_points[:3], "points read so far")
    check(e.loaded is False, "loaded stays False on error")
    e = S.PanningEnvelope()
    kept = e.points
    check(raises(struct.error, e.load_chdt, good[:10]), "truncated header")
    check(e.points is kept and e.enable is False, "nothing assigned on header error")
    e = S.VolumeEnvelope()
    e.points = [(0, -1)]
    check(raises(struct.error, lambda: list(e.chunks())), "negative y is rejected")


def test_sampler_modules():
    a, b = S(), S()
    envelopes = lambda s: [  # noqa: E731
        s.volume_envelope,
        s.panning_envelope,
        s.pitch_envelope,
        *s.effect_control_envelopes,
    ]
    check(len(a.effect_control_envelopes) == 4, "four effect envelopes")
    check(
        [e.chnm for e in envelopes(a)]
        == [0x102, 0x103, 0x104, 0x105, 0x106, 0x107, 0x108],
        "envelope chunk numbers",
    )
    check(
        all(type(e) is S.EffectControlEnvelope for e in a.effect_control_envelopes),
        "effect envelope type",
    )
    before = synth_bytes(b)
    for ea, eb in zip(envelopes(a), envelopes(b)):
        check(ea is not eb and ea.points is not eb.points, "envelopes shared")
        ea.points.append((0x300, ea.range[0]))
        ea.points[0] = (2, ea.range[1])
        ea.enable = not ea.enable
    a.note_samples[next(iter(a.note_samples))] = 3
    check(synth_bytes(b) == before, "Sampler: mutating A changed B's bytes")
    check(synth_bytes(S()) == before, "Sampler: fresh instance changed")
    check(synth_bytes(a) != before, "Sampler: mutation is saved")
    clone = a.clone()
    check(synth_bytes(clone) == synth_bytes(a), "Sampler clone bytes")
    for ea, ec in zip(envelopes(a), envelopes(clone)):
        check(ea.points == ec.points and ea.points is not ec.points, "clone points")
    clone.volume_envelope.points[0] = (0, 0)
    check(a.volume_envelope.points[0] == (2, 0x8000), "clone leak")

    path = os.path.join("tests", "files", "sampler.sunsynth")
    check(os.path.exists(path), "run from the repository root")
    s1 = read_sunvox_file(path).module
    s2 = read_sunvox_file(path).module
    ref = synth_bytes(s2)
    check(synth_bytes(s1) == ref, "two loads differ")
    s1.volume_envelope.points.append((0x400, 0))
    s1.pitch_envelope.points.clear()
    check(synth_bytes(s2) == ref, "loaded samplers share envelope state")
    check(synth_bytes(read_sunvox_file(path).module) == ref, "reload differs")


def main():
    test_array_defaults()
    test_array_bytes()
    test_real_array_chunks()
    test_waveforms()
    test_envelopes()
    test_sampler_modules()
    if FAILURES:
        for failure in FAILURES:
            print("FAIL:", failure)
        sys.exit(1)
    print("PASS")


if __name__ == "__main__":
    main()
