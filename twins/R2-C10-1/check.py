"""Behaviour check for the raw-value codecs of Range and its subclasses.

Exercises Range/WarnOnlyRange/CompactRange/NoOffsetRange.to_raw_value and
from_raw_value directly (complete enumeration of every distinct range used by
any module type, plus hand-made edge cases) and through Module.get_raw /
Module.set_raw on every controller of every module type.
"""
import sys
from enum import Enum

from rv.controller import (
    CompactRange,
    DependentRange,
    NoOffsetRange,
    Range,
    WarnOnlyRange,
)
from rv.modules import MODULE_CLASSES

failures = []


def check(cond, *msg):
    if not cond:
        failures.append(" ".join(str(m) for m in msg))
        if len(failures) > 20:
            report()


def report():
    if failures:
        print("FAIL")
        for f in failures:
            print("  ", f)
        sys.exit(1)
    print("PASS")
    sys.exit(0)


def expected_raw(t, v):
    if type(t) is NoOffsetRange:
        return v
    return v - t.min if t.min < 0 else v


def sample(lo, hi):
    if hi - lo <= 2048:
        return range(lo, hi + 1)
    picks = {lo, lo + 1, lo + 2, hi - 2, hi - 1, hi, (lo + hi) // 2}
    picks.update(x for x in (-2, -1, 0, 1, 2) if lo <= x <= hi)
    picks.update(range(lo, hi + 1, max(1, (hi - lo) // 701)))
    return sorted(picks)


# --- 1. hand-made ranges, all four kinds --------------------------------------
KINDS = (Range, WarnOnlyRange, CompactRange, NoOffsetRange)
BOUNDS = [(0, 0), (0, 1), (1, 1), (1, 256), (-1, 1), (-1, 0), (-128, 128),
          (-128, -100), (-32768, 32767), (5, 9), (0, 32768), (-1000, 1000)]
for kind in KINDS:
    for lo, hi in BOUNDS:
        t = kind(lo, hi)
        seen = set()
        for v in range(lo - 3, hi + 4):  # codecs do not validate: go outside too
            raw = t.to_raw_value(v)
            check(raw == expected_raw(t, v), kind.__name__, lo, hi, v, "raw", raw)
            check(type(raw) is int, "raw type", kind.__name__, lo, hi, v)
            back = t.from_raw_value(raw)
            check(back == v and type(back) is int, kind.__name__, lo, hi, v, back)
            if lo <= v <= hi:
                check(raw not in seen, "collision", kind.__name__, lo, hi, v)
                seen.add(raw)
                if kind is not NoOffsetRange:
                    check(raw >= 0, "negative raw", kind.__name__, lo, hi, v)
        check(t.to_raw_value(lo) == (lo if (kind is NoOffsetRange or lo >= 0) else 0),
              "min raw", kind.__name__, lo, hi)

# unshifted values are returned as the very same object, including bools/floats
for kind in KINDS:
    for lo in (0, 1, 7):
        t = kind(lo, 100)
        for v in (True, False, 2.5, 10 ** 30, -0.0):
            check(t.to_raw_value(v) is v, "identity to_raw", kind.__name__, lo, v)
            check(t.from_raw_value(v) is v, "identity from_raw", kind.__name__, lo, v)
t = NoOffsetRange(-128, 128)
for v in (True, -5, 3.25, -128, 128):
    check(t.to_raw_value(v) is v and t.from_raw_value(v) is v, "nooffset identity", v)
# shifted ranges: arithmetic result types
t = Range(-10, 10)
check(t.to_raw_value(True) == 11 and type(t.to_raw_value(True)) is int, "bool shifted")
check(t.to_raw_value(0.5) == 10.5 and t.from_raw_value(10.5) == 0.5, "float shifted")
t = Range(-0.5, 0.5)
check(t.to_raw_value(0.25) == 0.75 and t.from_raw_value(0.75) == 0.25, "float min")
# the minimum is looked at on every call, not captured at construction time
t = Range(0, 10)
check(t.to_raw_value(3) == 3, "before mutation")
t.min = -4
check(t.to_raw_value(3) == 7 and t.from_raw_value(7) == 3, "after mutation")
t.min = 2
check(t.to_raw_value(3) == 3 and t.from_raw_value(3) == 3, "after 2nd mutation")
t = NoOffsetRange(0, 10)
t.min = -4
check(t.to_raw_value(3) == 3 and t.from_raw_value(3) == 3, "nooffset mutation")
# subclass relations / equality / repr / validation are untouched
check(Range(-1, 1) == Range(-1, 1) and Range(-1, 1) != NoOffsetRange(-1, 1), "eq")
check(repr(NoOffsetRange(-128, 128)) == "<NoOffsetRange -128..128>", "repr")
check(all(issubclass(k, Range) for k in KINDS), "hierarchy")
check(callable(NoOffsetRange.to_raw_value) and callable(NoOffsetRange.from_raw_value),
      "public codec names on NoOffsetRange")
check(NoOffsetRange(-3, 3)(-3) == -3, "call validates and returns")

# --- 2. every distinct range of every module type, enumerated completely -------
distinct = {}
per_controller = []
for mtype, cls in sorted(MODULE_CLASSES.items()):
    probe = cls()
    for name, ctl in probe.controllers.items():
        vt = ctl.value_type
        if isinstance(vt, DependentRange):
            variants = [(unit, r) for unit, r in vt.range_map.items()]
            variants.append((None, vt.default))
        else:
            variants = [(None, vt)]
        for unit, r in variants:
            per_controller.append((cls, name, unit, r))
            if isinstance(r, Range):
                distinct[(type(r), r.min, r.max)] = r
total = 0
for (kind, lo, hi), r in sorted(distinct.items(), key=lambda kv: (kv[0][0].__name__,) + kv[0][1:]):
    shift = lo if (lo < 0 and kind is not NoOffsetRange) else 0
    raws = [r.to_raw_value(v) for v in range(lo, hi + 1)]
    check(raws == list(range(lo - shift, hi - shift + 1)), "enumeration to_raw", r)
    backs = [r.from_raw_value(x) for x in raws]
    check(backs == list(range(lo, hi + 1)), "enumeration from_raw", r)
    total += len(raws)
check(total > 100000, "enumerated too little", total)
check(any(k[0] is NoOffsetRange for k in distinct), "NoOffsetRange not seen")
check(any(k[0] is CompactRange for k in distinct), "CompactRange not seen")
check(any(k[1] < 0 and k[0] is Range for k in distinct), "no negative Range seen")

# --- 3. through Module.get_raw / Module.set_raw ------------------------------
def put(mod, name, v):
    """Assign a controller value (MetaModule proxies forward to a project,
    which a bare instance does not have, so store directly there)."""
    if type(mod).__name__ == "MetaModule":
        mod.controller_values[mod.controllers[name].controller(mod).name] = v
    else:
        setattr(mod, name, v)


pairs = 0
for cls, name, unit, r in per_controller:
    mod = cls()
    ctl = mod.controllers[name]
    if unit is not None:
        setattr(mod, ctl.value_type.ctl_name, unit)
    t = ctl.instance_value_type(mod)
    if isinstance(ctl.value_type, DependentRange) and unit is not None:
        check(t is r, "dependent range selection", cls.__name__, name, unit)
    if isinstance(t, Range):
        for v in sample(t.min, t.max):
            put(mod, name, v)
            raw = mod.get_raw(name)
            check(raw == expected_raw(t, v), cls.__name__, name, unit, v, "get_raw", raw)
            mod.controller_values[name] = None
            mod.set_raw(name, raw)
            got = getattr(mod, name)
            check(got == v and type(got) is int, cls.__name__, name, unit, v, "set_raw", got)
            pairs += 1
    elif isinstance(t, type) and issubclass(t, Enum):
        for member in t:
            put(mod, name, member)
            raw = mod.get_raw(name)
            check(raw == member.value, cls.__name__, name, member)
            mod.set_raw(name, raw)
            check(getattr(mod, name) is member, cls.__name__, name, member, "back")
            pairs += 1
    elif t is bool:
        for b in (False, True):
            put(mod, name, b)
            raw = mod.get_raw(name)
            check(raw == int(b) and type(raw) is int, cls.__name__, name, b)
            mod.set_raw(name, raw)
            check(getattr(mod, name) is b, cls.__name__, name, b, "back")
            pairs += 1
check(pairs > 50000, "too few module-level pairs", pairs)

# VorbisPlayer.finetune is the no-offset kind: stored signed
vp = MODULE_CLASSES["Vorbis player"]()
vp.finetune = -128
check(vp.get_raw("finetune") == -128, "vorbis finetune raw")
vp.set_raw("finetune", -7)
check(vp.finetune == -7, "vorbis finetune set_raw")
ms = MODULE_CLASSES["MultiSynth"]()
ms.transpose = -2
check(ms.get_raw("transpose") == 126, "multisynth transpose raw")

report()
